"""E4 (sqlite part): crash-point enumerator for the yowsup key store.

`install()` rebinds the module-level name `sqlite3` inside
`yowsup.axolotl.store.sqlite.liteaxolotlstore` to a shim whose `connect()`
returns a `sqlite3.Connection` subclass (handing out a `sqlite3.Cursor`
subclass).  Both call a boundary callback *before* and *after* every
`execute` / `executemany` / `executescript` (on the cursor and on the
connection - CPython >= 3.11 runs `Connection.execute` on a private C cursor)
and the connection's `commit` / `rollback`; one pair per statement.  Nothing
else about sqlite is changed: statements, transaction control and the files on
disk are those of the real library.

`CrashRecorder(src_dir, snap_root)` is such a callback: at each boundary it
copies the scratch directory byte for byte (database file plus `-journal` /
`-wal` / `-shm` when present).  That copy is exactly what `kill -9` at that
instant leaves on disk (process-death model: completed write()s survive, page
cache of the dead process does not matter because sqlite only ever talks to
the file through write()).  Consecutive boundaries whose directory image is
byte-identical are stored once (same bytes => same recovered store), but every
boundary is counted and labelled.

The caller opens a fresh `LiteAxolotlStore` on each image (sqlite rolls a hot
journal back) and compares it with its reference model.

Trusted base: sqlite's own atomic commit (we do not tear inside one
`commit()`/autocommit statement), and process death rather than power loss.
"""
import os
import shutil
import hashlib
import sqlite3 as _real_sqlite3

_state = {"cb": None, "installed_in": None}


def _fire(phase, kind, sql):
    cb = _state["cb"]
    if cb is not None:
        cb(phase, kind, sql)


class BoundaryCursor(_real_sqlite3.Cursor):
    def _wrapped(self, kind, sql, fn, args):
        if getattr(self.connection, "_depth", 0):      # already inside a wrapped Connection.execute*
            return fn(self, sql, *args)
        _fire("before", kind, sql)
        try:
            return fn(self, sql, *args)
        finally:
            _fire("after", kind, sql)

    def execute(self, sql, *a):
        return self._wrapped("execute", sql, _real_sqlite3.Cursor.execute, a)

    def executemany(self, sql, *a):
        return self._wrapped("executemany", sql, _real_sqlite3.Cursor.executemany, a)

    def executescript(self, sql, *a):
        return self._wrapped("executescript", sql, _real_sqlite3.Cursor.executescript, a)


class BoundaryConnection(_real_sqlite3.Connection):
    # CPython >= 3.11 implements Connection.execute/executemany/executescript in C on a private cursor
    # (it does not call self.cursor()), so they are wrapped here as well; on older interpreters, where they call
    # self.cursor().execute(...), the depth counter keeps it at one pair of boundaries per statement.
    _depth = 0

    def cursor(self, factory=None):
        if factory is None:
            factory = BoundaryCursor
        return _real_sqlite3.Connection.cursor(self, factory)

    def _wrapped(self, kind, sql, fn, args):
        if self._depth:
            return fn(self, sql, *args)
        _fire("before", kind, sql)
        self._depth += 1
        try:
            return fn(self, sql, *args)
        finally:
            self._depth -= 1
            _fire("after", kind, sql)

    def execute(self, sql, *a):
        return self._wrapped("execute", sql, _real_sqlite3.Connection.execute, a)

    def executemany(self, sql, *a):
        return self._wrapped("executemany", sql, _real_sqlite3.Connection.executemany, a)

    def executescript(self, sql, *a):
        return self._wrapped("executescript", sql, _real_sqlite3.Connection.executescript, a)

    def commit(self):
        _fire("before", "commit", None)
        try:
            return _real_sqlite3.Connection.commit(self)
        finally:
            _fire("after", "commit", None)

    def rollback(self):
        _fire("before", "rollback", None)
        try:
            return _real_sqlite3.Connection.rollback(self)
        finally:
            _fire("after", "rollback", None)


class Sqlite3Shim(object):
    """Stands in for the `sqlite3` module inside liteaxolotlstore."""

    def __init__(self):
        self.connections = []       # every connection handed out (so a harness can close them)

    def connect(self, database, *a, **kw):
        kw.setdefault("factory", BoundaryConnection)
        conn = _real_sqlite3.connect(database, *a, **kw)
        self.connections.append(conn)
        del self.connections[:-8]
        return conn

    def __getattr__(self, name):
        return getattr(_real_sqlite3, name)


SHIM = Sqlite3Shim()


def install():
    """Rebind `sqlite3` in liteaxolotlstore (idempotent).  Returns the shim."""
    from yowsup.axolotl.store.sqlite import liteaxolotlstore as las
    if las.sqlite3 is not SHIM:
        if las.sqlite3 is not _real_sqlite3:
            raise RuntimeError("liteaxolotlstore.sqlite3 is already rebound to something else")
        las.sqlite3 = SHIM
    # the store must really have got our classes, otherwise no boundary would ever fire
    _state["installed_in"] = las
    return SHIM


def uninstall():
    las = _state["installed_in"]
    if las is not None and las.sqlite3 is SHIM:
        las.sqlite3 = _real_sqlite3
    _state["installed_in"] = None


def set_callback(cb):
    old = _state["cb"]
    _state["cb"] = cb
    return old


class recording(object):
    """with recording(cb): ...  boundaries fire into cb only inside the block."""

    def __init__(self, cb):
        self.cb = cb

    def __enter__(self):
        self.old = set_callback(self.cb)
        return self.cb

    def __exit__(self, *exc):
        set_callback(self.old)
        return False


def read_dir_image(src_dir):
    """{filename: bytes} of every regular file in src_dir (db, -journal, -wal, -shm)."""
    img = {}
    for name in sorted(os.listdir(src_dir)):
        p = os.path.join(src_dir, name)
        if os.path.isfile(p):
            with open(p, "rb") as f:
                img[name] = f.read()
    return img


def image_digest(img):
    h = hashlib.sha1()
    for name in sorted(img):
        h.update(name.encode() + b"\0" + str(len(img[name])).encode() + b"\0")
        h.update(img[name])
    return h.hexdigest()


def write_dir_image(img, dst_dir):
    if os.path.isdir(dst_dir):
        shutil.rmtree(dst_dir)
    os.makedirs(dst_dir)
    for name, data in img.items():
        with open(os.path.join(dst_dir, name), "wb") as f:
            f.write(data)


class Boundary(object):
    __slots__ = ("index", "phase", "kind", "sql", "files", "image_id")

    def label(self):
        s = "%d:%s-%s" % (self.index, self.phase, self.kind)
        if self.sql:
            s += "[%s]" % " ".join(self.sql.split())[:60]
        return s


class CrashRecorder(object):
    """Boundary callback that snapshots `src_dir` at every boundary."""

    def __init__(self, src_dir):
        self.src_dir = src_dir
        self.boundaries = []        # every boundary, in order
        self.images = []            # distinct directory images: (digest, {name: bytes})
        self._by_digest = {}

    def __call__(self, phase, kind, sql):
        img = read_dir_image(self.src_dir)
        d = image_digest(img)
        iid = self._by_digest.get(d)
        if iid is None:
            iid = len(self.images)
            self._by_digest[d] = iid
            self.images.append((d, img))
        b = Boundary()
        b.index = len(self.boundaries)
        b.phase, b.kind, b.sql = phase, kind, sql
        b.files = sorted((n, len(v)) for n, v in img.items())
        b.image_id = iid
        self.boundaries.append(b)

    def crash_points(self):
        """One entry per distinct on-disk image: (image, [boundaries that produce it])."""
        out = []
        for iid, (d, img) in enumerate(self.images):
            out.append((img, [b for b in self.boundaries if b.image_id == iid]))
        return out
