"""E3: controlled scheduler for real threads + stateless DFS with preemption bounding.

Real OS threads, exactly one runnable at a time (per-thread semaphore baton).
The library's locks/queues are replaced by CLock/CQueue whose operations are
scheduling points and whose blocking is modelled (a thread waiting for a held
lock or an empty queue is *disabled*, it is not parked in the OS primitive).
Additional scheduling points come from sys.monitoring PY_START (and optionally
LINE) events for code objects selected by a filter ("layer-call" granularity).

Exploration: run a choice prefix, then take choice 0 (= keep running the current
thread if it is enabled, else the lowest thread id) at every later point; branch
on every alternative whose preemption cost stays within the bound.
"""
import sys
import threading
import collections
import queue as _queue

_real_thread_start = threading.Thread.start
_RealLock = threading.Lock
_RealSemaphore = threading.Semaphore

TOOL_ID = 4
ACTIVE = None          # the Scheduler of the execution in progress (one per process)


class SchedAbort(BaseException):
    """Raised inside managed threads to unwind them at the end of an execution."""


class ReplayDivergence(Exception):
    pass


class HarnessStuck(Exception):
    pass


class MThread(object):
    def __init__(self, tid, name, fn, daemon):
        self.id = tid
        self.name = name
        self.fn = fn
        self.daemon = daemon
        self.sem = _RealSemaphore(0)
        self.done = False
        self.started = False
        self.waiting = None       # predicate -> bool, None = runnable
        self.wait_desc = None
        self.exc = None
        self.real = None
        self.timer_credit = 0
        self.sleeping = False

    def enabled(self):
        if self.done:
            return False
        if self.waiting is None:
            return True
        return bool(self.waiting())

    def __repr__(self):
        return "<T%d %s%s>" % (self.id, self.name, " done" if self.done else (" wait:%s" % self.wait_desc if self.waiting else ""))


class Point(object):
    __slots__ = ("n", "chosen", "cur_enabled", "kind", "desc", "tids")

    def __init__(self, n, chosen, cur_enabled, kind, desc, tids):
        self.n = n
        self.chosen = chosen
        self.cur_enabled = cur_enabled
        self.kind = kind
        self.desc = desc
        self.tids = tids


class Scheduler(object):
    def __init__(self, prefix=(), trace_filter=None, line_filter=None, max_points=200000):
        # prefix: dense list of choices, or sparse (length, {index: choice}) with 0 everywhere else
        if isinstance(prefix, tuple) and len(prefix) == 2 and isinstance(prefix[1], dict):
            self.prefix_len, self.prefix_map = prefix[0], prefix[1]
        else:
            self.prefix_len = len(prefix)
            self.prefix_map = {i: c for i, c in enumerate(prefix) if c}
        self.points = []
        self.threads = []
        self.by_ident = {}
        self.current = None
        self.aborted = False
        self.driver_sem = _RealSemaphore(0)
        self.end_status = None
        self.trace_filter = trace_filter
        self.line_filter = line_filter
        self.max_points = max_points
        self.timer_grants = 0
        self.log = []             # harness observations, in execution order
        self.deadlock = None
        self._installed = False
        self._evaluating = False

    # ---------------------------------------------------------------- threads
    def me(self):
        return self.by_ident.get(threading.get_ident())

    def spawn(self, fn, name=None, daemon=False):
        t = MThread(len(self.threads), name or ("t%d" % len(self.threads)), fn, daemon)
        self.threads.append(t)
        real = threading.Thread(target=self._bootstrap, args=(t,), name="vf-" + t.name)
        real.daemon = True
        t.real = real
        _real_thread_start(real)
        return t

    def _bootstrap(self, t):
        self.by_ident[threading.get_ident()] = t
        t.sem.acquire()
        t.started = True
        try:
            if self.aborted:
                return
            t.fn()
        except SchedAbort:
            pass
        except BaseException as e:       # escaped exception: recorded, thread ends
            t.exc = e
            import traceback
            t.exc_tb = traceback.format_exc()
            self.log.append(("thread-exception", t.name, type(e).__name__, str(e)[:200]))
        finally:
            t.done = True
            t.waiting = None
            self.by_ident.pop(threading.get_ident(), None)
            if not self.aborted:
                try:
                    self._handoff(t, "exit", t.name, leaving=True)
                except SchedAbort:
                    pass

    # ---------------------------------------------------------------- core
    def _enabled_list(self, cur):
        # predicates may call traced library code: no scheduling points while the scheduler itself evaluates
        self._evaluating = True
        try:
            en = [t for t in self.threads if t.enabled()]
        except SchedAbort:
            raise
        except BaseException as e:
            # a wait predicate of the harness raised: that is a harness error, never a hang
            import traceback
            err = HarnessStuck("a wait predicate raised %s: %s\n%s" % (type(e).__name__, e, traceback.format_exc()[-600:]))
            self.end_status = ("error", err)
            self.aborted = True
            self.driver_sem.release()
            raise SchedAbort()
        finally:
            self._evaluating = False
        if cur is not None and cur in en:
            en.remove(cur)
            en.insert(0, cur)
        return en

    def _choose(self, en, cur, kind, desc, voluntary=False):
        if len(en) == 1:
            return en[0]
        i = len(self.points)
        if i < self.prefix_len:
            c = self.prefix_map.get(i, 0)
            if c >= len(en):
                raise ReplayDivergence("point %d: choice %d but only %d enabled (%s %s)" % (i, c, len(en), kind, desc))
        else:
            c = 0
        if len(self.points) >= self.max_points:
            raise HarnessStuck("more than %d scheduling points" % self.max_points)
        self.points.append(Point(len(en), c, bool(cur is not None and en[0] is cur and not voluntary), kind, desc,
                                 [t.id for t in en]))
        return en[c]

    def _handoff(self, cur, kind, desc, leaving=False, voluntary=False):
        """cur is at a scheduling point (or leaving).  Pick who runs next and pass the baton."""
        if self._evaluating:
            return
        if self.aborted:
            raise SchedAbort()
        en = self._enabled_list(None if leaving else cur)
        if not en:
            self._finish("quiescent")
            if leaving:
                return
            cur.sem.acquire()        # parked until a later phase makes this thread enabled and picks it
            if self.aborted:
                raise SchedAbort()
            return
        try:
            nxt = self._choose(en, None if leaving else cur, kind, desc, voluntary)
        except (ReplayDivergence, HarnessStuck) as e:
            self.end_status = ("error", e)
            self.aborted = True
            self.driver_sem.release()
            if leaving:
                return
            raise SchedAbort()
        if nxt is cur:
            return
        self.current = nxt
        nxt.sem.release()
        if leaving:
            return
        cur.sem.acquire()
        if self.aborted:
            raise SchedAbort()

    def _finish(self, status):
        self.end_status = (status, None)
        self.driver_sem.release()

    def point(self, kind, desc=None):
        t = self.me()
        if t is None:
            return
        if self.aborted:
            raise SchedAbort()
        if t is not self.current:
            return           # should not happen: only the baton holder runs
        self._handoff(t, kind, desc)

    def env_point(self, desc="environment event"):
        """The calling thread models an event loop that went back to waiting (select) and returns with the next
        event of the environment: the other threads may run in between, at no preemption cost (running somebody
        else here is a free deviation, continuing at once is the default)."""
        t = self.me()
        if t is None or t is not self.current:
            return
        if self.aborted:
            raise SchedAbort()
        self._handoff(t, "env", desc, voluntary=True)

    def wait_until(self, pred, desc):
        """Disable the calling thread until pred() holds (evaluated by the scheduler at choice time)."""
        t = self.me()
        if t is None:
            if not pred():
                raise HarnessStuck("unmanaged thread would block on %s" % desc)
            return
        self._evaluating = True
        try:
            ok = pred()
        finally:
            self._evaluating = False
        if ok:
            return
        t.waiting = pred
        t.wait_desc = desc
        try:
            self._handoff(t, "block", desc)
        finally:
            t.waiting = None
            t.wait_desc = None

    # ---------------------------------------------------------------- timers
    def timer_wait(self, desc="sleep"):
        """time.sleep replacement for library threads: a sleeping thread wakes only when an explicit tick() lets
        time pass.  A tick wakes EVERY thread that is sleeping at that moment (time passes for all of them)."""
        t = self.me()
        if t is None:
            return
        t.timer_credit = 0
        t.sleeping = True

        def pred():
            return t.timer_credit > 0
        try:
            self.wait_until(pred, "timer:" + desc)
        finally:
            t.sleeping = False
        t.timer_credit -= 1

    def tick(self, n=1):
        self.timer_grants += n
        for t in self.threads:
            if getattr(t, "sleeping", False) and not t.done:
                t.timer_credit += n

    # ---------------------------------------------------------------- phases
    def run_phase(self, fns, timeout=600.0):
        """Spawn one managed thread per (name, fn) and run until every thread is done or blocked.
        Threads left blocked stay parked for the next phase.  Returns status string."""
        global ACTIVE
        ACTIVE = self
        self._install()
        new = [self.spawn(fn, name) for name, fn in fns]
        self.end_status = None
        en = self._enabled_list(None)
        if not en:
            return "quiescent"
        try:
            first = self._choose(en, None, "phase-start", None)
        except (ReplayDivergence, HarnessStuck) as e:
            self.end_status = ("error", e)
            raise
        self.current = first
        first.sem.release()
        import os as _os
        timeout = float(_os.environ.get("VF_TIMEOUT", timeout))
        if not self.driver_sem.acquire(timeout=timeout):
            import traceback
            where = ""
            frames = sys._current_frames()
            for t in self.threads:
                if not t.done and t.waiting is None and t.real is not None and t.real.ident in frames:
                    where += "\n--- %s is at:\n%s" % (t.name, "".join(traceback.format_stack(frames[t.real.ident])[-14:]))
            self.aborted = True
            raise HarnessStuck("execution did not reach quiescence within %ss; threads=%r%s" % (timeout, self.threads, where))
        st, err = self.end_status
        if st == "error":
            raise err
        self.current = None
        return st

    def blocked(self):
        return [t for t in self.threads if not t.done]

    def shutdown(self):
        """Abort every parked thread and join."""
        global ACTIVE
        self.aborted = True
        for t in self.threads:
            if not t.done:
                t.sem.release()
        for t in self.threads:
            if t.real is not None:
                t.real.join(60.0)
        alive = [t for t in self.threads if t.real is not None and t.real.is_alive()]
        self._uninstall()
        ACTIVE = None
        if alive:
            raise HarnessStuck("threads did not unwind: %r" % alive)

    # ---------------------------------------------------------------- tracing
    def _install(self):
        if self._installed:
            return
        self._installed = True
        threading.Thread.start = _adopting_start
        if self.trace_filter is None and self.line_filter is None:
            return
        mon = sys.monitoring
        try:
            mon.use_tool_id(TOOL_ID, "vfsched")
        except ValueError:
            pass
        ev = 0
        if self.trace_filter is not None:
            mon.register_callback(TOOL_ID, mon.events.PY_START, self._on_pystart)
            ev |= mon.events.PY_START
        if self.line_filter is not None:
            mon.register_callback(TOOL_ID, mon.events.LINE, self._on_line)
            ev |= mon.events.LINE
        mon.set_events(TOOL_ID, ev)
        mon.restart_events()

    def _uninstall(self):
        if not self._installed:
            return
        self._installed = False
        threading.Thread.start = _real_thread_start
        if self.trace_filter is None and self.line_filter is None:
            return
        mon = sys.monitoring
        mon.set_events(TOOL_ID, 0)
        mon.register_callback(TOOL_ID, mon.events.PY_START, None)
        mon.register_callback(TOOL_ID, mon.events.LINE, None)
        try:
            mon.free_tool_id(TOOL_ID)
        except ValueError:
            pass

    def _on_pystart(self, code, offset):
        if not self.trace_filter(code):
            return sys.monitoring.DISABLE
        t = self.by_ident.get(threading.get_ident())
        if t is None or t is not self.current or self.aborted:
            return None
        self._handoff(t, "call", code.co_qualname)
        return None

    def _on_line(self, code, line):
        if not self.line_filter(code):
            return sys.monitoring.DISABLE
        t = self.by_ident.get(threading.get_ident())
        if t is None or t is not self.current or self.aborted:
            return None
        self._handoff(t, "line", "%s:%d" % (code.co_qualname, line))
        return None


def _adopting_start(thread):
    """threading.Thread.start while a scheduler is active: threads started by managed code become managed."""
    s = ACTIVE
    if s is None:
        return _real_thread_start(thread)
    if s.me() is None:
        raise HarnessStuck("library code started a thread from an unmanaged thread while a scheduler is active")
    thread._started.set()          # is_alive()/join() bookkeeping of the stdlib object is not relied upon
    t = s.spawn(thread.run, name=type(thread).__name__, daemon=bool(thread.daemon))
    thread._vf_mthread = t
    s.point("spawn", t.name)


def cur():
    return ACTIVE


# -------------------------------------------------------------------- primitives
class CLock(object):
    """threading.Lock replacement (non-reentrant)."""

    def __init__(self):
        self._held = False
        self.owner = None
        self.name = None

    def acquire(self, blocking=True, timeout=-1):
        s = ACTIVE
        if s is not None and s.me() is not None:
            s.point("acquire", self.name)
            if self._held:
                if not blocking:
                    return False
                if timeout is not None and timeout > 0:
                    # timed acquire of a held lock: one more scheduling point; if the scheduler lets the holder run on
                    # to its release first, the lock is taken, and if it resumes this thread while the lock is still
                    # held, the timeout has expired (the holder was stalled for that long, e.g. in a blocked write).
                    # The pinned tree has no timed acquire, so this branch only runs on changed code.
                    s.point("acquire-timed", self.name)
                    if self._held:
                        return False
                else:
                    s.wait_until(lambda: not self._held, "lock:%s held by %s" % (self.name, self.owner))
            self.owner = s.me().name
        else:
            if self._held:
                if not blocking:
                    return False
                raise HarnessStuck("unmanaged acquire of a held CLock %s (owner %s)" % (self.name, self.owner))
            self.owner = "unmanaged"
        self._held = True
        return True

    def release(self):
        if not self._held:
            raise RuntimeError("release unlocked lock")
        s = ACTIVE
        if s is not None and s.me() is not None:
            s.point("release", self.name)      # scheduling point BEFORE the operation: others may run while we still hold it
        self._held = False
        self.owner = None

    def locked(self):
        return self._held

    __enter__ = acquire

    def __exit__(self, *a):
        self.release()


class CQueue(object):
    """queue.Queue replacement (unbounded FIFO)."""

    def __init__(self, maxsize=0):
        self._q = collections.deque()
        self.name = None

    def _pt(self, kind):
        s = ACTIVE
        if s is not None and s.me() is not None:
            s.point(kind, self.name)
        return s

    def put(self, item, block=True, timeout=None):
        self._pt("put")
        self._q.append(item)

    put_nowait = put

    def get(self, block=True, timeout=None):
        s = self._pt("get")
        if not self._q:
            if not block:
                raise _queue.Empty()
            if s is None or s.me() is None:
                raise HarnessStuck("unmanaged blocking get on empty CQueue %s" % self.name)
            s.wait_until(lambda: len(self._q) > 0, "queue:%s empty" % self.name)
        return self._q.popleft()

    def get_nowait(self):
        return self.get(False)

    def qsize(self):
        self._pt("qsize")
        return len(self._q)

    def empty(self):
        self._pt("qsize")
        return not self._q

    def task_done(self):
        pass


class ModuleProxy(object):
    """Stand-in for a module object bound to a name inside a library module: overrides some attributes."""

    def __init__(self, real, **over):
        self.__dict__["_real"] = real
        self.__dict__.update(over)

    def __getattr__(self, name):
        return getattr(self._real, name)


# -------------------------------------------------------------------- exploration
class Execution(object):
    def __init__(self, choices, points, result):
        self.choices = choices      # full choice vector of this run
        self.points = points        # [(n, cur_enabled)]
        self.result = result


def children(prefix_len, points, bound, free_bound=None):
    """Alternative prefixes (sparse form) branching off an execution.
    points = [(n_enabled, chosen, cur_enabled)].  A non-default choice while the running thread is still
    enabled is a preemption (budget `bound`); a non-default choice at a point where the running thread
    blocked or ended is a free deviation (budget `free_bound`, None = unbounded)."""
    out = []
    cost = 0
    free = 0
    nz = {}
    for i, (n, chosen, cur_enabled) in enumerate(points):
        if i >= prefix_len and n > 1:
            if cur_enabled:
                ok = cost + 1 <= bound
            else:
                ok = free_bound is None or free + 1 <= free_bound
            if ok:
                for alt in range(1, n):
                    m = dict(nz)
                    m[i] = alt
                    out.append((i + 1, m))
        if chosen:
            nz[i] = chosen
            if cur_enabled:
                cost += 1
            else:
                free += 1
    return out


def preemptions(points):
    return sum(1 for (n, chosen, cur_enabled) in points if cur_enabled and chosen != 0)


def summarize_points(sched):
    return [(p.n, p.chosen, p.cur_enabled) for p in sched.points]
