"""E2: explicit-state breadth-first search over event histories.

A state is identified by the history that reaches it.  `build(hist)` must
construct fresh *real* objects and replay the handlers; `canon(state)` maps the
real objects to a hashable tuple; two histories are merged only when the
canonical tuples are equal.  `check(state, hist)` returns a list of violations
(possibly empty) and is evaluated on every state reached by every transition
(i.e. also on transitions that lead to an already-seen state).
"""
import collections


_SIMPLE = (int, float, bool, str, bytes, type(None))


def _simple(v, depth=0):
    if isinstance(v, _SIMPLE):
        return (type(v).__name__, v)
    if isinstance(v, bytearray):
        return ("bytearray", bytes(v))
    if depth < 3 and isinstance(v, (list, tuple)):
        return (type(v).__name__, tuple(_simple(x, depth + 1) for x in v))
    if depth < 3 and isinstance(v, dict):
        try:
            return ("dict", tuple(sorted((repr(k), _simple(x, depth + 1)) for k, x in v.items())))
        except Exception:
            return ("dict", len(v))
    if depth < 3 and isinstance(v, (set, frozenset)):
        return ("set", tuple(sorted(repr(x) for x in v)))
    return None


def simple_state(obj, skip=()):
    """Every instance attribute of a real object whose value is plain data (numbers, strings, bytes, and shallow
    containers of them), whatever its name.  Part of a canonical state so that merging two histories stays sound
    when the implementation keeps more state than the fields the harness knows about (a cached length, a flag):
    states that differ in any such attribute are never merged."""
    out = []
    for k, v in sorted(vars(obj).items()):
        if k in skip:
            continue
        sv = _simple(v)
        if sv is not None:
            out.append((k, sv))
    return tuple(out)


class Result(object):
    def __init__(self):
        self.states = 0
        self.transitions = 0
        self.max_depth = 0
        self.depth_hist = collections.Counter()
        self.capped = False
        self.violations = []
        self.sample_hists = []
        self.leaves = 0


def bfs(build, enabled, canon, check, max_depth, max_states=None, initial=(), on_state=None,
        stop_on_violation_sigs=True):
    res = Result()
    st0 = build(list(initial))
    seen = {canon(st0)}
    res.violations.extend(check(st0, list(initial)) or ())
    frontier = collections.deque([list(initial)])
    res.states = 1
    bad_sigs = set(v[0] for v in res.violations)
    while frontier:
        hist = frontier.popleft()
        depth = len(hist) - len(initial)
        res.max_depth = max(res.max_depth, depth)
        if depth >= max_depth:
            res.leaves += 1
            continue
        st = build(hist)
        evs = list(enabled(st, hist))
        if not evs:
            res.leaves += 1
            if len(res.sample_hists) < 4:
                res.sample_hists.append(list(hist))
        for ev in evs:
            nh = hist + [ev]
            nxt = build(nh)
            res.transitions += 1
            vs = check(nxt, nh) or ()
            violating = False
            for v in vs:
                violating = True
                if v[0] not in bad_sigs or not stop_on_violation_sigs:
                    bad_sigs.add(v[0])
                    res.violations.append(v)
            k = canon(nxt)
            if k in seen:
                continue
            seen.add(k)
            res.states += 1
            res.depth_hist[depth + 1] += 1
            if on_state:
                on_state(nxt, nh)
            if violating:
                continue        # do not expand beyond a violating state
            if max_states and res.states >= max_states:
                res.capped = True
                frontier.clear()
                break
            frontier.append(nh)
    return res
