"""E4 (plain files): crash-point enumerator for code that persists state with open()/write()/os.replace().

One instrumented run of the code under test yields ALL of its crash points.  The
names `open`, `os` (and `tempfile`, when the module has it) are rebound *inside the
modules under test* (module-level names, e.g. yowsup.common.tools and
yowsup.config.manager); nothing global is patched.  Every operation that changes the
directory tree below `root` is a boundary:

  open(path, 'w'/'a'/'x'/'r+'...)  -> point before, point after (file created / truncated, nothing written)
  f.write(data)                    -> the data reaches the file prefix by prefix; a point after every prefix
                                      k in cut_set(len(data)) (every byte for data <= 1 KiB), in BYTES, also
                                      for text-mode files (the proxy encodes exactly as the real file would)
  f.truncate / f.flush / f.close   -> point after
  os.replace / os.rename           -> ATOMIC: point before, point after, nothing in between
  os.fsync / os.fdatasync          -> point before and after (state unchanged under process-death semantics)
  os.makedirs / mkdir / remove / unlink / rmdir / link / symlink / truncate -> point before, point after
  os.open / os.write / os.close / os.fdopen, tempfile.mkstemp / NamedTemporaryFile -> routed to the same proxy

A point is a byte-for-byte snapshot of the tree below `root` - what `kill -9` at that
instant leaves on disk (python-level buffering is flushed at every boundary, so torn
prefixes over-approximate process death for writes smaller than the io buffer and are
exact for the truncation point, for the post-close point and for every rename boundary).
Trusted base: a rename within one directory is atomic; process death, not power loss.

The enumerator only records; the property module materialises each snapshot into a
scratch directory and runs the real loader on it.
"""
import io
import os
import builtins
import tempfile as _tempfile

_MISSING = object()


# --------------------------------------------------------------------------- snapshots
def snapshot(root):
    """Hashable image of the tree below root: sorted tuple of (relpath, None for a directory | bytes)."""
    out = []
    for dirpath, dirnames, filenames in os.walk(root):
        dirnames.sort()
        rel = os.path.relpath(dirpath, root)
        if rel != ".":
            out.append((rel, None))
        for fn in sorted(filenames):
            p = os.path.join(dirpath, fn)
            if os.path.islink(p) or not os.path.isfile(p):
                continue
            with builtins.open(p, "rb") as f:
                out.append((os.path.normpath(os.path.join(rel, fn)), f.read()))
    out.sort(key=lambda e: e[0])
    return tuple(out)


def materialise(state, dest):
    """Write a snapshot into the (empty or missing) directory dest."""
    os.makedirs(dest, exist_ok=True)
    for rel, data in state:
        p = os.path.join(dest, rel)
        if data is None:
            os.makedirs(p, exist_ok=True)
        else:
            os.makedirs(os.path.dirname(p), exist_ok=True)
            with builtins.open(p, "wb") as f:
                f.write(data)


def describe(state, limit=48):
    """Short JSON-able description of a snapshot (for violation details)."""
    out = {}
    for rel, data in state:
        out[rel] = "<dir>" if data is None else {"len": len(data), "head": data[:limit].decode("latin-1"),
                                                   "tail": data[-16:].decode("latin-1") if len(data) > limit else ""}
    return out


def cut_set(n, data=None):
    """Prefix lengths (1..n) after which a crash is injected while n bytes are being written."""
    if n <= 1024:
        return list(range(1, n + 1))
    cuts = set(range(1, 65)) | set(range(n - 64, n + 1)) | set(range(64, n, 61))
    if data is not None:
        # record boundaries: around every line end and every 512-byte block edge
        pos = -1
        while True:
            pos = data.find(b"\n", pos + 1)
            if pos < 0:
                break
            cuts.update(k for k in (pos - 1, pos, pos + 1, pos + 2) if 0 < k <= n)
    cuts.update(k for b in range(512, n, 512) for k in (b - 1, b, b + 1))
    return sorted(k for k in cuts if 0 < k <= n)


class CrashPoint(object):
    __slots__ = ("index", "kind", "label", "state")

    def __init__(self, index, kind, label, state):
        self.index, self.kind, self.label, self.state = index, kind, label, state

    def __repr__(self):
        return "<CrashPoint #%d %s %s>" % (self.index, self.kind, self.label)


# --------------------------------------------------------------------------- the recorder
class Recorder(object):
    def __init__(self, root, cuts=cut_set):
        self.root = os.path.realpath(root)
        self.cuts = cuts
        self.points = []
        self.ops = []            # operation log (kind, args) - one entry per intercepted call
        self.nwrites = 0

    def inside(self, path):
        try:
            p = os.path.realpath(os.fspath(path))
        except TypeError:
            return False
        if isinstance(p, bytes):
            p = os.fsdecode(p)
        return p == self.root or p.startswith(self.root + os.sep)

    def rel(self, path):
        try:
            return os.path.relpath(os.path.realpath(os.fspath(path)), self.root)
        except Exception:
            return repr(path)

    def point(self, kind, label):
        self.points.append(CrashPoint(len(self.points), kind, label, snapshot(self.root)))

    def distinct_states(self):
        return len(set(p.state for p in self.points))


# --------------------------------------------------------------------------- file proxy
class ProxyFile(object):
    """Wraps the real file object; writes go to the OS prefix by prefix."""

    def __init__(self, rec, real, mode, label):
        self.__dict__["_rec"] = rec
        self.__dict__["_real"] = real
        self.__dict__["_mode"] = mode
        self.__dict__["_label"] = label
        self.__dict__["_text"] = "b" not in mode
        self.__dict__["_writable"] = any(c in mode for c in "wax+")

    # -- plumbing
    def __getattr__(self, name):
        return getattr(self._real, name)

    def __setattr__(self, name, value):
        setattr(self._real, name, value)

    def __enter__(self):
        self._real.__enter__()
        return self

    def __exit__(self, *exc):
        self.close()
        return False

    def __iter__(self):
        return iter(self._real)

    def fileno(self):
        return self._real.fileno()

    # -- the interesting part
    def write(self, data):
        rec = self._rec
        if self._text:
            if not isinstance(data, str):
                return self._real.write(data)          # authentic TypeError of a text file
            enc = getattr(self._real, "encoding", None) or "utf-8"
            err = getattr(self._real, "errors", None) or "strict"
            # newline=None text files translate "\n" to os.linesep on output
            sdata = data if os.linesep == "\n" else data.replace("\n", os.linesep)
            raw = sdata.encode(enc, err)
            self._real.flush()
            sink = self._real.buffer
        else:
            if isinstance(data, str):
                return self._real.write(data)          # authentic TypeError of a binary file
            raw = bytes(data)
            sink = self._real
        n = len(raw)
        rec.nwrites += 1
        w = rec.nwrites
        rec.ops.append(("write", self._label, n))
        prev = 0
        for k in rec.cuts(n, raw):
            sink.write(raw[prev:k])
            sink.flush()
            prev = k
            rec.point("write", "%s write#%d prefix %d/%d" % (self._label, w, k, n))
        if prev < n:
            sink.write(raw[prev:])
            sink.flush()
            rec.point("write", "%s write#%d prefix %d/%d" % (self._label, w, n, n))
        return len(data)

    def writelines(self, lines):
        for l in lines:
            self.write(l)

    def truncate(self, *a):
        self._real.flush()
        r = self._real.truncate(*a)
        self._rec.ops.append(("truncate", self._label))
        self._rec.point("truncate", "%s truncate%r" % (self._label, a))
        return r

    def flush(self):
        r = self._real.flush()
        if self._writable:
            self._rec.point("flush", "%s flush" % self._label)
        return r

    def close(self):
        was_open = not getattr(self._real, "closed", False)
        r = self._real.close()
        if was_open and self._writable:
            self._rec.ops.append(("close", self._label))
            self._rec.point("close", "%s close" % self._label)
        return r


def _writing(mode):
    return any(c in mode for c in "wax+")


def make_open(rec):
    def vf_open(file, mode="r", *args, **kwargs):
        if isinstance(file, int) or not _writing(mode) or not rec.inside(file):
            return builtins.open(file, mode, *args, **kwargs)
        label = "%s[%s]" % (rec.rel(file), mode)
        rec.ops.append(("open", rec.rel(file), mode))
        rec.point("before-open", "before open %s" % label)
        try:
            real = builtins.open(file, mode, *args, **kwargs)
        except Exception:
            rec.point("open-failed", "open %s raised" % label)
            raise
        rec.point("open", "after open %s (created/truncated, nothing written)" % label)
        return ProxyFile(rec, real, mode, label)
    return vf_open


# --------------------------------------------------------------------------- os proxy
class OsProxy(object):
    """Stands in for the `os` module inside a module under test."""

    def __init__(self, rec):
        self.__rec = rec

    def __getattr__(self, name):
        return getattr(os, name)

    def __around(self, kind, label, fn, *a, **k):
        rec = self.__rec
        rec.ops.append((kind, label))
        rec.point("before-" + kind, "before %s %s" % (kind, label))
        try:
            r = fn(*a, **k)
        except Exception:
            rec.point(kind + "-failed", "%s %s raised" % (kind, label))
            raise
        rec.point("after-" + kind, "after %s %s" % (kind, label))
        return r

    def __two(self, kind, fn, src, dst, *a, **k):
        rec = self.__rec
        if not (rec.inside(src) or rec.inside(dst)):
            return fn(src, dst, *a, **k)
        return self.__around(kind, "%s -> %s" % (rec.rel(src), rec.rel(dst)), fn, src, dst, *a, **k)

    def __one(self, kind, fn, path, *a, **k):
        rec = self.__rec
        if isinstance(path, int) or not rec.inside(path):
            return fn(path, *a, **k)
        return self.__around(kind, rec.rel(path), fn, path, *a, **k)

    # atomic boundaries
    def replace(self, src, dst, *a, **k):
        return self.__two("replace", os.replace, src, dst, *a, **k)

    def rename(self, src, dst, *a, **k):
        return self.__two("rename", os.rename, src, dst, *a, **k)

    def renames(self, src, dst):
        return self.__two("rename", os.renames, src, dst)

    def link(self, src, dst, *a, **k):
        return self.__two("link", os.link, src, dst, *a, **k)

    def symlink(self, src, dst, *a, **k):
        return self.__two("symlink", os.symlink, src, dst, *a, **k)

    # durability requests: no effect on what process death leaves behind, recorded as boundaries
    def fsync(self, fd):
        return self.__around("fsync", "fd", os.fsync, fd)

    def fdatasync(self, fd):
        return self.__around("fsync", "fd", os.fdatasync, fd)

    # tree changes
    def makedirs(self, name, *a, **k):
        return self.__one("makedirs", os.makedirs, name, *a, **k)

    def mkdir(self, path, *a, **k):
        return self.__one("mkdir", os.mkdir, path, *a, **k)

    def remove(self, path, *a, **k):
        return self.__one("remove", os.remove, path, *a, **k)

    def unlink(self, path, *a, **k):
        return self.__one("remove", os.unlink, path, *a, **k)

    def rmdir(self, path, *a, **k):
        return self.__one("rmdir", os.rmdir, path, *a, **k)

    def truncate(self, path, length):
        return self.__one("truncate", os.truncate, path, length)

    # low-level descriptors
    def open(self, path, flags, *a, **k):
        rec = self.__rec
        if not rec.inside(path) or not (flags & (os.O_WRONLY | os.O_RDWR | os.O_CREAT | os.O_TRUNC)):
            return os.open(path, flags, *a, **k)
        return self.__around("osopen", rec.rel(path), os.open, path, flags, *a, **k)

    def write(self, fd, data):
        rec = self.__rec
        raw = bytes(data)
        n = len(raw)
        rec.nwrites += 1
        w = rec.nwrites
        rec.ops.append(("write", "fd", n))
        prev = 0
        for k in rec.cuts(n, raw):
            os.write(fd, raw[prev:k])
            prev = k
            rec.point("write", "fd write#%d prefix %d/%d" % (w, k, n))
        if prev < n:
            os.write(fd, raw[prev:])
            rec.point("write", "fd write#%d prefix %d/%d" % (w, n, n))
        return n

    def fdopen(self, fd, mode="r", *a, **k):
        real = os.fdopen(fd, mode, *a, **k)
        if not _writing(mode):
            return real
        return ProxyFile(self.__rec, real, mode, "fd[%s]" % mode)


class TempfileProxy(object):
    """Stands in for the `tempfile` module inside a module under test."""

    def __init__(self, rec):
        self.__rec = rec

    def __getattr__(self, name):
        return getattr(_tempfile, name)

    def mkstemp(self, *a, **k):
        rec = self.__rec
        rec.point("before-mkstemp", "before mkstemp")
        fd, path = _tempfile.mkstemp(*a, **k)
        rec.ops.append(("mkstemp", rec.rel(path)))
        if rec.inside(path):
            rec.point("after-mkstemp", "after mkstemp %s (empty temp file)" % rec.rel(path))
        return fd, path

    def NamedTemporaryFile(self, mode="w+b", *a, **k):
        rec = self.__rec
        rec.point("before-open", "before NamedTemporaryFile")
        real = _tempfile.NamedTemporaryFile(mode, *a, **k)
        if not rec.inside(real.name):
            return real
        label = "%s[%s]" % (rec.rel(real.name), mode)
        rec.ops.append(("open", rec.rel(real.name), mode))
        rec.point("open", "after NamedTemporaryFile %s (empty temp file)" % label)
        return ProxyFile(rec, real, mode, label)


# --------------------------------------------------------------------------- installation
class Instrument(object):
    """Context manager: rebind open / os / tempfile in `modules`, run, restore.

        rec = Recorder(root)
        with Instrument(rec, [yowsup.common.tools, yowsup.config.manager]):
            ConfigManager().save(...)
        for p in rec.points: ...
    """

    def __init__(self, rec, modules):
        self.rec = rec
        self.modules = list(modules)
        self._saved = []

    def __enter__(self):
        rec = self.rec
        vf_open = make_open(rec)
        osp = OsProxy(rec)
        tfp = TempfileProxy(rec)
        for m in self.modules:
            d = m.__dict__
            self._saved.append((m, "open", d.get("open", _MISSING)))
            m.open = vf_open
            if d.get("os") is os:
                self._saved.append((m, "os", os))
                m.os = osp
            if d.get("tempfile") is _tempfile:
                self._saved.append((m, "tempfile", _tempfile))
                m.tempfile = tfp
            # names imported with `from os import replace` style
            for name in ("replace", "rename", "fsync", "makedirs", "remove", "unlink"):
                if d.get(name) is getattr(os, name):
                    self._saved.append((m, name, d[name]))
                    setattr(m, name, getattr(osp, name))
        rec.point("start", "before the operation")
        return rec

    def __exit__(self, *exc):
        for m, name, old in reversed(self._saved):
            if old is _MISSING:
                try:
                    delattr(m, name)
                except AttributeError:
                    pass
            else:
                setattr(m, name, old)
        self._saved = []
        self.rec.point("end", "after the operation returned" if exc[0] is None else "after the operation raised")
        return False
