"""Stateless exploration of schedules in waves over a worker pool.

run function contract (module-level, importable by name):
    fn(case, prefix) -> (points, violations, obs)
        points     = [(n_enabled, chosen, cur_enabled)] of the whole execution
        violations = list of (sig, what, case, detail)
        obs        = hashable observation vector of this execution (for the vacuity count)
"""
import importlib

from . import sched as S


def _work(args):
    mod, fn, case, prefix, bound, free_bound = args
    f = getattr(importlib.import_module(mod), fn)
    from vf.runner import retry_env
    pts, viol, obs = retry_env(f, case, prefix)
    kids = S.children(prefix[0], pts, bound, free_bound)
    return kids, viol, obs, len(pts), S.preemptions(pts)


class Stats(object):
    def __init__(self):
        self.executions = 0
        self.points = 0
        self.max_points = 0
        self.by_preemptions = {}
        self.observations = set()
        self.capped = False
        self.bound_completed = None
        self.per_case = {}


def _work_subtree(args):
    """Explore the whole subtree below one schedule prefix depth-first inside the worker (bounded memory)."""
    mod, fn, case, ci, root, bound, free_bound, sub_cap = args
    f = getattr(importlib.import_module(mod), fn)
    from vf.runner import retry_env
    stack = [root]
    n = pts_total = maxpts = 0
    by_pre = {}
    obs_set = set()
    viols = []
    capped = False
    while stack:
        pf = stack.pop()
        pts, viol, obs = retry_env(f, case, pf)
        n += 1
        pts_total += len(pts)
        maxpts = max(maxpts, len(pts))
        k = S.preemptions(pts)
        by_pre[k] = by_pre.get(k, 0) + 1
        if len(obs_set) < 2000:
            obs_set.add(obs)
        if viol:
            for v in viol:
                sig, what, vcase, detail = v
                vcase = dict(vcase or case)
                vcase["schedule"] = [pf[0], {str(a): b for a, b in pf[1].items()}]
                viols.append((sig, what, vcase, detail))
            break            # the first violating schedule of this subtree is enough
        stack.extend(S.children(pf[0], pts, bound, free_bound))
        if sub_cap is not None and n >= sub_cap:
            capped = bool(stack)
            break
    return ci, n, pts_total, maxpts, by_pre, obs_set, viols, capped


def explore(ctx, mod, fn, cases, bound, cap=None, chunksize=4, stats=None, stop_case_on_violation=True,
            free_bound=None):
    """Explore every case (list of JSON-able dicts) under all schedules within the bounds.
    Level 0 (default schedules) runs first, so the simplest counterexamples come first; every first-level
    alternative is then explored as a subtree inside one worker (depth-first, bounded memory)."""
    st = stats or Stats()
    dead = set()
    roots = [(mod, fn, cases[ci], (0, {}), bound, free_bound) for ci in range(len(cases))]
    level1 = []
    for ci, (kids, viol, obs, npts, npre) in enumerate(ctx.pimap(_work, roots, chunksize)):
        st.executions += 1
        st.per_case[ci] = st.per_case.get(ci, 0) + 1
        st.points += npts
        st.max_points = max(st.max_points, npts)
        st.by_preemptions[npre] = st.by_preemptions.get(npre, 0) + 1
        st.observations.add((ci, obs))
        if viol:
            for v in viol:
                sig, what, case, detail = v
                case = dict(case or cases[ci])
                case["schedule"] = [0, {}]
                ctx.violation(sig, what, case, detail)
            dead.add(ci)
            continue
        level1.extend((ci, k) for k in kids)
    if not level1:
        st.bound_completed = bound
        return st
    sub_cap = None
    if cap is not None:
        sub_cap = max(2000, (cap * 4) // max(1, len(level1)))
    # largest subtrees first (alternatives early in an execution have the most points after them)
    level1.sort(key=lambda x: x[1][0])
    tasks = [(mod, fn, cases[ci], ci, pf, bound, free_bound, sub_cap) for ci, pf in level1]
    last_note = 0
    for ci, n, pts_total, maxpts, by_pre, obs_set, viols, capped in ctx.pimap_unordered(_work_subtree, tasks, 1):
        st.executions += n
        st.per_case[ci] = st.per_case.get(ci, 0) + n
        st.points += pts_total
        st.max_points = max(st.max_points, maxpts)
        for k, c in by_pre.items():
            st.by_preemptions[k] = st.by_preemptions.get(k, 0) + c
        if len(st.observations) < 200000:
            st.observations.update((ci, o) for o in obs_set)
        for sig, what, vcase, detail in viols:
            ctx.violation(sig, what, vcase, detail)
        if capped:
            st.capped = True
        if st.executions - last_note >= 50000:
            last_note = st.executions
            ctx.note("... %d executions so far, %.0fs" % (st.executions, ctx.elapsed()))
        if cap is not None and st.executions >= cap:
            st.capped = True
            break
    if not st.capped:
        st.bound_completed = bound
    return st


def schedule_from_case(case):
    sch = case.get("schedule")
    if not sch:
        return (0, {})
    return (int(sch[0]), {int(k): int(v) for k, v in sch[1].items()})
