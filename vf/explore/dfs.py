"""Stateless exploration of schedules in waves over a worker pool.

run function contract (module-level, importable by name):
    fn(case, prefix) -> (points, violations, obs)
        points     = [(n_enabled, chosen, cur_enabled)] of the whole execution
        violations = list of (sig, what, case, detail)
        obs        = hashable observation vector of this execution (for the vacuity count)
"""
import importlib

from . import sched as S


def _work(args):
    mod, fn, case, prefix, bound, free_bound = args
    f = getattr(importlib.import_module(mod), fn)
    from vf.runner import retry_env
    pts, viol, obs = retry_env(f, case, prefix)
    kids = S.children(prefix[0], pts, bound, free_bound)
    return kids, viol, obs, len(pts), S.preemptions(pts)


class Stats(object):
    def __init__(self):
        self.executions = 0
        self.points = 0
        self.max_points = 0
        self.by_preemptions = {}
        self.observations = set()
        self.capped = False
        self.bound_completed = None
        self.per_case = {}


def explore(ctx, mod, fn, cases, bound, cap=None, chunksize=4, stats=None, stop_case_on_violation=True,
            free_bound=None):
    """Explore every case (list of JSON-able dicts) under all schedules with <= bound preemptions."""
    st = stats or Stats()
    frontier = [(ci, (0, {})) for ci in range(len(cases))]
    dead = set()
    while frontier:
        if cap is not None and st.executions + len(frontier) > cap:
            frontier = frontier[:max(0, cap - st.executions)]
            st.capped = True
            if not frontier:
                break
        jobs = [(mod, fn, cases[ci], pf, bound, free_bound) for ci, pf in frontier]
        nxt = []
        for (ci, pf), (kids, viol, obs, npts, npre) in zip(frontier, ctx.pimap(_work, jobs, chunksize)):
            st.executions += 1
            st.per_case[ci] = st.per_case.get(ci, 0) + 1
            st.points += npts
            st.max_points = max(st.max_points, npts)
            st.by_preemptions[npre] = st.by_preemptions.get(npre, 0) + 1
            st.observations.add((ci, obs))
            if viol:
                for v in viol:
                    sig, what, case, detail = v
                    case = dict(case or cases[ci])
                    case["schedule"] = [pf[0], {str(k): v2 for k, v2 in pf[1].items()}]
                    ctx.violation(sig, what, case, detail)
                if stop_case_on_violation:
                    dead.add(ci)
                continue
            if ci in dead:
                continue
            nxt.extend((ci, k) for k in kids)
        frontier = [(ci, k) for ci, k in nxt if ci not in dead]
        if st.executions - getattr(st, "_last_note", 0) >= 20000:
            st._last_note = st.executions
            ctx.note("... %d executions so far, next wave %d, %.0fs" % (st.executions, len(frontier), ctx.elapsed()))
        if st.capped:
            break
    if not st.capped:
        st.bound_completed = bound
    return st


def schedule_from_case(case):
    sch = case.get("schedule")
    if not sch:
        return (0, {})
    return (int(sch[0]), {int(k): int(v) for k, v in sch[1].items()})
