"""Stateless exploration of schedules in waves over a worker pool.

run function contract (module-level, importable by name):
    fn(case, prefix) -> (points, violations, obs)
        points     = [(n_enabled, chosen, cur_enabled)] of the whole execution
        violations = list of (sig, what, case, detail)
        obs        = hashable observation vector of this execution (for the vacuity count)
"""
import importlib

from . import sched as S


def _work(args):
    mod, fn, case, prefix, bound, free_bound = args
    f = getattr(importlib.import_module(mod), fn)
    from vf.runner import retry_env
    pts, viol, obs = retry_env(f, case, prefix)
    kids = S.children(prefix[0], pts, bound, free_bound)
    return kids, viol, obs, len(pts), S.preemptions(pts)


class Stats(object):
    def __init__(self):
        self.executions = 0
        self.points = 0
        self.max_points = 0
        self.by_preemptions = {}
        self.observations = set()
        self.capped = False
        self.bound_completed = None
        self.per_case = {}


def _work_subtree(args):
    """Explore the subtrees below some schedule prefixes depth-first inside the worker (bounded memory).  After
    `budget` executions the unexplored rest of the stack is handed back to the parent, which redistributes it:
    no subtree is ever dropped, large ones are just spread over the pool."""
    mod, fn, case, ci, roots, bound, free_bound, budget = args
    f = getattr(importlib.import_module(mod), fn)
    from vf.runner import retry_env
    stack = list(roots)
    n = pts_total = maxpts = 0
    by_pre = {}
    obs_set = set()
    viols = []
    spill = []
    while stack:
        pf = stack.pop()
        pts, viol, obs = retry_env(f, case, pf)
        n += 1
        pts_total += len(pts)
        maxpts = max(maxpts, len(pts))
        k = S.preemptions(pts)
        by_pre[k] = by_pre.get(k, 0) + 1
        if len(obs_set) < 2000:
            obs_set.add(obs)
        if viol:
            for v in viol:
                sig, what, vcase, detail = v
                vcase = dict(vcase or case)
                vcase["schedule"] = [pf[0], {str(a): b for a, b in pf[1].items()}]
                viols.append((sig, what, vcase, detail))
            break            # the first violating schedule of this task is enough
        stack.extend(S.children(pf[0], pts, bound, free_bound))
        if budget is not None and n >= budget and stack:
            spill = stack
            break
    return ci, n, pts_total, maxpts, by_pre, obs_set, viols, spill


def explore(ctx, mod, fn, cases, bound, cap=None, chunksize=4, stats=None, stop_case_on_violation=True,
            free_bound=None, budget=400):
    """Explore every case (list of JSON-able dicts) under all schedules within the bounds.
    Level 0 (default schedules) runs first, so the simplest counterexamples come first; every first-level
    alternative is then explored as a subtree inside one worker (depth-first, bounded memory); a worker that has
    run `budget` executions returns the rest of its stack, which is redistributed in the next round."""
    st = stats or Stats()
    dead = set()
    roots = [(mod, fn, cases[ci], (0, {}), bound, free_bound) for ci in range(len(cases))]
    level1 = []
    for ci, (kids, viol, obs, npts, npre) in enumerate(ctx.pimap(_work, roots, chunksize)):
        st.executions += 1
        st.per_case[ci] = st.per_case.get(ci, 0) + 1
        st.points += npts
        st.max_points = max(st.max_points, npts)
        st.by_preemptions[npre] = st.by_preemptions.get(npre, 0) + 1
        st.observations.add((ci, obs))
        if viol:
            for v in viol:
                sig, what, case, detail = v
                case = dict(case or cases[ci])
                case["schedule"] = [0, {}]
                ctx.violation(sig, what, case, detail)
            dead.add(ci)
            continue
        level1.extend((ci, k) for k in kids)
    if not level1:
        st.bound_completed = bound
        return st
    # largest subtrees first (alternatives early in an execution have the most points after them)
    level1.sort(key=lambda x: x[1][0])
    tasks = [(mod, fn, cases[ci], ci, [pf], bound, free_bound, budget) for ci, pf in level1]
    last_note = 0
    st.rounds = 0
    while tasks and not st.capped:
        st.rounds += 1
        spilled = {}
        for ci, n, pts_total, maxpts, by_pre, obs_set, viols, spill in ctx.pimap_unordered(_work_subtree, tasks, 1):
            st.executions += n
            st.per_case[ci] = st.per_case.get(ci, 0) + n
            st.points += pts_total
            st.max_points = max(st.max_points, maxpts)
            for k, c in by_pre.items():
                st.by_preemptions[k] = st.by_preemptions.get(k, 0) + c
            if len(st.observations) < 200000:
                st.observations.update((ci, o) for o in obs_set)
            for sig, what, vcase, detail in viols:
                ctx.violation(sig, what, vcase, detail)
            if viols and stop_case_on_violation:
                dead.add(ci)
            if spill:
                spilled.setdefault(ci, []).extend(spill)
            if st.executions - last_note >= 50000:
                last_note = st.executions
                ctx.note("... %d executions so far, %.0fs" % (st.executions, ctx.elapsed()))
            if cap is not None and st.executions >= cap:
                st.capped = True
                ctx.close()          # drop the queued tasks: a later exploration gets a fresh pool
                break
        tasks = []
        for ci, pfs in spilled.items():
            if ci in dead:
                continue
            # shallow prefixes (large subtrees) alone, the rest packed
            pfs.sort(key=lambda p: (len(p[1]), p[0]))
            pack = 16
            for i in range(0, len(pfs), pack):
                tasks.append((mod, fn, cases[ci], ci, pfs[i:i + pack], bound, free_bound, budget))
    if not st.capped:
        st.bound_completed = bound
    return st


def explore_phases(ctx, mod, fn, phases, chunksize=8):
    """phases = [dict(name, cases, bound, free_bound, cap=None)] explored in order (cheapest first); a phase is
    skipped once a violation was found.  Returns (merged Stats, [per-phase summary])."""
    total = Stats()
    out = []
    import os
    only, sel = os.environ.get("VF_ONLY"), os.environ.get("VF_PHASES")
    if only or sel:
        # debugging aid: restrict the cases (python expression over c) / the phases; recorded in the evidence
        phases = [dict(ph, cases=[c for c in ph["cases"] if not only or eval(only, {"c": c})])
                  for ph in phases if not sel or ph["name"] in sel.split(",")]
        ctx.note("RESTRICTED RUN (debug): VF_ONLY=%r VF_PHASES=%r" % (only, sel))
        out.append({"restricted_debug_run": {"VF_ONLY": only, "VF_PHASES": sel}})
    before = set(ctx.violations)        # what other parts of the check have reported so far does not count
    for ph in phases:
        if set(ctx.violations) - before:
            out.append({"phase": ph["name"], "skipped": "violation found in an earlier phase"})
            continue
        if not ph["cases"]:
            continue
        t0 = ctx.elapsed()
        st = explore(ctx, mod, fn, ph["cases"], ph["bound"], cap=ph.get("cap"), chunksize=chunksize,
                     free_bound=ph.get("free_bound"))
        summ = {"phase": ph["name"], "cases": len(ph["cases"]), "preemption_bound": ph["bound"],
                "free_deviation_bound": ph.get("free_bound"), "executions": st.executions,
                "by_preemptions": {str(k): n for k, n in sorted(st.by_preemptions.items())},
                "completed_within_bounds": not st.capped, "cap": ph.get("cap"), "wall_s": round(ctx.elapsed() - t0, 1)}
        out.append(summ)
        ctx.note("phase %(phase)s: cases=%(cases)d bound=%(preemption_bound)s free=%(free_deviation_bound)s "
                 "executions=%(executions)d complete=%(completed_within_bounds)s %(wall_s)ss" % summ)
        total.executions += st.executions
        total.points += st.points
        total.max_points = max(total.max_points, st.max_points)
        for k, n in st.by_preemptions.items():
            total.by_preemptions[k] = total.by_preemptions.get(k, 0) + n
        if len(total.observations) < 400000:
            total.observations.update((ph["name"], o) for o in st.observations)
        total.capped = total.capped or st.capped
        for k, n in st.per_case.items():
            key = "%s:%s" % (ph["name"], ph["cases"][k])
            total.per_case[key] = n
    return total, out


def schedule_from_case(case):
    sch = case.get("schedule")
    if not sch:
        return (0, {})
    return (int(sch[0]), {int(k): int(v) for k, v in sch[1].items()})
