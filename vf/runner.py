"""Tier/seed handling, worker pool, evidence writer, VIOLATION / KNOWN-FINDING lines."""
import os
import sys
import json
import time
import fnmatch
import hashlib
import importlib
import traceback
import multiprocessing

from . import env

ROOT = env.VERIF_ROOT
EVIDENCE_DIR = os.environ.get("VERIF_EVIDENCE_DIR") or os.path.join(ROOT, "evidence")
REPLAY_DIR = os.environ.get("VERIF_REPLAY_DIR") or os.path.join(ROOT, "replays")
KNOWN = os.path.join(ROOT, "known_findings.json")

MODULES = {
    "C01": "c01_codec_roundtrip", "C02": "c02_wire_conformance", "C03": "c03_e2e_messaging",
    "C04": "c04_noise_transport", "C05": "c05_segments", "C06": "c06_routing",
    "C07": "c07_acks", "C08": "c08_iq_correlation", "C09": "c09_entities",
    "C10": "c10_payloads", "C11": "c11_concurrent_senders", "C12": "c12_failures",
    "C13": "c13_keystore", "C14": "c14_prekeys", "C15": "c15_mediacipher",
    "C16": "c16_lifecycle", "C17": "c17_identity_pinning", "C18": "c18_stack_assembly",
    "C19": "c19_config", "C20": "c20_registration",
}


def jsonable(o, depth=0):
    if depth > 12:
        return repr(o)[:200]
    if isinstance(o, (str, int, float, bool)) or o is None:
        return o
    if isinstance(o, (bytes, bytearray)):
        b = bytes(o)
        if len(b) > 64:
            return {"bytes_len": len(b), "head_hex": b[:24].hex(), "sha1": hashlib.sha1(b).hexdigest()}
        return {"hex": b.hex()}
    if isinstance(o, dict):
        return {str(k): jsonable(v, depth + 1) for k, v in o.items()}
    if isinstance(o, (list, tuple, set, frozenset)):
        seq = list(o)
        if isinstance(o, (set, frozenset)):
            seq = sorted(seq, key=repr)
        return [jsonable(v, depth + 1) for v in seq]
    return repr(o)[:300]


class Violation(object):
    def __init__(self, sig, what, case=None, detail=None):
        self.sig = sig          # stable signature: identifies the failing input / site / history class
        self.what = what        # one line, human readable
        self.case = case        # JSON-able description sufficient for module.replay()
        self.detail = detail    # observed vs expected etc.

    def as_dict(self):
        return {"sig": self.sig, "what": self.what, "case": jsonable(self.case), "detail": jsonable(self.detail)}


class Ctx(object):
    def __init__(self, prop, tier, seed, jobs):
        self.prop = prop
        self.tier = tier
        self.seed = seed
        self.jobs = jobs
        self.quick = tier == "quick"
        self.violations = {}      # sig -> Violation (first = simplest, alphabets are ordered simplest-first)
        self.violation_count = 0
        self.coverage = {}
        self.assumptions = []
        self.samples = []
        self.notes = []
        self.t0 = time.time()
        self._pool = None

    # ---- reporting -------------------------------------------------
    def violation(self, sig, what, case=None, detail=None):
        self.violation_count += 1
        if sig not in self.violations:
            self.violations[sig] = Violation(sig, what, case, detail)

    def add_violations(self, vs):
        for v in vs or ():
            if isinstance(v, Violation):
                self.violation(v.sig, v.what, v.case, v.detail)
            else:
                self.violation(*v)

    def sample(self, obj, limit=6):
        if len(self.samples) < limit:
            self.samples.append(jsonable(obj))

    def assume(self, text):
        if text not in self.assumptions:
            self.assumptions.append(text)

    def note(self, text):
        self.notes.append(text)
        print("  " + text)
        sys.stdout.flush()

    def elapsed(self):
        return time.time() - self.t0

    # ---- parallel map ---------------------------------------------
    def pool(self):
        if self._pool is None and self.jobs > 1:
            self._pool = multiprocessing.get_context("fork").Pool(self.jobs)
        return self._pool

    def pmap(self, fn, items, chunksize=1):
        """Ordered map over a worker pool forked from this process (fn and items must be picklable)."""
        items = list(items)
        if self.jobs <= 1 or len(items) <= 1:
            return [fn(i) for i in items]
        return self.pool().map(fn, items, chunksize)

    def pimap(self, fn, items, chunksize=1):
        items = list(items)
        if self.jobs <= 1 or len(items) <= 1:
            for i in items:
                yield fn(i)
            return
        for r in self.pool().imap(fn, items, chunksize):
            yield r

    def pimap_unordered(self, fn, items, chunksize=1):
        items = list(items)
        if self.jobs <= 1 or len(items) <= 1:
            for i in items:
                yield fn(i)
            return
        for r in self.pool().imap_unordered(fn, items, chunksize):
            yield r

    def close(self):
        if self._pool is not None:
            self._pool.terminate()
            self._pool.join()
            self._pool = None


def retry_env(fn, *args):
    """Run fn; if the harness itself timed out (a parked thread did not come back in time on an overloaded machine)
    run it once more.  Executions are deterministic, so a genuine hang fails again and is raised."""
    try:
        return fn(*args)
    except Exception as e:
        name = type(e).__name__
        if name == "HarnessStuck" or "did not park" in str(e) or "do not come to rest" in str(e):
            import sys
            sys.stderr.write("harness timeout, retrying once: %s\n" % str(e)[:300])
            return fn(*args)
        raise


def load_known():
    if not os.path.isfile(KNOWN):
        return []
    with open(KNOWN) as f:
        return json.load(f).get("findings", [])


def match_known(prop, sig, known):
    for k in known:
        if k.get("property") != prop or k.get("status") != "known":
            continue
        if fnmatch.fnmatchcase(sig, k.get("signature", "")):
            return k
    return None


def shuffled(seq, seed, salt=""):
    """Seed only permutes the order in which a fixed finite space is visited."""
    import random
    seq = list(seq)
    if seed:
        random.Random("%s/%s" % (seed, salt)).shuffle(seq)
    return seq


def write_evidence(ctx, level, module, new_violations, known_hits):
    cov = dict(ctx.coverage)
    cov.setdefault("samples", ctx.samples[:])
    if not cov["samples"]:
        cov["samples"] = ["(no sample recorded)"]
    cov.setdefault("exhaustive", False)
    if ctx.notes:
        cov["notes"] = ctx.notes
    cov["known_findings_reported"] = sorted(known_hits)
    ev = {
        "property_id": ctx.prop,
        "tier": ctx.tier,
        "seed": int(ctx.seed),
        "level": level,
        "coverage": jsonable(cov),
        "assumptions": ctx.assumptions,
        "wall_s": round(ctx.elapsed(), 3),
        "violations": len(new_violations),
    }
    os.makedirs(EVIDENCE_DIR, exist_ok=True)
    path = os.path.join(EVIDENCE_DIR, "%s.json" % ctx.prop)
    tmp = path + ".tmp"
    with open(tmp, "w") as f:
        json.dump(ev, f, indent=1, sort_keys=True)
        f.write("\n")
    os.replace(tmp, path)
    if ctx.tier == "thorough" and "VERIF_EVIDENCE_DIR" not in os.environ:
        # evidence/<id>.json is rewritten by every run; the last thorough run's record is kept beside it for reference
        tdir = os.path.join(os.path.dirname(EVIDENCE_DIR.rstrip("/")), "evidence-thorough")
        try:
            os.makedirs(tdir, exist_ok=True)
            with open(os.path.join(tdir, "%s.json" % ctx.prop), "w") as f:
                json.dump(ev, f, indent=1, sort_keys=True)
                f.write("\n")
        except OSError:
            pass
    # validate against the schema when jsonschema is importable (tooling venv); structural self-check otherwise
    try:
        import jsonschema  # noqa
        with open("/root/.vp/EVIDENCE.schema.json") as f:
            schema = json.load(f)
        jsonschema.validate(ev, schema)
    except ImportError:
        c = ev["coverage"]
        if level in ("exploration", "fault_enumeration"):
            assert c.get("evaluations", 0) >= 1 and c.get("distinct_nontrivial", 0) >= 2 and c.get("rule") and c["samples"], c
        elif level == "model_checking":
            assert c.get("states", 0) >= 1 and c.get("transitions", 0) >= 1 and "traces_validated_against_impl" in c and c["samples"], c
    except FileNotFoundError:
        pass
    return path


def main(argv=None):
    import argparse
    ap = argparse.ArgumentParser(prog="check")
    ap.add_argument("prop")
    ap.add_argument("--tier", default="quick", choices=["quick", "thorough"])
    ap.add_argument("--replay", default=None)
    ap.add_argument("--jobs", type=int, default=0)
    args = ap.parse_args(argv)

    prop = args.prop.upper()
    tier = os.environ.get("VERIF_TIER") or args.tier
    if tier not in ("quick", "thorough"):
        tier = args.tier
    try:
        seed = int(os.environ.get("VERIF_SEED", "0"))
    except ValueError:
        seed = 0
    jobs = args.jobs or int(os.environ.get("VERIF_JOBS", "0")) or min(16, os.cpu_count() or 1)

    if prop not in MODULES:
        print("unknown property %s" % prop)
        return 2
    env.bootstrap()
    import shutil, atexit
    run_scratch = env.new_run_scratch()
    atexit.register(lambda: shutil.rmtree(run_scratch, ignore_errors=True))
    module = importlib.import_module("vf.props." + MODULES[prop])
    ctx = Ctx(prop, tier, seed, jobs)
    known = load_known()

    if args.replay:
        with open(args.replay) as f:
            rep = json.load(f)
        print("replaying %s: %s" % (args.replay, rep.get("what")))
        vs = module.replay(ctx, rep["case"]) or []
        ctx.add_violations(vs)
        ctx.close()
        if ctx.violations:
            for v in ctx.violations.values():
                print("REPRODUCED sig=%s: %s" % (v.sig, v.what))
                if v.detail is not None:
                    print("  detail: %s" % json.dumps(jsonable(v.detail))[:2000])
            return 1
        print("not reproduced (case passes)")
        return 0

    print("== %s tier=%s seed=%d jobs=%d repo=%s" % (prop, tier, seed, jobs, env.REPO))
    sys.stdout.flush()
    crashed = None
    try:
        module.run(ctx)
    except Exception:
        crashed = traceback.format_exc()
    finally:
        ctx.close()
        shutil.rmtree(run_scratch, ignore_errors=True)
    if crashed:
        # an exception in the harness itself is not a verdict about the property: fail loudly, distinctly
        print(crashed)
        print("HARNESS-ERROR property=%s (no verdict)" % prop)
        return 3

    new, known_hits = [], []
    for sig, v in ctx.violations.items():
        k = match_known(prop, sig, known)
        if k is not None:
            known_hits.append(sig)
            print("KNOWN-FINDING: property=%s %s [%s]" % (prop, k.get("what", v.what), sig))
        else:
            new.append(v)
    level = getattr(module, "LEVEL")
    path = write_evidence(ctx, level, module, new, known_hits)
    cov = ctx.coverage
    brief = {k: cov[k] for k in ("evaluations", "distinct_nontrivial", "states", "transitions",
                                  "traces_validated_against_impl", "exhaustive") if k in cov}
    print("coverage: %s" % json.dumps(brief))
    print("evidence: %s  wall=%.1fs" % (path, ctx.elapsed()))
    if new:
        os.makedirs(REPLAY_DIR, exist_ok=True)
        for n, v in enumerate(new):
            h = hashlib.sha1(v.sig.encode()).hexdigest()[:10]
            rp = os.path.join(REPLAY_DIR, "%s-%s.json" % (prop, h))
            with open(rp, "w") as f:
                json.dump(dict(v.as_dict(), property=prop, tier=tier, seed=seed), f, indent=1)
            print("  %s" % v.what)
            print("VIOLATION property=%s replay=%s" % (prop, rp))
        print("%d distinct violation signature(s), %d violating case(s)" % (len(new), ctx.violation_count))
        return 1
    print("OK property=%s" % prop)
    return 0
