"""Harness: several accounts, each a REAL yowsup stack
    [YowNetworkLayer(stanza-level dispatcher double), AxolotlControlLayer,
     Parallel(AxolotlSendLayer, AxolotlReceivelayer), Parallel(protocol layers), AppProbe]
on real LiteAxolotlStore files, connected to the stanza-level server double.  Shared by C03, C14, C17.

Single threaded: the explorer decides which queued stanza the server processes / delivers next.
"""
import os
import shutil
import pickle
import random as _random
import tempfile
import queue as _queue

from vf import env
env.bootstrap()

import yowsup.common.tools as T
import yowsup.axolotl.manager as M
import yowsup.layers.network.layer as NetL
import yowsup.layers.axolotl.layer_receive as _LR
_LR.print = lambda *a, **k: None      # the receive layer dumps undecodable payloads to stdout
from yowsup.layers import YowLayer, YowLayerEvent, YowParallelLayer
from yowsup.layers.network.dispatcher.dispatcher import YowConnectionDispatcher
from yowsup.layers.network.layer import YowNetworkLayer
from yowsup.layers.auth.layer_authentication import YowAuthenticationProtocolLayer
from yowsup.layers.axolotl import AxolotlSendLayer, AxolotlControlLayer, AxolotlReceivelayer
from yowsup.layers.axolotl.props import PROP_IDENTITY_AUTOTRUST
from yowsup.layers.protocol_iq.layer import YowIqProtocolLayer
from yowsup.stacks.yowstack import YowStack, YowStackBuilder
from yowsup.profile.profile import YowProfile
from yowsup.config.v1.config import Config
from yowsup.structs.protocoltreenode import ProtocolTreeNode

from vf.doubles.server import Server, jid_of, clone

_scratch_root = None


class PadRandom(object):
    """`random` as seen by yowsup.axolotl.manager (message padding length is environment nondeterminism owned
    by the harness).  mode 'aligned': answer so that message + padding is a multiple of the cipher block (the
    hard case: python-axolotl leaves block-aligned plaintext unpadded); mode 'cycle': 1, 2, 3, ..."""

    def __init__(self, mode="aligned", seed=0):
        self.mode = mode
        self.n = seed
        self.calls = 0
        self.aligned_answers = 0

    def randint(self, a, b):
        import sys
        self.calls += 1
        if self.mode == "aligned":
            f = sys._getframe(1)
            for _ in range(4):
                if f is None:
                    break
                loc = f.f_locals
                ln = None
                for name in ("message", "data", "plaintext"):
                    if isinstance(loc.get(name), (bytes, bytearray)):
                        ln = len(loc[name])
                        break
                if ln is None:
                    for name in ("length", "message_len", "message_length", "size"):
                        if isinstance(loc.get(name), int):
                            ln = loc[name]
                            break
                if ln is not None:
                    v = 16 - (ln % 16)
                    self.aligned_answers += 1
                    return max(a, min(b, v))
                f = f.f_back
        self.n += 1
        return a + (self.n - 1) % (b - a + 1)

    def __getattr__(self, name):
        return getattr(_random, name)


def scratch_root():
    global _scratch_root
    if _scratch_root is None:
        _scratch_root = tempfile.mkdtemp(prefix="vfworld-", dir=env.scratch_root())
        import atexit
        atexit.register(lambda: shutil.rmtree(_scratch_root, ignore_errors=True))
    return _scratch_root


class Abort(BaseException):
    """Unwinds an account's main thread at the end of an execution."""


class StanzaDispatcher(YowConnectionDispatcher):
    """Dispatcher double carrying stanza trees instead of bytes.  Callback discipline of the real dispatchers:
    connect() does not return while the connection is up (asyncore.loop / the socket read loop run inside it, and
    every received stanza is handed to the stack from there); disconnect() calls onDisconnected synchronously."""
    by_net = {}        # id(network layer instance) -> Account

    def __init__(self, callbacks):
        YowConnectionDispatcher.__init__(self, callbacks)
        self.account = StanzaDispatcher.by_net[id(callbacks)]
        self._connected = False

    def connect(self, host):
        acc = self.account
        self.connectionCallbacks.onConnecting()
        acc.dispatcher = self
        acc.connects += 1
        self._connected = True
        self.connectionCallbacks.onConnected()
        # the passive flag travels in the login payload: what the stack presents after its connected handlers ran
        passive = acc.stack.getProp(YowAuthenticationProtocolLayer.PROP_PASSIVE, False)
        acc.logins.append(bool(passive))
        acc.world.server.on_connect(acc.jid, passive)
        if acc.thread is None or not acc.thread.is_current():
            # connect requested from outside the account's main thread (should not happen in this harness)
            acc.handler_errors.append(("HarnessError", "connect() called outside the account's main thread", "connect", ""))
            return
        while self._connected:
            acc.thread.block("up")
            while acc.mailbox and self._connected:
                node = acc.mailbox.pop(0)
                try:
                    self.connectionCallbacks.onRecvData(node)
                except Abort:
                    raise
                except Exception as e:
                    import traceback
                    acc.handler_errors.append((type(e).__name__, str(e)[:200], node.tag, traceback.format_exc()[-900:]))

    def sendData(self, data):
        if self._connected:
            self.account.world.server.from_client(self.account.jid, data)
        else:
            self.account.dropped.append(data)

    def disconnect(self):
        self.close_from_peer()

    def close_from_peer(self):
        if self._connected:
            self._connected = False
            self.account.world.server.on_disconnect(self.account.jid)
            self.connectionCallbacks.onDisconnected()


class AccountThread(object):
    """The main thread of one client process: `connect; loop()` as the demos do.  Strict hand-off with the driver
    (exactly one of them runs at any time), i.e. a coroutine implemented with a real thread because the library's
    connect() blocks."""

    def __init__(self, account):
        import threading
        self.account = account
        self.go = threading.Semaphore(0)
        self.idle = threading.Semaphore(0)
        self.state = "new"
        self.stop = False
        self.want_connect = False
        self.thread = threading.Thread(target=self._main, name="acc-" + account.phone)
        self.thread.daemon = True
        self.ident = None
        self.thread.start()
        self.idle.acquire()          # wait until it is parked in "boot"

    def is_current(self):
        import threading
        return threading.get_ident() == self.ident

    def block(self, state):
        """Called by the account thread: park until the driver resumes us."""
        self.state = state
        self.idle.release()
        self.go.acquire()
        self.state = "running"
        if self.stop:
            raise Abort()

    def resume(self):
        """Called by the driver: let the account thread run until it parks again."""
        if self.state == "dead":
            return
        self.go.release()
        if not self.idle.acquire(timeout=float(os.environ.get("VF_TIMEOUT", "600"))):
            import sys, traceback
            fr = sys._current_frames().get(self.ident)
            where = "".join(traceback.format_stack(fr)[-14:]) if fr is not None else "(no frame)"
            raise RuntimeError("account thread %s did not park (state %s); it is at:\n%s" % (self.account.phone, self.state, where))

    def _main(self):
        import threading
        self.ident = threading.get_ident()
        acc = self.account
        try:
            self.block("boot")
            while True:
                if self.want_connect:
                    self.want_connect = False
                    acc.stack.broadcastEvent(YowLayerEvent(YowNetworkLayer.EVENT_STATE_CONNECT))
                # stack.loop(): run deferred callbacks (they may reconnect, which blocks in here again)
                while True:
                    try:
                        cb = acc.queue.get(False)
                    except _queue.Empty:
                        break
                    try:
                        cb()
                    except Abort:
                        raise
                    except Exception as e:
                        import traceback
                        acc.handler_errors.append((type(e).__name__, str(e)[:200], "detached-event", traceback.format_exc()[-900:]))
                self.block("down")
        except Abort:
            pass
        finally:
            self.state = "dead"
            self.idle.release()

    def kill(self):
        if self.state != "dead":
            self.stop = True
            self.go.release()
            self.idle.acquire(timeout=60)
            self.thread.join(5)


class AppProbe(YowLayer):
    """A well-behaved application: records every entity, acknowledges messages and receipts."""

    def __init__(self):
        YowLayer.__init__(self)
        self.received = []
        self.events = []
        self.auto_ack = True
        self.errors = []

    def receive(self, entity):
        self.received.append(entity)
        if not self.auto_ack:
            return
        tag = entity.getTag() if hasattr(entity, "getTag") else None
        if tag == "message":
            self.toLower(entity.ack())
        elif tag == "receipt":
            self.toLower(entity.ack())

    def send(self, entity):
        self.toLower(entity)

    def onEvent(self, ev):
        self.events.append(ev.getName())
        return False


class Account(object):
    def __init__(self, world, phone, autotrust=False):
        self.world = world
        self.phone = phone
        self.jid = jid_of(phone)
        self.autotrust = autotrust
        self.stack = None
        self.app = None
        self.dispatcher = None
        self.connects = 0
        self.logins = []
        self.dropped = []
        self.handler_errors = []
        self.generation = 0       # bumped by reinstall
        self.archive = []         # entities received by earlier processes of this account (before restarts)
        self.thread = None
        self.mailbox = []
        self.queue = None
        self.build()

    def build(self):
        """(Re)start the process: a fresh stack on the same profile directory."""
        if self.app is not None:
            self.archive.extend(self.app.received)
        NetL.AsyncoreConnectionDispatcher = StanzaDispatcher
        NetL.SocketConnectionDispatcher = StanzaDispatcher
        cfg = Config(phone=self.phone, cc=self.phone[:2], pushname="n-" + self.phone)
        self.profile = YowProfile(self.phone, cfg)
        props = {"profile": self.profile, YowIqProtocolLayer.PROP_PING_INTERVAL: 0}
        if self.autotrust is not None:          # None = the application never touched the option (library default)
            props[PROP_IDENTITY_AUTOTRUST] = self.autotrust
        layers = (YowNetworkLayer, AxolotlControlLayer, YowParallelLayer((AxolotlSendLayer, AxolotlReceivelayer)),
                  YowParallelLayer(YowStackBuilder.getProtocolLayers()), AppProbe)
        if self.thread is not None:
            self.thread.kill()
        self.mailbox = []
        self.queue = _queue.Queue()
        # every client is its own process: its stack gets its own deferred-event queue (a class attribute in yowsup)
        stack_cls = type("AccountStack", (YowStack,), {"_YowStack__detachedQueue": self.queue})
        self.stack = stack_cls(layers, reversed=False, props=props)
        self.stack.setProp(YowNetworkLayer.PROP_ENDPOINT, ("e1.whatsapp.net", 443))
        self.net = self.stack.getLayer(0)
        StanzaDispatcher.by_net[id(self.net)] = self
        self.control = self.stack.getLayer(1)
        self.enc = self.stack.getLayer(2)
        self.send_layer, self.recv_layer = self.enc.sublayers
        self.app = self.stack.getLayer(4)
        self.dispatcher = None
        self.thread = AccountThread(self)

    # -- endpoint used by the server double
    def receive(self, node):
        """Deliver one stanza: the account's main thread hands it to the stack from inside connect()."""
        self.mailbox.append(node)
        self.thread.resume()

    def kick(self):
        """Let the main thread run if it has something to do (connection just closed, deferred events queued)."""
        t = self.thread
        if t.state == "up" and (self.dispatcher is None or not self.dispatcher._connected or self.mailbox):
            t.resume()
            return True
        if t.state in ("down", "boot") and (t.want_connect or not self.queue.empty()):
            t.resume()
            return True
        return False

    def all_received(self):
        return self.archive + self.app.received

    def connect(self):
        """Application asks for a connection: performed by the account's main thread."""
        self.thread.want_connect = True
        self.kick()

    def up(self):
        return self.dispatcher is not None and self.dispatcher._connected

    def manager(self):
        return self.profile.axolotl_manager

    def store(self):
        return self.profile.axolotl_manager._store


class World(object):
    """accounts + server + the step loop."""

    def __init__(self, phones, autotrust=False, prekeys=12, threshold=None, seed=0, root=None, pad="aligned"):
        env.fix_clock()
        env.reset_ids()
        self.root = root or tempfile.mkdtemp(prefix="w-", dir=scratch_root())
        T.user_config_dir = lambda name=None, *a, **k: self.root
        M.AxolotlManager.COUNT_GEN_PREKEYS = prekeys
        if threshold is not None:
            M.AxolotlManager.THRESHOLD_REGEN = threshold
        self.pad = PadRandom(pad, seed)
        M.random = self.pad
        _drain_detached()
        self.server = Server()
        self.accounts = {}
        self.order = []
        self.autotrust = autotrust
        for p in phones:
            self.add(p)

    def add(self, phone):
        a = Account(self, phone, self.autotrust)
        self.accounts[a.jid] = a
        self.order.append(a.jid)
        self.server.clients[a.jid] = a
        self.server.attach(a.jid)
        return a

    def acc(self, phone_or_jid):
        return self.accounts[phone_or_jid if "@" in phone_or_jid else jid_of(phone_or_jid)]

    # -- stepping
    def pump(self):
        """Let every client's main thread catch up (closed connections, deferred events) until all are parked."""
        n = 0
        while True:
            any_ = False
            for j in self.order:
                if self.accounts[j].kick():
                    any_ = True
                    n += 1
            if not any_:
                return n
            if n > 1000:
                raise RuntimeError("account threads do not come to rest")

    def settle(self, limit=2000):
        """Default schedule: process everything in global FIFO order until nothing is queued."""
        k = 0
        while True:
            self.pump()
            st = self.server.steps()
            if not st:
                return k
            self.server.do(st[0])
            k += 1
            if k > limit:
                raise RuntimeError("world does not settle (livelock?)")

    def restart(self, phone):
        """Kill the process of an account and start it again on the same profile directory."""
        a = self.acc(phone)
        if a.dispatcher is not None and a.dispatcher._connected:
            a.dispatcher._connected = False
            self.server.on_disconnect(a.jid)
        try:
            a.profile.axolotl_manager._store.identityKeyStore.dbConn.close()
        except Exception:
            pass
        a.build()
        a.connect()

    def reinstall(self, phone):
        """New installation of an account: new identity, empty store; keys are re-published by the login flow."""
        a = self.acc(phone)
        if a.dispatcher is not None and a.dispatcher._connected:
            a.dispatcher._connected = False
            self.server.on_disconnect(a.jid)
        a.thread.kill()
        try:
            a.profile.axolotl_manager._store.identityKeyStore.dbConn.close()
        except Exception:
            pass
        d = os.path.join(self.root, a.phone)
        shutil.rmtree(d, ignore_errors=True)
        self.server.dir.accounts.pop(a.jid, None)
        self.server.outbox[a.jid].clear()
        a.generation += 1
        a.build()
        a.connect()

    def close(self):
        for a in self.accounts.values():
            if a.thread is not None:
                a.thread.kill()
            try:
                a.profile.axolotl_manager._store.identityKeyStore.dbConn.close()
            except Exception:
                pass
        shutil.rmtree(self.root, ignore_errors=True)


def _drain_detached():
    q = YowStack._YowStack__detachedQueue
    while True:
        try:
            q.get(False)
        except _queue.Empty:
            return


# --------------------------------------------------------------------------- provisioned snapshots
_SNAP = {}


def provisioned(phones, groups=None, autotrust=False, prekeys=12, seed=0, pad="aligned"):
    """A World whose accounts went through the real connect / passive login / key upload / reconnect sequence.
    The provisioned profile directories and server directory are built once per process and copied per call."""
    key = (tuple(phones), repr(sorted((groups or {}).items())), prekeys)
    if key not in _SNAP:
        w = World(phones, autotrust=False, prekeys=prekeys, seed=seed)
        for g, members in (groups or {}).items():
            w.server.dir.groups[g] = {"subject": "grp", "creator": jid_of(members[0]), "participants": [jid_of(m) for m in members]}
        for p in phones:
            w.acc(p).connect()
        w.settle()
        ok = all(w.acc(p).logins == [True, False] for p in phones)
        snapdir = tempfile.mkdtemp(prefix="snap-", dir=scratch_root())
        for a in w.accounts.values():
            a.profile.axolotl_manager._store.identityKeyStore.dbConn.commit()
        shutil.copytree(w.root, os.path.join(snapdir, "root"))
        _SNAP[key] = (snapdir, pickle.dumps(w.server.dir), ok, [list(w.acc(p).logins) for p in phones])
        w.close()
    snapdir, dirblob, ok, logins = _SNAP[key]
    root = tempfile.mkdtemp(prefix="w-", dir=scratch_root())
    os.rmdir(root)
    shutil.copytree(os.path.join(snapdir, "root"), root)
    w = World([], autotrust=autotrust, prekeys=prekeys, seed=seed, root=root, pad=pad)
    w.server.dir = pickle.loads(dirblob)
    for p in phones:
        w.add(p)
    w.provision_ok = ok
    w.provision_logins = logins
    for p in phones:
        w.acc(p).connect()
    w.settle()
    for a in w.accounts.values():
        a.app.received[:] = []
        a.archive[:] = []
    return w
