"""Conformance of the dispatcher doubles: the REAL YowNetworkLayer over the REAL AsyncoreConnectionDispatcher (and the
socket dispatcher) talking to a scripted peer on the loopback interface.

The doubles used by C04/C11/C12/C16/C03 rely on a few facts about the real dispatchers' callback discipline.  They
are checked here on the real classes, for every script of a small alphabet (all sequences up to a depth over
{server sends, client sends, peer closes, client disconnects, reconnect}):

  F1  connect() returns only when the connection has gone down again (the read loop runs inside it);
  F2  connected is announced once per connection, on the connecting thread, before any data is handed up;
  F3  everything the peer sent while the connection was up is handed up, in order, on the connecting thread;
  F4  disconnect() (asyncore) reports the connection as down before it returns;
  F5  a connection that was up is announced as down exactly once;
  F6  bytes written while a connection is up arrive at the peer of THAT connection, nothing written before the
      connection was up or after it went down arrives anywhere (no stale bytes at the start of the next connection).

This is scripted testing of the trusted base (real sockets, real time), not part of the exhaustive exploration.
"""
import socket
import threading
import time
import itertools

from vf import env
env.bootstrap()

import yowsup.layers.network.layer as NetL
from yowsup.layers import YowLayer, YowLayerEvent
from yowsup.layers.network.layer import YowNetworkLayer
from yowsup.stacks.yowstack import YowStack
import importlib

DA = importlib.import_module("yowsup.layers.network.dispatcher.dispatcher_asyncore")
DS = importlib.import_module("yowsup.layers.network.dispatcher.dispatcher_socket")


class Peer(object):
    """Scripted TCP peer on 127.0.0.1."""

    def __init__(self):
        self.lsock = socket.socket()
        self.lsock.bind(("127.0.0.1", 0))
        self.lsock.listen(4)
        self.port = self.lsock.getsockname()[1]
        self.conns = []           # accepted sockets
        self.received = []        # per connection: bytearray
        self.lock = threading.Lock()
        self.stop = False
        self.paused = set()       # connections whose peer has stopped reading
        self.t = threading.Thread(target=self._accept_loop)
        self.t.daemon = True
        self.t.start()

    def _accept_loop(self):
        self.lsock.settimeout(0.2)
        while not self.stop:
            try:
                c, _ = self.lsock.accept()
            except socket.timeout:
                continue
            except OSError:
                return
            with self.lock:
                self.conns.append(c)
                self.received.append(bytearray())
            i = len(self.conns) - 1
            r = threading.Thread(target=self._read_loop, args=(i, c))
            r.daemon = True
            r.start()

    def _read_loop(self, i, c):
        while True:
            if i in self.paused:
                time.sleep(0.01)
                if self.stop:
                    return
                continue
            try:
                d = c.recv(4096)
            except OSError:
                return
            if not d:
                # the client closed (or half-closed) its side: a server closes its side as well
                try:
                    c.close()
                except OSError:
                    pass
                return
            self.received[i].extend(d)

    def close(self):
        self.stop = True
        for c in self.conns:
            try:
                c.close()
            except OSError:
                pass
        self.lsock.close()


class Top(YowLayer):
    def __init__(self):
        YowLayer.__init__(self)
        self.log = []

    def receive(self, data):
        self.log.append(("data", bytes(data), threading.current_thread().name))

    def onEvent(self, ev):
        self.log.append(("event", ev.getName().rsplit(".", 1)[-1], threading.current_thread().name))
        return False


def wait_for(pred, timeout=60.0):
    t0 = time.time()
    while time.time() - t0 < timeout:
        if pred():
            return True
        time.sleep(0.005)
    return False


EVENTS = ("srv_send", "cli_send", "peer_close", "cli_disconnect", "reconnect", "undrained_write_then_close")


def run_script(script, dispatcher="asyncore"):
    """Returns (violations, trace).  script = sequence of EVENTS applied after the first connect."""
    v = []
    peer = Peer()
    import queue as _q
    qcls = type("ConfStack", (YowStack,), {"_YowStack__detachedQueue": _q.Queue()})
    NetL.AsyncoreConnectionDispatcher = DA.AsyncoreConnectionDispatcher
    NetL.SocketConnectionDispatcher = DS.SocketConnectionDispatcher
    stack = qcls((YowNetworkLayer, Top), reversed=False,
                 props={YowNetworkLayer.PROP_DISPATCHER: YowNetworkLayer.DISPATCHER_ASYNCORE if dispatcher == "asyncore" else YowNetworkLayer.DISPATCHER_SOCKET})
    stack.setProp(YowNetworkLayer.PROP_ENDPOINT, ("127.0.0.1", peer.port))
    net, top = stack.getLayer(0), stack.getLayer(1)
    state = {"returned": 0, "threads": []}

    def connector():
        stack.broadcastEvent(YowLayerEvent(YowNetworkLayer.EVENT_STATE_CONNECT))
        state["returned"] += 1

    def start_connect():
        t = threading.Thread(target=connector, name="connector-%d" % len(state["threads"]))
        t.daemon = True
        state["threads"].append(t)
        t.start()
        return t

    def bad(sig, what):
        v.append(("C16:dispatcher-%s:%s" % (dispatcher, sig), "real %s dispatcher: %s (script %s)" % (dispatcher, what, list(script)),
                  {"dispatcher_script": list(script), "dispatcher": dispatcher}, None))
    sent_up = []       # per connection: bytes the peer sent
    sent_down = []     # per connection: bytes the client wrote while it was up
    try:
        start_connect()
        ci = 0
        if not wait_for(lambda: len(peer.conns) > ci and net.connected):
            bad("no-connect", "connection did not come up")
            return v, top.log
        sent_up.append(b"")
        sent_down.append(b"")
        up = True
        n = 0
        for ev in script:
            n += 1
            if ev == "srv_send" and up:
                payload = b"S%d-%d." % (ci, n)
                peer.conns[ci].sendall(payload)
                sent_up[ci] += payload
                want = sent_up[ci]
                if not wait_for(lambda: b"".join(x[1] for x in top.log if x[0] == "data").endswith(want[-len(payload):])):
                    bad("data-not-delivered", "bytes sent by the peer were not handed up")
            elif ev == "cli_send":
                payload = b"C%d-%d." % (ci, n)
                was_up = up
                try:
                    net.send(payload)
                except Exception as e:
                    if was_up:
                        bad("send-raises", "send on an established connection raised %r" % (e,))
                if was_up:
                    sent_down[ci] += payload
                    if not wait_for(lambda: bytes(peer.received[ci]).endswith(payload)):
                        bad("write-lost", "bytes written on an established connection did not reach the peer")
            elif ev == "undrained_write_then_close" and up:
                # the peer stops reading, the client writes more than the socket buffers hold, the peer goes away:
                # part of the write is still queued in the dispatcher when the connection dies
                peer.paused.add(ci)
                time.sleep(0.05)
                big = b"B" * (8 << 20)
                try:
                    net.send(big)
                except Exception:
                    pass
                sent_down[ci] = None          # only a prefix can have arrived: not compared
                time.sleep(0.1)
                try:
                    import struct as _st
                    peer.conns[ci].setsockopt(socket.SOL_SOCKET, socket.SO_LINGER, _st.pack("ii", 1, 0))
                    peer.conns[ci].close()
                except OSError:
                    pass
                if not wait_for(lambda: not net.connected):
                    bad("close-not-noticed", "peer close was not reported")
                up = False
                if not wait_for(lambda: state["returned"] == ci + 1, 30.0):
                    bad("connect-still-blocked", "connect() did not return after the connection went down")
            elif ev == "peer_close" and up:
                peer.conns[ci].shutdown(socket.SHUT_RDWR)
                peer.conns[ci].close()
                if not wait_for(lambda: not net.connected):
                    bad("close-not-noticed", "peer close was not reported")
                up = False
                if not wait_for(lambda: state["returned"] == ci + 1, 30.0):
                    bad("connect-still-blocked", "connect() did not return after the connection went down")
            elif ev == "cli_disconnect" and up:
                stack.broadcastEvent(YowLayerEvent(YowNetworkLayer.EVENT_STATE_DISCONNECT))
                if dispatcher == "asyncore" and net.connected:
                    bad("disconnect-not-synchronous", "disconnect() returned while the layer still reports the connection as up")
                wait_for(lambda: not net.connected)
                up = False
                if not wait_for(lambda: state["returned"] == ci + 1, 30.0):
                    bad("connect-still-blocked", "connect() did not return after disconnect()")
            elif ev == "reconnect" and not up:
                # the stack's loop turn (deferred events) runs between two connections
                q = qcls._YowStack__detachedQueue
                while not q.empty():
                    q.get(False)()
                start_connect()
                ci += 1
                if not wait_for(lambda: len(peer.conns) > ci and net.connected):
                    bad("no-reconnect", "second connection did not come up")
                    break
                sent_up.append(b"")
                sent_down.append(b"")
                up = True
        # F1: while up, connect() must still be blocked
        if up and state["returned"] != ci:
            bad("connect-returned-early", "connect() returned although the connection is still up")
        time.sleep(0.05)
        # F6: per connection, the peer got exactly what was written while that connection was up
        for i in range(len(sent_down)):
            got = bytes(peer.received[i]) if i < len(peer.received) else b""
            if sent_down[i] is None:
                continue
            if got != sent_down[i]:
                bad("bytes-at-peer", "connection %d: peer received %r, client wrote %r while it was up" % (i, got[:40], sent_down[i][:40]))
        # F2/F3/F5 on the upward log
        evs = [x for x in top.log if x[0] == "event"]
        ups = sum(1 for x in evs if x[1] == "connected")
        if ups != ci + 1:
            bad("connected-count", "%d connections came up, connected announced %d times" % (ci + 1, ups))
        data = b"".join(x[1] for x in top.log if x[0] == "data")
        if data != b"".join(sent_up):
            bad("data-mismatch", "handed up %r, peer sent %r" % (data[:40], b"".join(sent_up)[:40]))
        for x in top.log:
            if x[0] == "data" and not x[2].startswith("connector-"):
                bad("data-on-foreign-thread", "received data was handed up on thread %s" % x[2])
                break
        # the 'disconnected' announcement is deferred to the loop turn: count after draining
        q = qcls._YowStack__detachedQueue
        while not q.empty():
            q.get(False)()
        downs = sum(1 for x in top.log if x[0] == "event" and x[1] == "disconnected")
        expect_down = (ci + 1) - (1 if up else 0)
        if downs != expect_down:
            bad("disconnected-count", "%d connections went down, disconnected announced %d times" % (expect_down, downs))
    finally:
        try:
            if net.connected:
                stack.broadcastEvent(YowLayerEvent(YowNetworkLayer.EVENT_STATE_DISCONNECT))
        except Exception:
            pass
        peer.close()
        for t in state["threads"]:
            t.join(3.0)
    return v, top.log


def scripts(depth):
    out = []
    for d in range(0, depth + 1):
        for s in itertools.product(EVENTS, repeat=d):
            # keep only scripts whose events are all applicable in sequence
            up = True
            ok = True
            for e in s:
                if e in ("srv_send", "peer_close", "cli_disconnect", "undrained_write_then_close"):
                    if not up:
                        ok = False
                        break
                    if e != "srv_send":
                        up = False
                elif e == "reconnect":
                    if up:
                        ok = False
                        break
                    up = True
            if ok:
                out.append(s)
    return out


def loopback_available():
    try:
        s = socket.socket()
        s.bind(("127.0.0.1", 0))
        s.close()
        return True
    except OSError:
        return False


def run_one(args):
    script, disp = args
    try:
        v, log = run_script(script, disp)
        return v
    except Exception as e:
        import traceback
        return [("C16:dispatcher-%s:harness-raises" % disp, "scenario %s raised %r" % (list(script), e),
                 {"dispatcher_script": list(script), "dispatcher": disp}, traceback.format_exc()[-600:])]
