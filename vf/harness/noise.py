"""Harness: the real [network, segments, noise, coder, protocol layers, app probe] stack under the controlled
scheduler, against the Noise responder double.  Shared by C04, C11, C12, C16."""
import os
import queue as _queue
import threading as _threading
import time as _time

from vf import env
env.bootstrap()
env.shim_consonance(0)

from vf.explore import sched as S
from vf.doubles.noise_server import NoiseResponder, fixed_keypair

import yowsup.layers as L
import yowsup.layers.noise.layer as NL
import yowsup.layers.network.layer as NetL
import yowsup.layers.protocol_iq.layer as IqL
import consonance.streams.segmented.blockingqueue as BQ
import consonance.handshake as CH
from yowsup.layers import YowLayer, YowLayerEvent, YowParallelLayer
from yowsup.layers.network.dispatcher.dispatcher import YowConnectionDispatcher
from yowsup.layers.network.layer import YowNetworkLayer
from yowsup.layers.noise.layer import YowNoiseLayer
from yowsup.layers.noise.layer_noise_segments import YowNoiseSegmentsLayer
from yowsup.layers.coder.layer import YowCoderLayer
from yowsup.layers.coder.encoder import WriteEncoder
from yowsup.layers.coder.decoder import ReadDecoder
from yowsup.layers.coder.tokendictionary import TokenDictionary
from yowsup.layers.auth.layer_authentication import YowAuthenticationProtocolLayer
from yowsup.stacks.yowstack import YowStack, YOWSUP_PROTOCOL_LAYERS_BASIC
from yowsup.structs.protocoltreenode import ProtocolTreeNode
from yowsup.config.v1.config import Config
from consonance.structs.keypair import KeyPair as CKeyPair
from consonance.structs.publickey import PublicKey as CPublicKey

REPO_LAYERS = os.path.join(os.path.realpath(env.REPO), "yowsup", "layers") + os.sep
_CONS = os.path.dirname(os.path.realpath(BQ.__file__)).rsplit(os.sep + "streams", 1)[0]
TRACE_PREFIXES = (REPO_LAYERS,
                  os.path.join(_CONS, "streams") + os.sep,
                  os.path.join(_CONS, "protocol.py"),
                  os.path.join(_CONS, "transport.py"))
# entity (de)serialisation and the codec are pure functions of their arguments: no scheduling points inside them
TRACE_EXCLUDE = ("protocolentities", os.sep + "coder" + os.sep + "encoder.py", os.sep + "coder" + os.sep + "decoder.py",
                 "tokendictionary.py", os.sep + "proto" + os.sep)

_installed = False


class _TimerTime(object):
    """`time` as seen by the iq layer: sleep is a timer wait that only an explicit tick enables."""

    def sleep(self, s):
        sc = S.cur()
        if sc is not None and sc.me() is not None:
            sc.timer_wait("ping")
        # unmanaged: return immediately

    def time(self):
        return env.CLOCK.time()

    def __getattr__(self, name):
        return getattr(_time, name)


class CRLock(S.CLock):
    """threading.RLock replacement; the owner is the thread object (two handshake workers share one name)."""

    def __init__(self):
        S.CLock.__init__(self)
        self.depth = 0
        self.owner_thread = None

    def _me(self):
        s = S.cur()
        t = s.me() if s is not None else None
        return t if t is not None else "unmanaged"

    def acquire(self, blocking=True, timeout=-1):
        me = self._me()
        if self._held and self.owner_thread is me:
            self.depth += 1
            return True
        r = S.CLock.acquire(self, blocking, timeout)
        if r:
            self.depth = 1
            self.owner_thread = me
        return r

    def release(self):
        if not self._held or self.owner_thread is not self._me():
            raise RuntimeError("cannot release un-acquired lock")
        if self.depth > 1:
            self.depth -= 1
            return
        # CLock.release has its scheduling point before the lock is given up: stay the owner until then
        S.CLock.release(self)
        self.depth = 0
        self.owner_thread = None

    __enter__ = acquire


def install_controlled_primitives():
    """Rebind the module-level names through which the library reaches locks, queues and sleep."""
    global _installed
    if _installed:
        return
    _installed = True
    thr = S.ModuleProxy(_threading, Lock=S.CLock, RLock=CRLock)
    q = S.ModuleProxy(_queue, Queue=S.CQueue)
    L.threading = thr
    NL.threading = thr
    NL.Queue = q
    BQ.Queue = q
    IqL.Lock = S.CLock
    IqL.time = _TimerTime()


def trace_filter(code):
    fn = code.co_filename
    if not fn.startswith(TRACE_PREFIXES):
        return False
    for x in TRACE_EXCLUDE:
        if x in fn:
            return False
    return True


LINE_FILES = (os.path.join(REPO_LAYERS, "__init__.py"), os.path.join(REPO_LAYERS, "noise", "layer.py"),
              os.path.join(REPO_LAYERS, "noise", "layer_noise_segments.py"), os.path.join(REPO_LAYERS, "network", "layer.py"))


def line_filter(code):
    return code.co_filename in LINE_FILES


# --------------------------------------------------------------------------- doubles
class DispatcherDouble(YowConnectionDispatcher):
    """Callback discipline of the asyncore dispatcher: disconnect() calls onDisconnected synchronously,
    sendData while not connected is dropped with a warning."""
    world = None

    def __init__(self, callbacks):
        YowConnectionDispatcher.__init__(self, callbacks)
        self._connected = False
        self.world.dispatchers.append(self)
        self.index = len(self.world.dispatchers) - 1
        self.closed = False

    def connect(self, host):
        self.connectionCallbacks.onConnecting()
        self.world.on_connect(self, host)

    def fire_connected(self):
        if not self._connected:
            self._connected = True
            self.connectionCallbacks.onConnected()

    def sendData(self, data):
        if self._connected:
            self.world.on_client_bytes(self, bytes(data))
        else:
            self.world.dropped_writes.append((self.index, len(data)))

    def handle_close(self):
        self._connected = False
        self.closed = True
        self.world.on_closed(self)
        self.connectionCallbacks.onDisconnected()

    def disconnect(self):
        self.handle_close()


class Profile(object):
    """Duck-typed YowProfile: real Config object, write_config recorded (persistence is C19's subject)."""

    def __init__(self, config, username):
        self.config = config
        self.username = username
        self.writes = []

    def write_config(self, config):
        self.writes.append(bytes(config.server_static_public.data) if config.server_static_public is not None else None)


class AppProbe(YowLayer):
    world = None

    def __init__(self):
        YowLayer.__init__(self)
        self.received = []
        self.events = []

    def receive(self, entity):
        self.received.append(entity)

    def send(self, entity):
        self.toLower(entity)

    def onEvent(self, ev):
        self.events.append(ev.getName())
        return False


class NodeEntity(object):
    """Minimal outgoing entity: tag + fixed serialisation (entity classes are C09's subject)."""

    def __init__(self, node):
        self.node = node

    def getTag(self):
        return self.node.tag

    def toProtocolTreeNode(self):
        return self.node


def node_key(n):
    """Strict structural identity of a stanza tree."""
    return (n.tag, tuple(sorted((k, str(v)) for k, v in n.attributes.items())),
            bytes(n.data) if n.data is not None else None, tuple(node_key(c) for c in n.children))


def out_stanza(i, thread="a"):
    """i-th outgoing stanza of a sender thread (simple kinds routed by the basic protocol layers)."""
    kinds = ("presence", "ack", "receipt", "chatstate")
    k = kinds[i % len(kinds)]
    sid = "%s%d" % (thread, i)
    if k == "presence":
        return ProtocolTreeNode("presence", {"type": "available", "name": "n-" + sid})
    if k == "ack":
        return ProtocolTreeNode("ack", {"id": sid, "class": "receipt", "to": "4911@s.whatsapp.net"})
    if k == "receipt":
        return ProtocolTreeNode("receipt", {"id": sid, "to": "4911@s.whatsapp.net"})
    return ProtocolTreeNode("chatstate", {"to": "49%s@s.whatsapp.net" % (i + 1)}, [ProtocolTreeNode("composing")])


def in_stanza(i):
    kinds = ("ack", "presence", "chatstate", "receipt")
    k = kinds[i % len(kinds)]
    sid = "s%d" % i
    if k == "ack":
        return ProtocolTreeNode("ack", {"id": sid, "class": "message", "from": "4922@s.whatsapp.net", "t": "1600000%03d" % i})
    if k == "presence":
        return ProtocolTreeNode("presence", {"from": "49%d@s.whatsapp.net" % (30 + i), "type": "unavailable", "last": "deny"})
    if k == "chatstate":
        return ProtocolTreeNode("chatstate", {"from": "49%d@s.whatsapp.net" % (40 + i)}, [ProtocolTreeNode("paused")])
    return ProtocolTreeNode("receipt", {"id": sid, "from": "4922@s.whatsapp.net", "t": "1600000%03d" % i, "type": "read"})


SUCCESS = ProtocolTreeNode("success", {"creation": "1500000000", "props": "4", "t": "1600000000", "location": "frc"})

CLIENT_STATIC = fixed_keypair(0x11)
SERVER_STATIC = fixed_keypair(0x22)
OLD_SERVER_STATIC = fixed_keypair(0x33)


class World(object):
    """One execution's worth of real stack + doubles."""

    def __init__(self, variant="XX", edge=False, corrupt=False, passive=False, burst=0, top_layers=None,
                 ping_interval=0, extra_props=None, with_success=False, app_cls=None):
        install_controlled_primitives()
        env.fix_clock()
        env.reset_ids()
        env.shim_consonance(0)
        self.variant = variant
        self.corrupt = corrupt
        self.burst = burst
        self.with_success = with_success
        self.dispatchers = []
        self.responders = []          # one per connection
        self.server_out = []          # per connection: bytearray of bytes written by the server, not yet delivered
        self.client_bytes = []        # per connection: bytes written by the client (wire order)
        self.dropped_writes = []
        self.sent_by_server = []      # per connection: list of stanza trees the server sent (in order)
        self.events = []
        self.log = []
        self.writer = WriteEncoder(TokenDictionary())
        self.reader = ReadDecoder(TokenDictionary())

        stored = None
        if variant == "IK":
            stored = CPublicKey(bytes(SERVER_STATIC.public.data))
        elif variant == "XXfallback":
            stored = CPublicKey(bytes(OLD_SERVER_STATIC.public.data))
        self.initial_server_key = stored
        self.edge_info = b"\x08\x02\x10\x05edge" if edge else None
        cfg = Config(phone="4915100000001", cc="49", pushname="vf puš", mcc="262", mnc="07", fdid="fd-1",
                     client_static_keypair=_ckeypair(CLIENT_STATIC),
                     server_static_public=stored, edge_routing_info=self.edge_info)
        self.config = cfg
        self.profile = Profile(cfg, "4915100000001")

        DispatcherDouble.world = self
        NetL.AsyncoreConnectionDispatcher = DispatcherDouble
        NetL.SocketConnectionDispatcher = DispatcherDouble
        _drain_detached()
        proto = tuple(top_layers) if top_layers is not None else YOWSUP_PROTOCOL_LAYERS_BASIC
        props = {
            "profile": self.profile,
            YowAuthenticationProtocolLayer.PROP_PASSIVE: passive,
            IqL.YowIqProtocolLayer.PROP_PING_INTERVAL: ping_interval,
        }
        props.update(extra_props or {})
        self.passive = passive
        self.stack = YowStack((YowNetworkLayer, YowNoiseSegmentsLayer, YowNoiseLayer, YowCoderLayer,
                               YowParallelLayer(proto), app_cls or AppProbe), reversed=False, props=props)
        self.stack.setProp(YowNetworkLayer.PROP_ENDPOINT, ("e1.whatsapp.net", 443))
        self.net = self.stack.getLayer(0)
        self.seg = self.stack.getLayer(1)
        self.noise = self.stack.getLayer(2)
        self.coder = self.stack.getLayer(3)
        self.par = self.stack.getLayer(4)
        self.app = self.stack.getLayer(5)
        for lay in (self.net, self.seg, self.noise, self.coder, self.par, self.app) + tuple(self.par.sublayers):
            if isinstance(getattr(lay, "lock", None), S.CLock):
                lay.lock.name = type(lay).__name__
        if isinstance(self.noise._flush_lock, S.CLock):
            self.noise._flush_lock.name = "flush"
        if isinstance(getattr(self.noise, "_session_lock", None), S.CLock):
            self.noise._session_lock.name = "session"
        if isinstance(self.noise._incoming_segments_queue, S.CQueue):
            self.noise._incoming_segments_queue.name = "segq"
        st = self.noise._stream
        if isinstance(getattr(st, "_readqueue", None), S.CQueue):
            st._readqueue.name = "readq"
            st._writequeue.name = "writeq"

    # -- dispatcher callbacks
    def on_connect(self, disp, host):
        self.events.append(("connect", disp.index))
        seed = 0x55 + len(self.responders)
        self.responders.append(NoiseResponder(SERVER_STATIC, ephemeral_seed=seed, corrupt_hello=self.corrupt,
                                              expect_edge=self.edge_info))
        self.server_out.append(bytearray())
        self.client_bytes.append(bytearray())
        self.sent_by_server.append([])

    def on_closed(self, disp):
        self.events.append(("closed", disp.index))

    def on_client_bytes(self, disp, data):
        i = disp.index
        self.client_bytes[i].extend(data)
        r = self.responders[i]
        was = r.phase
        for fr in r.feed(data):
            self.server_out[i].extend(fr)
        if was != "transport" and r.phase == "transport":
            # server side of the handshake just completed: it immediately writes its first frames
            if self.with_success:
                self.server_send(i, SUCCESS)
            for k in range(self.burst):
                self.server_send(i, in_stanza(k))

    def server_send(self, i, node):
        r = self.responders[i]
        self.sent_by_server[i].append(node)
        self.server_out[i].extend(r.send(bytes(self.writer.protocolTreeNodeToBytes(node))))

    # -- helpers for threads
    def conn(self):
        return len(self.dispatchers) - 1

    def connect(self):
        self.stack.broadcastEvent(YowLayerEvent(YowNetworkLayer.EVENT_STATE_CONNECT))

    def deliver(self, i, n):
        """Network thread: hand the next n server bytes of connection i to the stack."""
        chunk = bytes(self.server_out[i][:n])
        del self.server_out[i][:n]
        self.dispatchers[i].connectionCallbacks.onRecvData(chunk)

    def pump_detached(self):
        return _drain_detached(run=True)

    def state(self):
        return self.noise._wa_noiseprotocol.state

    def decoded_client_stanzas(self, i):
        out = []
        for fr in self.responders[i].received:
            out.append(self.reader.getProtocolTreeNode(bytearray(fr)))
        return out

    def locks(self):
        res = {}
        for lay in (self.net, self.seg, self.noise, self.coder, self.par, self.app) + tuple(self.par.sublayers):
            lk = getattr(lay, "lock", None)
            if lk is not None and hasattr(lk, "locked"):
                res[type(lay).__name__] = lk.locked()
        res["flush"] = self.noise._flush_lock.locked()
        return res


def _ckeypair(kp):
    from consonance.structs.privatekey import PrivateKey as CPriv
    return CKeyPair(CPublicKey(bytes(kp.public.data)), CPriv(bytes(kp.private.data)))


def _drain_detached(run=False):
    """The detached-event queue is class-level state of YowStack: drain (optionally executing) it."""
    q = YowStack._YowStack__detachedQueue
    n = 0
    while True:
        try:
            cb = q.get(False)
        except _queue.Empty:
            return n
        n += 1
        if run:
            cb()
