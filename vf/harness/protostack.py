"""Harness shared by C06 / C07 (and usable by C08): the protocol layer set of the library as a REAL YowStack
between two recording layers,

    [BottomProbe, (AxolotlControlLayer, YowParallelLayer((AxolotlSendLayer, AxolotlReceivelayer)))?,
     YowParallelLayer(YowStackBuilder.getProtocolLayers(groups, media, privacy, profiles)), TopProbe]

for the 16 selections of the optional modules x {without, with} the encryption layers = 32 configurations.

With the encryption layers the stack's "profile" prop is a YowProfile-like object whose `axolotl_manager` is a
real AxolotlManager on a real LiteAxolotlStore (sqlite file).  A *template* store is provisioned once per process
tree (prepare(); forked workers inherit it): own identity, sent prekeys, a signed prekey, a pairwise session to
every user / broadcast recipient of the value alphabets (all built from one peer bundle) and a sender key for
every group recipient, so that an outgoing message becomes one `enc` envelope without any key fetch or group
info request.  A peer manager holding a session towards us pre-encrypts a fixed list of payloads (pkmsg), so
that incoming encrypted messages can be injected.  Every execution works on a private COPY of the template
(copyfile + open, ~1 ms), hence executions are independent of each other and of their order.

Scratch lives under tempfile.mkdtemp(dir=env.scratch_root()) and is removed at exit of the creating process.
"""
import os
import atexit
import shutil
import random
import logging
import tempfile
import itertools
import traceback

from vf import env
env.bootstrap()

from yowsup.layers import YowLayer, YowLayerEvent, YowParallelLayer
from yowsup.layers.network.layer import YowNetworkLayer
from yowsup.layers.protocol_iq.layer import YowIqProtocolLayer
from yowsup.layers.axolotl import AxolotlSendLayer, AxolotlControlLayer, AxolotlReceivelayer
from yowsup.stacks.yowstack import YowStack, YowStackBuilder
from yowsup.structs import ProtocolTreeNode
from yowsup.axolotl.manager import AxolotlManager
from yowsup.axolotl.store.sqlite.liteaxolotlstore import LiteAxolotlStore
from axolotl.state.prekeybundle import PreKeyBundle

from vf.ref import shapes as S

ME = "4915100000001"                 # own account; deliberately not a member of any value alphabet
ME_JID = ME + "@s.whatsapp.net"
PEER = S.U[0].split("@")[0]          # the peer that can send us encrypted messages
PEER_JID = S.U[0]
BROADCAST_NOW = "%d" % int(env.CLOCK.now * 1000)   # BroadcastTextMessage addresses "<ms since epoch>@broadcast"

MODULES = ("groups", "media", "privacy", "profiles")


class Config(object):
    """one of the 32 configurations; index 0 = nothing optional, no encryption (simplest first)"""

    def __init__(self, groups, media, privacy, profiles, enc):
        self.groups, self.media, self.privacy, self.profiles, self.enc = groups, media, privacy, profiles, enc

    @property
    def key(self):
        return "g%dm%dp%dr%de%d" % (self.groups, self.media, self.privacy, self.profiles, self.enc)

    def has(self, module):
        return True if module is None else bool(getattr(self, module))

    def as_dict(self):
        return {"groups": self.groups, "media": self.media, "privacy": self.privacy, "profiles": self.profiles,
                "enc": self.enc}

    @staticmethod
    def from_key(key):
        return Config(*[bool(int(key[i])) for i in (1, 3, 5, 7, 9)])

    def __repr__(self):
        return self.key


def _all_configs():
    out = []
    for enc in (False, True):
        for bits in sorted(itertools.product((False, True), repeat=4), key=lambda b: (sum(b), b)):
            out.append(Config(bits[0], bits[1], bits[2], bits[3], enc))
    return out


CONFIGS = _all_configs()
CONFIG_KEYS = [c.key for c in CONFIGS]

# predicates used to name the class of configurations a failure depends on
CONFIG_CLASSES = [("enc-on", lambda c: c.enc), ("enc-off", lambda c: not c.enc)]
for _m in MODULES:
    CONFIG_CLASSES.append(("%s-on" % _m, (lambda m: lambda c: getattr(c, m))(_m)))
    CONFIG_CLASSES.append(("%s-off" % _m, (lambda m: lambda c: not getattr(c, m))(_m)))


def config_class(failing_keys, applicable_keys):
    """name of the configuration class a failure depends on: None when it fails in every configuration it was
    tried in; otherwise the single feature (e.g. 'media-off', 'enc-on') or conjunction of two features whose
    configurations are exactly the failing ones (preferably among all 32, else among those tried); else
    'some-configs'"""
    failing, applicable = set(failing_keys), set(applicable_keys)
    if failing >= applicable:
        return None
    cands = [(n, p) for n, p in CONFIG_CLASSES]
    for (n1, p1), (n2, p2) in itertools.combinations(CONFIG_CLASSES, 2):
        cands.append(("%s+%s" % (n1, n2), (lambda a, b: lambda c: a(c) and b(c))(p1, p2)))
    for universe in (set(CONFIG_KEYS), applicable):
        for name, pred in cands:
            if set(k for k in universe if pred(Config.from_key(k))) == failing:
                return name
    return "some-configs"


# --------------------------------------------------------------------------------------------------
# reference model of the protocol layer set (DESIGN Appendix A): 11 basic layers + one layer per selected module
# --------------------------------------------------------------------------------------------------
BASIC_LAYERS = ("YowAuthenticationProtocolLayer", "YowMessagesProtocolLayer", "YowReceiptProtocolLayer",
                "YowAckProtocolLayer", "YowPresenceProtocolLayer", "YowIbProtocolLayer", "YowIqProtocolLayer",
                "YowNotificationsProtocolLayer", "YowContactsIqProtocolLayer", "YowChatstateProtocolLayer",
                "YowCallsProtocolLayer")
MODULE_LAYER = {"groups": "YowGroupsProtocolLayer", "media": "YowMediaProtocolLayer",
                "privacy": "YowPrivacyProtocolLayer", "profiles": "YowProfilesProtocolLayer"}


def assembly_findings(cfg, classes):
    """compare the classes returned by YowStackBuilder.getProtocolLayers for cfg with the model -> [(what, detail)]"""
    names = [c.__name__ for c in classes]
    out = []
    dup = sorted(set(n for n in names if names.count(n) > 1))
    if dup:
        out.append(("layer-duplicated", dict((n, names.count(n)) for n in dup)))
    for m in MODULES:
        if MODULE_LAYER[m] in names and not cfg.has(m):
            out.append(("left-out-module-present", MODULE_LAYER[m]))
        if MODULE_LAYER[m] not in names and cfg.has(m):
            out.append(("selected-module-missing", MODULE_LAYER[m]))
    missing = [n for n in BASIC_LAYERS if n not in names]
    if missing:
        out.append(("basic-layer-missing", missing))
    foreign = sorted(set(names) - set(BASIC_LAYERS) - set(MODULE_LAYER.values()))
    if foreign:
        out.append(("unexpected-layer", foreign))
    return out


def assembly_preflight(passes=2):
    """build every configuration `passes` times in one process (simplest first) and compare each layer set with
    the model -> [(what, config key, build number, detail)]; stops at the first faulty build (a faulty assembly
    can grow without bound)"""
    n = 0
    for _ in range(passes):
        for cfg in CONFIGS:
            n += 1
            classes = YowStackBuilder.getProtocolLayers(groups=cfg.groups, media=cfg.media, privacy=cfg.privacy,
                                                        profiles=cfg.profiles)
            bad = assembly_findings(cfg, classes)
            if bad:
                return [(what, cfg.key, n, {"config": cfg.key, "build_number_in_process": n, "problem": detail,
                                            "layers": [c.__name__ for c in classes][:40]}) for what, detail in bad], n
    return [], n


# --------------------------------------------------------------------------------------------------
# recording layers
# --------------------------------------------------------------------------------------------------
class BottomProbe(YowLayer):
    """stands where the coder layer would be: records every stanza the layer set writes downward"""

    def __init__(self):
        YowLayer.__init__(self)
        self.sent = []
        self.events = []

    def send(self, data):
        self.sent.append(data)

    def receive(self, data):
        self.toUpper(data)

    def onEvent(self, ev):
        self.events.append(ev.getName())
        return False


class TopProbe(YowLayer):
    """stands where the application layer would be: records every entity handed upward"""

    def __init__(self):
        YowLayer.__init__(self)
        self.got = []
        self.events = []

    def receive(self, data):
        self.got.append(data)

    def send(self, data):
        self.toLower(data)

    def onEvent(self, ev):
        self.events.append(ev.getName())
        return False


class Profile(object):
    """what the layers read from getProp("profile"): .username and .axolotl_manager"""

    def __init__(self, username, manager):
        self.username = username
        self._manager = manager

    @property
    def axolotl_manager(self):
        if self._manager is None:
            raise AssertionError("axolotl manager requested in a configuration without encryption layers")
        return self._manager


# --------------------------------------------------------------------------------------------------
# crypto material
# --------------------------------------------------------------------------------------------------
_scratch = None          # (pid, dir)
_template = None         # dict: db path, incoming ciphertexts
_prepared = False


def _cleanup():
    global _scratch
    if _scratch is not None and _scratch[0] == os.getpid():
        shutil.rmtree(_scratch[1], ignore_errors=True)
        _scratch = None


def scratch_dir():
    global _scratch
    if _scratch is None:
        d = tempfile.mkdtemp(prefix="protostack-", dir=env.scratch_root())
        _scratch = (os.getpid(), d)
        atexit.register(_cleanup)
    return _scratch[1]


def _bundle(manager, prekey, signed):
    return PreKeyBundle(manager.registration_id, 1, prekey.getId(), prekey.getKeyPair().getPublicKey(),
                        signed.getId(), signed.getKeyPair().getPublicKey(), signed.getSignature(),
                        manager.identity.getPublicKey())


def unpresentable_payloads():
    """serialized e2e Messages that are none of text / extended text / supported media / pure key distribution
    (payload alphabet of C07), name -> [variants]"""
    from yowsup.layers.protocol_messages.proto.e2e_pb2 import Message
    out = {}

    def add(name, fill):
        vs = []
        for v in range(3):
            m = Message()
            fill(m, v)
            vs.append(m.SerializeToString())
        out[name] = vs

    def revoke(m, v):
        m.protocol_message.key.remote_jid = S.U[v]
        m.protocol_message.key.from_me = (v != 1)
        m.protocol_message.key.id = S.ALPHABETS["id"][v + 1]
        m.protocol_message.type = 0                       # REVOKE

    def call(m, v):
        m.call.call_key = [b"CALLKEY", b"\x00" * 32, bytes(range(40))][v]

    def chat(m, v):
        m.chat.display_name = ["chat", "Zo\u00eb", "x"][v]
        m.chat.id = S.G[v]

    def hsm(m, v):
        m.highly_structured_message.namespace = "ns%d" % v
        m.highly_structured_message.element_name = "el"
        if v:
            m.highly_structured_message.params.append("p")

    def contacts(m, v):
        m.contacts_array_message.display_name = ["2 contacts", "Zo\u00eb", "x"][v]
        for i in range(v):
            c = m.contacts_array_message.contacts.add()
            c.display_name = "c%d" % i
            c.vcard = b"BEGIN:VCARD\nEND:VCARD"

    add("revoke", revoke)
    add("call", call)
    add("chat", chat)
    add("hsm", hsm)
    add("contacts-array", contacts)
    out["empty"] = [b""]
    return out


class _SafePadManager(AxolotlManager):
    """AxolotlManager of a PEER / of the provisioning step (never of the stack under test).  The library pads every
    plaintext with random.randint(1, 255) bytes; python-axolotl 0.2.2 (third party) does not PKCS7-pad a plaintext
    whose length is a multiple of the AES block size and thereby corrupts it.  Here the pad length is chosen:
    deterministic, varying, never block-aligned.  Everything else is the library's own code."""
    _count = 0
    _len = 0

    def _generate_random_padding(self, message_length=None):
        n = self._len if message_length is None else message_length
        _SafePadManager._count += 1
        pad = 1 + (_SafePadManager._count * 37) % 200
        while (n + pad) % 16 == 0:
            pad += 1
        return bytes(bytearray([pad] * pad))

    def encrypt(self, recipient_id, message):
        self._len = len(message)
        return AxolotlManager.encrypt(self, recipient_id, message)

    def group_encrypt(self, groupid, message):
        self._len = len(message)
        return AxolotlManager.group_encrypt(self, groupid, message)


def incoming_plaintexts():
    """payloads a peer can send us encrypted (the same serialized e2e Messages the plaintext shapes carry)"""
    out = []
    for k in ("conversation", "extended_text", "image", "contact"):
        out.extend(S.ALPHABETS["pb:" + k])
    for name, vs in sorted(unpresentable_payloads().items()):
        out.extend(v for v in vs if v)                 # an empty plaintext cannot be sent encrypted
    return out


def session_recipients():
    # the send layer takes a recipient without "-" for a contact: new-style group ids (120363...@g.us) therefore
    # need a pairwise session as well (how groups are recognised is C03's subject, not routing)
    users = [j.split("@")[0] for j in S.U + S.B + S.G] + [BROADCAST_NOW]
    return users, list(S.G)


def patch_clocks():
    """every module of the entity code that reads the clock gets the pinned clock (deterministic ids / sids)"""
    global _prepared
    env.fix_clock()
    if _prepared:
        return
    _prepared = True
    import importlib
    for mod in ("yowsup.layers.protocol_profiles.protocolentities.iq_picture_set",
                "yowsup.layers.protocol_messages.protocolentities.message_text_broadcast",
                "yowsup.layers.protocol_contacts.protocolentities.iq_sync",
                "yowsup.layers.protocol_contacts.protocolentities.iq_sync_get",
                "yowsup.layers.protocol_receipts.protocolentities.receipt_outgoing"):
        try:
            m = importlib.import_module(mod)
        except ImportError:
            continue
        if hasattr(m, "time"):
            m.time = env.CLOCK
    # AxolotlManager.level_prekeys writes a progress line to stdout whenever its logger is at NOTSET
    logging.getLogger("yowsup.axolotl.manager").setLevel(logging.WARNING)


def prepare():
    """provision the template store (idempotent).  Call in the parent before forking workers."""
    global _template
    patch_clocks()
    if _template is not None and os.path.isfile(_template["db"]):
        return _template
    d = scratch_dir()
    AxolotlManager.COUNT_GEN_PREKEYS = 12          # class attribute: 812 one-time prekeys are not needed here
    db = os.path.join(d, "template-%d.db" % os.getpid())
    store = LiteAxolotlStore(db)
    me = AxolotlManager(store, ME)
    prekeys = me.level_prekeys()
    me.set_prekeys_as_sent(prekeys)                # nothing pending: the control layer does not go passive
    signed = me.generate_signed_prekey()

    peer_store = LiteAxolotlStore(":memory:")
    peer = _SafePadManager(peer_store, PEER)
    peer_prekeys = peer.level_prekeys()
    peer_signed = peer.generate_signed_prekey()
    peer_bundle = _bundle(peer, peer_prekeys[0], peer_signed)
    users, groups = session_recipients()
    for u in users:
        me.create_session(u, peer_bundle)
    for g in groups:
        me.group_create_skmsg(g)
    peer.create_session(ME, _bundle(me, prekeys[0], signed))
    incoming = {}
    for pt in incoming_plaintexts():
        incoming[pt] = peer.encrypt(ME, pt).serialize()
    group_incoming = _provision_group_traffic(store, prekeys, signed)
    store.identityKeyStore.dbConn.commit()
    store.identityKeyStore.dbConn.close()
    peer_store.identityKeyStore.dbConn.close()
    pk0 = peer_prekeys[0]
    peer_keys = {
        "registration": peer.registration_id,
        "identity": peer.identity.getPublicKey().getPublicKey().getPublicKey(),
        "skey_id": peer_signed.getId(),
        "skey": peer_signed.getKeyPair().getPublicKey().getPublicKey(),
        "skey_sig": peer_signed.getSignature(),
        "key_id": pk0.getId(),
        "key": pk0.getKeyPair().getPublicKey().getPublicKey(),
    }
    _template = {"db": db, "incoming": incoming, "peer_keys": peer_keys, "group_incoming": group_incoming}
    return _template


# ---- incoming GROUP traffic: real ciphertext produced by the library's own send path of a peer -----------------
PEER2, PEER3 = "491700000021", "491700000022"          # outside the value alphabets
PEER2_JID, PEER3_JID = PEER2 + "@s.whatsapp.net", PEER3 + "@s.whatsapp.net"
GROUP_TRAFFIC = {
    # scenario: (sending peer, group jid)
    "first-nosession": (PEER2_JID, PEER2 + "-1500000001@g.us"),   # we have no session with the peer: pkmsg(SKDM)+skmsg
    "first-session":   (PEER3_JID, PEER3 + "-1500000002@g.us"),   # established session: msg(SKDM)+skmsg
    "later":           (PEER3_JID, PEER3 + "-1500000003@g.us"),   # sender key already known: skmsg only
    "unknown-senderkey": (PEER2_JID, PEER2 + "-1500000004@g.us"), # skmsg only, sender key never distributed to us
}
GROUP_PAYLOADS = {"text": ("text", None, "pb:conversation"), "image": ("media", "image", "pb:image")}
GROUP_VECTORS = 6


def _provision_group_traffic(store, prekeys, signed):
    """-> {(scenario, payload kind, vector): [(enc type, mediatype | None, ciphertext bytes), ...]}

    Every stanza is produced by a real AxolotlSendLayer on the peer's manager (sendToGroupWithSessions, exactly
    what the library does after the group info / key fetch steps); what is kept are the <enc> parts as the server
    delivers them to us: our pairwise <enc> taken out of <participants><to jid=us>, next to the skmsg <enc>.
    Our template store (`store`) gets an established session with PEER3 and PEER3's sender key for the "later"
    group, through the same manager calls the receive layer makes."""
    from yowsup.layers.protocol_messages.proto.e2e_pb2 import Message
    me = _SafePadManager(store, ME)
    peers = {}
    for i, (jid, name) in enumerate(((PEER2_JID, PEER2), (PEER3_JID, PEER3))):
        m = _SafePadManager(LiteAxolotlStore(":memory:"), name)
        m.create_session(ME, _bundle(me, prekeys[1 + i], signed))
        layer = AxolotlSendLayer()
        layer._manager = m
        wire = []
        layer.toLower = wire.append
        peers[jid] = (m, layer, wire)

    # established session with PEER3: its first message reaches us, our reply reaches it
    p3 = peers[PEER3_JID][0]
    hello = S.ALPHABETS["pb:conversation"][0]
    assert me.decrypt_pkmsg(PEER3, p3.encrypt(ME, hello).serialize(), True) == hello
    assert p3.decrypt_msg(ME, me.encrypt(PEER3, hello).serialize(), True) == hello

    def send(peer_jid, group, ptype, mediatype, payload, with_skdm):
        m, layer, wire = peers[peer_jid]
        del wire[:]
        proto = ProtocolTreeNode("proto", {"mediatype": mediatype} if mediatype else {}, None, payload)
        plain = ProtocolTreeNode("message", {"to": group, "type": ptype, "id": "peer-%d" % len(out)}, [proto])
        layer.sendToGroupWithSessions(plain, [ME_JID] if with_skdm else [])
        assert len(wire) == 1 and wire[0].tag == "message"
        encs = []
        part = wire[0].getChild("participants")
        for to in (part.getAllChildren() if part is not None else []):
            if to["jid"] == ME_JID:
                encs.extend(to.getAllChildren("enc"))
        encs.extend(wire[0].getAllChildren("enc"))
        return [(e["type"], e["mediatype"], e.getData()) for e in encs]

    out = {}
    # "later": the peer's sender key for that group is already in our store
    later_peer, later_group = GROUP_TRAFFIC["later"]
    skdm = peers[later_peer][0].group_create_skmsg(later_group)
    me.group_create_session(groupid=later_group, participantid=later_peer.split("@")[0], skmsgdata=skdm.serialize())
    # "unknown-senderkey": the peer distributed its key to other members, never to us
    unk_peer, unk_group = GROUP_TRAFFIC["unknown-senderkey"]
    peers[unk_peer][0].group_create_skmsg(unk_group)
    for scenario in ("first-nosession", "first-session", "later", "unknown-senderkey"):
        peer_jid, group = GROUP_TRAFFIC[scenario]
        for pk in ("text", "image"):
            ptype, mediatype, alpha = GROUP_PAYLOADS[pk]
            for v in range(GROUP_VECTORS):
                encs = send(peer_jid, group, ptype, mediatype, S.ALPHABETS[alpha][v % 3], scenario.startswith("first"))
                want = {"first-nosession": ["pkmsg", "skmsg"], "first-session": ["msg", "skmsg"]}.get(scenario, ["skmsg"])
                assert [e[0] for e in encs] == want, (scenario, [e[0] for e in encs])
                out[(scenario, pk, v)] = encs
    for m, layer, wire in peers.values():
        m._store.identityKeyStore.dbConn.close()
    return out


def group_message_for_us(scenario, payload_kind, v, attrs):
    """(stanza as the server delivers it, the plaintext stanza the protocol layers must present)"""
    encs = prepare()["group_incoming"][(scenario, payload_kind, v % GROUP_VECTORS)]
    peer_jid, group = GROUP_TRAFFIC[scenario]
    ptype, mediatype, alpha = GROUP_PAYLOADS[payload_kind]
    attrs = dict(attrs, type=ptype, participant=peer_jid)
    attrs["from"] = group
    kids = []
    for etype, emt, data in encs:
        a = {"type": etype, "v": "2"}
        if emt:
            a["mediatype"] = emt
        kids.append(ProtocolTreeNode("enc", a, None, data))
    stanza = ProtocolTreeNode("message", dict(attrs), kids)
    plain = ProtocolTreeNode("message", dict(attrs), [ProtocolTreeNode(
        "proto", {"mediatype": mediatype} if mediatype else {}, None, S.ALPHABETS[alpha][v % 3])])
    return stanza, plain


FRESH_USER = "491700000009@s.whatsapp.net"            # no session in the template: a send needs a key fetch
FRESH_GROUP = "491700000009-1500000000@g.us"          # no sender key in the template: a send needs the group info


def key_result_node(iq_id, jids):
    """<iq type="result"> answering a key fetch (documented shape of ResultGetKeysIqProtocolEntity), every user
    with the peer's bundle"""
    k = prepare()["peer_keys"]

    def be(n, width):
        return int(n).to_bytes(width, "big")
    users = []
    for jid in jids:
        users.append(ProtocolTreeNode("user", {"jid": jid}, [
            ProtocolTreeNode("registration", {}, None, be(k["registration"], 4)),
            ProtocolTreeNode("type", {}, None, b"\x05"),
            ProtocolTreeNode("identity", {}, None, bytes(k["identity"])),
            ProtocolTreeNode("skey", {}, [ProtocolTreeNode("id", {}, None, be(k["skey_id"], 3)),
                                          ProtocolTreeNode("value", {}, None, bytes(k["skey"])),
                                          ProtocolTreeNode("signature", {}, None, bytes(k["skey_sig"]))]),
            ProtocolTreeNode("key", {}, [ProtocolTreeNode("id", {}, None, be(k["key_id"], 3)),
                                         ProtocolTreeNode("value", {}, None, bytes(k["key"]))]),
        ]))
    return ProtocolTreeNode("iq", {"type": "result", "from": "s.whatsapp.net", "id": iq_id},
                            [ProtocolTreeNode("list", {}, users)])


def group_info_result_node(iq_id, group_jid, participants):
    gid = group_jid.split("@")[0]
    kids = [ProtocolTreeNode("participant", {"jid": j}) for j in participants]
    group = ProtocolTreeNode("group", {"id": gid, "creator": participants[0], "creation": "1415470561",
                                       "subject": "WhatsApp", "s_t": "1415470561", "s_o": participants[0]}, kids)
    return ProtocolTreeNode("iq", {"type": "result", "from": group_jid, "id": iq_id}, [group])


def encrypted_for_us(plaintext):
    """pkmsg ciphertext (bytes) of one of incoming_plaintexts(), from PEER_JID"""
    return prepare()["incoming"][plaintext]


# --------------------------------------------------------------------------------------------------
# the stack
# --------------------------------------------------------------------------------------------------
def where(exc):
    """innermost frame of the library that raised: 'layers/x/layer.py:NN fn'"""
    tb = traceback.extract_tb(exc.__traceback__)
    for fr in reversed(tb):
        if "/yowsup/" in fr.filename:
            return "%s:%d %s" % (fr.filename.split("/yowsup/", 1)[1], fr.lineno, fr.name)
    return None


def brief(exc):
    return ("%s: %s" % (type(exc).__name__, exc))[:300]


class ProtoStack(object):
    """One execution = one fresh stack.  inject(stanza) / send(entity) return the exception that escaped, or None;
    .sent = stanzas seen by the BottomProbe, .got = entities seen by the TopProbe."""

    def __init__(self, cfg):
        patch_clocks()
        env.reset_ids()
        random.seed(20200913)            # YowStack picks an endpoint, AxolotlManager pads: both via the global generator
        self.cfg = cfg
        self._conn = None
        self._dbcopy = None
        manager = None
        if cfg.enc:
            tpl = prepare()
            self._dbcopy = os.path.join(scratch_dir(), "exec-%d.db" % os.getpid())
            shutil.copyfile(tpl["db"], self._dbcopy)
            store = LiteAxolotlStore(self._dbcopy)
            self._conn = store.identityKeyStore.dbConn
            manager = AxolotlManager(store, ME)
        self.manager = manager
        self.bottom, self.top = BottomProbe(), TopProbe()
        layers = (self.bottom,)
        if cfg.enc:
            layers += (AxolotlControlLayer, YowParallelLayer((AxolotlSendLayer, AxolotlReceivelayer)))
        self.protocol_classes = YowStackBuilder.getProtocolLayers(groups=cfg.groups, media=cfg.media,
                                                                  privacy=cfg.privacy, profiles=cfg.profiles)
        layers += (YowParallelLayer(self.protocol_classes), self.top)
        self.stack = YowStack(layers, reversed=False, props={
            "profile": Profile(ME, manager),
            YowIqProtocolLayer.PROP_PING_INTERVAL: 0,          # no ping thread on <success>
        })
        # the layers fetch their manager when the connection comes up
        self.stack.emitEvent(YowLayerEvent(YowNetworkLayer.EVENT_STATE_CONNECTED))
        self.clear()

    # -- observation
    @property
    def sent(self):
        return self.bottom.sent

    @property
    def got(self):
        return self.top.got

    def clear(self):
        del self.bottom.sent[:]
        del self.top.got[:]
        del self.bottom.events[:]
        del self.top.events[:]

    def take(self):
        sent, got = list(self.bottom.sent), list(self.top.got)
        self.clear()
        return sent, got

    # -- stimulation
    def inject(self, node):
        try:
            self.stack.receive(node)
        except Exception as e:
            return e
        return None

    def send(self, entity):
        try:
            self.stack.send(entity)
        except Exception as e:
            return e
        return None

    def layer(self, cls):
        """the live instance of a layer class (for white-box assertions of a harness self-test only)"""
        i = 0
        while True:
            try:
                inst = self.stack.getLayer(i)
            except IndexError:
                return None
            if isinstance(inst, cls):
                return inst
            for s in getattr(inst, "sublayers", ()):
                if isinstance(s, cls):
                    return s
            i += 1

    def close(self):
        if self._conn is not None:
            try:
                self._conn.close()
            except Exception:
                pass
            self._conn = None
        if self._dbcopy:
            for suffix in ("", "-journal", "-wal", "-shm"):
                try:
                    os.unlink(self._dbcopy + suffix)
                except OSError:
                    pass
            self._dbcopy = None

    def __enter__(self):
        return self

    def __exit__(self, *a):
        self.close()
        return False


# --------------------------------------------------------------------------------------------------
# stanza comparison shared by the checks (same judgement calls as C09, see DESIGN Appendix B)
# --------------------------------------------------------------------------------------------------
def _is_default(v):
    if hasattr(v, "ListFields"):
        return all(_is_default(x) for _, x in v.ListFields())
    if hasattr(v, "__len__") and not isinstance(v, (str, bytes)):
        return len(v) == 0
    return v in (0, 0.0, False, "", b"")


def _pb_covers(a, b):
    fa = dict((f.name, v) for f, v in a.ListFields())
    fb = dict((f.name, v) for f, v in b.ListFields())
    for name, v in fa.items():
        if name not in fb:
            if not _is_default(v):
                return False
            continue
        w = fb[name]
        if hasattr(v, "ListFields"):
            if not _pb_covers(v, w):
                return False
        elif v != w:
            return False
    return all(_is_default(w) for name, w in fb.items() if name not in fa)


def proto_equivalent(a, b):
    """<proto> content survives when the bytes are equal or parse to the same e2e Message up to materialised
    protobuf defaults (field mapping of payloads is C10's subject)"""
    if a == b:
        return True
    if not isinstance(a, bytes) or not isinstance(b, bytes):
        return False
    from yowsup.layers.protocol_messages.proto.e2e_pb2 import Message
    try:
        ma, mb = Message(), Message()
        ma.ParseFromString(a)
        mb.ParseFromString(b)
    except Exception:
        return False
    return _pb_covers(ma, mb)


def incoming_diffs(stanza, reserialised, defaults=()):
    """differences between an incoming stanza and the re-serialisation of the entity built from it, with the
    conventions of C09: numeric attributes by value, children per tag in order, documented defaults may be
    written, <proto> bytes up to protobuf defaults"""
    exp = S.apply_defaults(stanza, defaults)
    got = S.apply_defaults(reserialised, defaults)
    out = []
    for d in S.strict_diff(exp, got, numeric=True, group_by_tag=True):
        kind, path, attr, want, have = d
        if kind == "data-altered" and path.endswith("/proto") and proto_equivalent(want, have):
            continue
        out.append(d)
    return out


def outgoing_diffs(expected, observed):
    """strict: same tags, attribute dicts (str values), bytes content, children in the same order"""
    if S.canon(expected) == S.canon(observed):
        return []
    return S.strict_diff(expected, observed, numeric=False, group_by_tag=False) or [("differs", "/", None, None, None)]
