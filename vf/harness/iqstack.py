"""Stanza-level harness for C08 (request/response correlation).

A REAL YowStack

    [BottomProbe, AxolotlControlLayer, YowParallelLayer((AxolotlSendLayer, AxolotlReceivelayer)),
     YowParallelLayer(all protocol layers incl. groups / media / privacy / profiles), App]

(variant "plain": without the three encryption layers) where App is a YowInterfaceLayer subclass that
keeps the real `_sendIq` / `processIqRegistry` / `receive` of yowsup/layers/interface/interface.py and only adds
recording entity callbacks (the "ordinary path" of the application).  The encryption layers get a real
AxolotlManager on a scratch sqlite store (copy of a template provisioned once per process) through a real
YowProfile subclass stored in prop "profile".

Nothing of the library is replaced.  Observation points (all outside the code under test, or collaborators of it):
  * BottomProbe.sent            stanzas leaving the stack
  * App.cb / App.ordinary       request callbacks fired / entities that took the application's ordinary path
  * counting wrappers on the manager *instance* (create_session, set_prekeys_as_sent): the continuations of
    the library-internal requests
  * module-level `logger` of yowsup.layers.axolotl.layer_send rebound to a recorder (error path of key fetch)
  * every iqRegistry dict, read directly from the real layer objects
"""
import os
import atexit
import shutil
import logging
import tempfile
import collections

from vf import env
env.bootstrap()

from yowsup.layers import YowLayer, YowParallelLayer, YowLayerEvent
from yowsup.layers.network import YowNetworkLayer
from yowsup.layers.interface import YowInterfaceLayer, ProtocolEntityCallback
from yowsup.layers.axolotl import AxolotlSendLayer, AxolotlControlLayer, AxolotlReceivelayer
from yowsup.layers.axolotl import layer_send as _layer_send_mod
from yowsup.stacks.yowstack import YowStack, YowStackBuilder
from yowsup.profile.profile import YowProfile
from yowsup.config.v1.config import Config
from yowsup.axolotl.manager import AxolotlManager
from yowsup.axolotl.store.sqlite.liteaxolotlstore import LiteAxolotlStore
from yowsup.structs import ProtocolTreeNode

OWN_PHONE = "4915200000000"
OWN_JID = OWN_PHONE + "@s.whatsapp.net"
COUNT_PREKEYS = 10          # AxolotlManager.COUNT_GEN_PREKEYS lowered by class attribute (>= THRESHOLD_REGEN: no regeneration per connect)


class BottomProbe(YowLayer):
    def __init__(self):
        YowLayer.__init__(self)
        self.sent = []

    def send(self, data):
        self.sent.append(data)

    def receive(self, data):
        self.toUpper(data)


class App(YowInterfaceLayer):
    """The application.  Real _sendIq / processIqRegistry / receive; entity callbacks only record."""

    def __init__(self):
        YowInterfaceLayer.__init__(self)
        self.cb = []              # (rank, "ok"|"err", reply entity, original-request-object-of-the-callback)
        self.ordinary = []        # entities that were NOT consumed by a request callback
        self.retry_next = False   # the next error callback re-sends the original request object (same id)
        self.on_retry = None      # set by the world: called with (entity) when a retry is issued

    @ProtocolEntityCallback("iq")
    def _on_iq(self, e):
        self.ordinary.append(e)

    @ProtocolEntityCallback("message")
    def _on_message(self, e):
        self.ordinary.append(e)

    @ProtocolEntityCallback("notification")
    def _on_notification(self, e):
        self.ordinary.append(e)

    @ProtocolEntityCallback("receipt")
    def _on_receipt(self, e):
        self.ordinary.append(e)

    @ProtocolEntityCallback("ack")
    def _on_ack(self, e):
        self.ordinary.append(e)

    def toUpper(self, e):         # tags without a callback: the top of the stack
        self.ordinary.append(e)

    def request(self, rank, entity):
        """issue a request through the real _sendIq with fresh success / error callbacks"""
        def ok(reply, orig):
            self.cb.append((rank, "ok", reply, orig))

        def err(reply, orig):
            self.cb.append((rank, "err", reply, orig))
            if self.retry_next:
                self.retry_next = False
                self.on_retry(orig)
        self._sendIq(entity, ok, err)


class RecLogger(object):
    """stand-in for the module-level logger of layer_send: records error() calls"""

    def __init__(self):
        self.errors = []

    def error(self, msg, *a, **k):
        self.errors.append(msg)

    def _noop(self, *a, **k):
        pass
    debug = info = warning = warn = exception = critical = _noop


class ScratchProfile(YowProfile):
    """Real YowProfile whose axolotl manager lives on a scratch sqlite file instead of the user config dir."""

    def __init__(self, dbpath):
        YowProfile.__init__(self, OWN_PHONE, config=Config(phone=OWN_PHONE))
        self._dbpath = dbpath

    def _load_axolotl_manager(self):
        return AxolotlManager(LiteAxolotlStore(self._dbpath), self.username)


# ---- scratch management ------------------------------------------------------------------------------
_scratch = {"dir": None, "template": None, "n": 0, "pid": None}


def _cleanup(path, pid):
    if os.getpid() == pid:
        shutil.rmtree(path, ignore_errors=True)


def _sweep_stale(root):
    """remove scratch dirs of runs that were killed (their owner pid, part of the name, no longer exists)"""
    for name in os.listdir(root):
        parts = name.split("-")
        if len(parts) == 3 and parts[0] == "c08" and parts[1].isdigit() and not os.path.exists("/proc/%s" % parts[1]):
            shutil.rmtree(os.path.join(root, name), ignore_errors=True)


def scratch_dir():
    """one scratch dir per process (pool workers make their own; removed by the worker itself at exit or,
    for pool workers that are terminated, by the parent which owns the enclosing directory)"""
    if _scratch["dir"] is None or _scratch["pid"] != os.getpid():
        nested = bool(_scratch["dir"] and os.path.isdir(_scratch["dir"]))
        parent = _scratch["dir"] if nested else env.scratch_root()
        if not nested:
            _sweep_stale(parent)
        d = tempfile.mkdtemp(prefix="c08-%d-" % os.getpid(), dir=parent)
        _scratch["dir"], _scratch["pid"], _scratch["n"] = d, os.getpid(), 0
        atexit.register(_cleanup, d, os.getpid())
    return _scratch["dir"]


def provision():
    """template store: identity, registration id, COUNT_PREKEYS prekeys, a signed prekey.  Done once (in the
    parent, before the pool forks) with the real manager; every build copies the file."""
    if _scratch["template"] and os.path.isfile(_scratch["template"]):
        return _scratch["template"]
    AxolotlManager.COUNT_GEN_PREKEYS = COUNT_PREKEYS
    logging.getLogger("yowsup.axolotl.manager").setLevel(logging.CRITICAL)   # silences its progress print
    path = os.path.join(scratch_dir(), "template.db")
    store = LiteAxolotlStore(path)
    mgr = AxolotlManager(store, OWN_PHONE)
    mgr.level_prekeys()
    mgr.load_latest_signed_prekey(generate=True)
    mgr.set_prekeys_as_sent(mgr.load_unsent_prekeys())      # a provisioned account: the first upload has happened
    store.identityKeyStore.dbConn.commit()
    store.identityKeyStore.dbConn.close()
    _scratch["template"] = path
    return path


_peer = {}


def peer_material():
    """key material of 'the other side' (one bundle serves every peer jid), python-axolotl only"""
    if not _peer:
        from axolotl.util.keyhelper import KeyHelper
        from axolotl.state.prekeybundle import PreKeyBundle
        from axolotl.protocol.whispermessage import WhisperMessage
        from axolotl.ecc.curve import Curve
        ident = KeyHelper.generateIdentityKeyPair()
        reg = KeyHelper.generateRegistrationId()
        prekey = KeyHelper.generatePreKeys(7, 1)[0]
        spk = KeyHelper.generateSignedPreKey(ident, 3)
        _peer["bundle"] = PreKeyBundle(reg, 1, prekey.getId(), prekey.getKeyPair().getPublicKey(), spk.getId(),
                                       spk.getKeyPair().getPublicKey(), spk.getSignature(), ident.getPublicKey())
        ratchet = Curve.generateKeyPair()
        other = KeyHelper.generateIdentityKeyPair()
        wm = WhisperMessage(3, b"\x01" * 32, ratchet.getPublicKey(), 0, 0, b"0123456789abcdef" * 2,
                            ident.getPublicKey(), other.getPublicKey())
        _peer["msg"] = bytes(wm.serialize())
    return _peer


def protocol_layers():
    return YowStackBuilder.getProtocolLayers(groups=True, media=True, privacy=True, profiles=True)


_live = collections.deque()


class Rig(object):
    """one freshly built stack"""

    def __init__(self, encryption=True):
        env.fix_clock()
        env.reset_ids()
        self.encryption = encryption
        self.dbpath = None
        self.manager = None
        self.counts = collections.Counter()
        self.sessions_created = []
        self.loglayer = RecLogger()
        layers = [BottomProbe]
        if encryption:
            layers += [AxolotlControlLayer, YowParallelLayer((AxolotlSendLayer, AxolotlReceivelayer))]
        layers += [YowParallelLayer(protocol_layers()), App]
        props = {}
        if encryption:
            template = provision()
            d = scratch_dir()
            _scratch["n"] += 1
            self.dbpath = os.path.join(d, "s%d.db" % _scratch["n"])
            shutil.copyfile(template, self.dbpath)
            self.profile = ScratchProfile(self.dbpath)
        else:
            self.profile = YowProfile(OWN_PHONE, config=Config(phone=OWN_PHONE))
        props["profile"] = self.profile
        self.stack = YowStack(tuple(layers), reversed=False, props=props)
        n = len(layers)
        self.bottom = self.stack.getLayer(0)
        self.app = self.stack.getLayer(n - 1)
        self.proto = self.stack.getLayer(n - 2)
        self.ctl = self.send = self.recv = None
        if encryption:
            self.ctl = self.stack.getLayer(1)
            self.send, self.recv = self.stack.getLayer(2).sublayers
            _layer_send_mod.logger = self.loglayer
            # connected: the encryption layers fetch the manager from the profile
            self.stack.emitEvent(YowLayerEvent(YowNetworkLayer.EVENT_STATE_CONNECTED))
            self.manager = self.profile.axolotl_manager
            self._wrap_manager()
        _live.append(self)
        while len(_live) > 4:        # the BFS engine holds at most the expanded state and one successor
            _live.popleft().close()

    def _wrap_manager(self):
        mgr = self.manager
        real_create, real_sent = mgr.create_session, mgr.set_prekeys_as_sent

        def create_session(username, bundle, autotrust=False):
            self.sessions_created.append(username)
            return real_create(username, bundle, autotrust=autotrust)

        def set_prekeys_as_sent(prekeys):
            self.counts["set_prekeys_as_sent"] += 1
            return real_sent(prekeys)
        mgr.create_session = create_session
        mgr.set_prekeys_as_sent = set_prekeys_as_sent

    def registries(self):
        """[(label, the real iqRegistry dict)] of every layer that has one"""
        out = [("App", self.app.iqRegistry)]
        for s in self.proto.sublayers:
            out.append((type(s).__name__, s.iqRegistry))
        if self.encryption:
            out += [("AxolotlControlLayer", self.ctl.iqRegistry), ("AxolotlSendLayer", self.send.iqRegistry),
                    ("AxolotlReceivelayer", self.recv.iqRegistry)]
        return out

    def close(self):
        if self.manager is not None:
            try:
                self.manager._store.identityKeyStore.dbConn.close()
            except Exception:
                pass
            self.manager = None
        if self.dbpath:
            try:
                os.unlink(self.dbpath)
            except OSError:
                pass
            self.dbpath = None


def close_all():
    while _live:
        _live.popleft().close()
