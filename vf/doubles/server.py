"""Stanza-level WhatsApp server double: accounts, key directory, group directory, router, fault injector.

It never looks inside ciphertext except to corrupt it, keeps per-client FIFO queues in both directions (TCP order
per direction is preserved, everything else is a scheduling choice of the explorer) and records every stanza that
crosses a client's bottom.
"""
import copy
import collections

from yowsup.structs.protocoltreenode import ProtocolTreeNode

SERVER = "s.whatsapp.net"


def clone(node):
    return ProtocolTreeNode(node.tag, dict(node.attributes), [clone(c) for c in node.children],
                            bytes(node.data) if node.data is not None else None)


def jid_of(phone):
    return "%s@%s" % (phone, SERVER)


class Directory(object):
    """Key directory fed only by the clients' own uploads."""

    def __init__(self):
        self.accounts = {}      # jid -> dict(identity, registration, type, skey=(id,value,sig), prekeys=OrderedDict id->value)
        self.confirmed = {}     # jid -> list of prekey ids whose upload the server confirmed (in order)
        self.handed_out = {}    # jid -> list of prekey ids handed to peers
        self.handed_out_values = {}   # jid -> {id: value} of the keys handed to peers
        self.groups = {}        # gjid -> dict(subject, creator, participants=[jids])

    def upload(self, jid, node):
        acc = self.accounts.setdefault(jid, {"prekeys": collections.OrderedDict()})
        acc["identity"] = node.getChild("identity").data
        acc["registration"] = node.getChild("registration").data
        acc["type"] = node.getChild("type").data
        sk = node.getChild("skey")
        acc["skey"] = (sk.getChild("id").data, sk.getChild("value").data, sk.getChild("signature").data)
        ids = []
        gone = self.handed_out_values.setdefault(jid, {})
        for k in node.getChild("list").getAllChildren():
            kid = k.getChild("id").data
            ids.append(kid)
            if gone.get(kid) == k.getChild("value").data:
                continue        # this very key was handed to a peer already (its first upload got through although the
                                # client never saw the confirmation): a one-time key is handed out once
            acc["prekeys"][kid] = k.getChild("value").data
        self.confirmed.setdefault(jid, []).extend(ids)
        return ids

    def bundle_node(self, jid):
        acc = self.accounts.get(jid)
        user = ProtocolTreeNode("user", {"jid": jid})
        if acc is None:
            return None
        user.addChild(ProtocolTreeNode("registration", data=acc["registration"]))
        user.addChild(ProtocolTreeNode("type", data=acc["type"]))
        user.addChild(ProtocolTreeNode("identity", data=acc["identity"]))
        sid, sval, ssig = acc["skey"]
        user.addChild(ProtocolTreeNode("skey", children=[ProtocolTreeNode("id", data=sid), ProtocolTreeNode("value", data=sval),
                                                         ProtocolTreeNode("signature", data=ssig)]))
        if acc["prekeys"]:
            kid, kval = acc["prekeys"].popitem(last=False)      # each one-time prekey is handed out once
            self.handed_out.setdefault(jid, []).append(kid)
            self.handed_out_values.setdefault(jid, {})[kid] = kval
            user.addChild(ProtocolTreeNode("key", children=[ProtocolTreeNode("id", data=kid), ProtocolTreeNode("value", data=kval)]))
        return user


class Server(object):
    def __init__(self):
        self.dir = Directory()
        self.clients = {}          # jid -> client endpoint (set by the world)
        self.inbox = {}            # jid -> deque of stanzas client -> server, not yet processed
        self.outbox = {}           # jid -> deque of stanzas server -> client, not yet delivered
        self.seq = 0               # global enqueue counter (default schedule = global FIFO)
        self.wire = {}             # jid -> list of every stanza that left the client (for the plaintext oracle)
        self.delivered = {}        # jid -> list of stanzas delivered to the client
        self.now = 1600001000
        self.connected = set()
        self.log = []
        self.upload_reply = "result"   # what to answer to the next key upload: result | error | drop
        self.low_water = 0             # send <notification type=encrypt><count> when fewer prekeys remain
        self.nid = 0

    # ------------------------------------------------------------------ plumbing
    def attach(self, jid):
        self.inbox.setdefault(jid, collections.deque())
        self.outbox.setdefault(jid, collections.deque())
        self.wire.setdefault(jid, [])
        self.delivered.setdefault(jid, [])

    def from_client(self, jid, node):
        self.seq += 1
        self.wire[jid].append(clone(node))
        self.inbox[jid].append((self.seq, clone(node)))

    def to_client(self, jid, node):
        if jid not in self.outbox:
            self.attach(jid)
        self.seq += 1
        self.outbox[jid].append((self.seq, node))

    def on_connect(self, jid, passive):
        self.connected.add(jid)
        # a new TCP connection: whatever was queued for the old one is gone
        self.inbox[jid].clear()
        # the login answer precedes anything stored for the client while it was offline
        self.seq += 1
        self.outbox[jid].appendleft((self.outbox[jid][0][0] - 0.5 if self.outbox[jid] else self.seq,
                                     ProtocolTreeNode("success", {"creation": "1500000000", "props": "4", "t": str(self.now), "location": "frc"})))

    def on_disconnect(self, jid):
        self.connected.discard(jid)
        self.inbox[jid].clear()
        # undelivered stanzas stay queued server side (offline storage): they are delivered after the next login
        keep = collections.deque(x for x in self.outbox[jid] if x[1].tag in ("message", "receipt"))
        self.outbox[jid] = keep

    # ------------------------------------------------------------------ schedulable steps
    def steps(self):
        """Enabled server steps: ('in', jid) process the head of a client's inbox, ('out', jid) deliver the head of its outbox."""
        out = []
        for jid in sorted(self.inbox):
            if self.inbox[jid]:
                out.append((self.inbox[jid][0][0], ("in", jid)))
        for jid in sorted(self.outbox):
            if self.outbox[jid] and jid in self.connected:
                out.append((self.outbox[jid][0][0], ("out", jid)))
        out.sort()
        return [s for _, s in out]

    def do(self, step):
        kind, jid = step
        if kind == "in":
            _, node = self.inbox[jid].popleft()
            self.process(jid, node)
        else:
            _, node = self.outbox[jid].popleft()
            self.deliver(jid, node)

    def deliver(self, jid, node):
        self.delivered[jid].append(node)
        self.clients[jid].receive(clone(node))

    # ------------------------------------------------------------------ protocol
    def tick(self):
        self.now += 1
        return str(self.now)

    def process(self, jid, node):
        tag = node.tag
        if tag == "iq":
            return self.on_iq(jid, node)
        if tag == "message":
            return self.on_message(jid, node)
        if tag == "receipt":
            return self.on_receipt(jid, node)
        # acks, presence, chatstate ...: nothing to do
        self.log.append(("ignored", jid, tag))

    def on_iq(self, jid, node):
        xmlns, typ = node["xmlns"], node["type"]
        if xmlns == "encrypt" and typ == "set":
            mode = self.upload_reply
            self.upload_reply = "result"
            if mode == "drop":
                self.log.append(("upload-dropped", jid, node["id"]))
                return
            if mode == "error":
                self.to_client(jid, ProtocolTreeNode("iq", {"type": "error", "id": node["id"], "from": SERVER},
                                                     [ProtocolTreeNode("error", {"code": "500", "text": "internal-server-error"})]))
                return
            ids = self.dir.upload(jid, node)
            self.log.append(("upload", jid, ids))
            self.to_client(jid, ProtocolTreeNode("iq", {"type": "result", "id": node["id"], "from": SERVER}))
            return
        if xmlns == "encrypt" and typ == "get":
            lst = ProtocolTreeNode("list")
            for u in node.getChild("key").getAllChildren("user"):
                b = self.dir.bundle_node(u["jid"])
                if b is not None:
                    lst.addChild(b)
                    acc = self.dir.accounts[u["jid"]]
                    if self.low_water and len(acc["prekeys"]) < self.low_water and u["jid"] in self.connected:
                        self.nid += 1
                        self.to_client(u["jid"], ProtocolTreeNode("notification", {"type": "encrypt", "id": "kc%d" % self.nid, "from": SERVER, "t": self.tick()},
                                                                  [ProtocolTreeNode("count", {"value": str(len(acc["prekeys"]))})]))
            self.to_client(jid, ProtocolTreeNode("iq", {"type": "result", "id": node["id"], "from": SERVER}, [lst]))
            return
        if xmlns == "w:g2" and typ == "get" and node.getChild("query") is not None:
            g = self.dir.groups.get(node["to"])
            if g is None:
                self.to_client(jid, ProtocolTreeNode("iq", {"type": "error", "id": node["id"], "from": node["to"]},
                                                     [ProtocolTreeNode("error", {"code": "404", "text": "item-not-found"})]))
                return
            grp = ProtocolTreeNode("group", {"subject": g["subject"], "creation": "1500000001", "creator": g["creator"],
                                             "s_t": "1500000002", "s_o": g["creator"], "id": node["to"].split("@")[0]})
            for p in g["participants"]:
                attrs = {"jid": p}
                if p == g["creator"]:
                    attrs["type"] = "admin"
                grp.addChild(ProtocolTreeNode("participant", attrs))
            self.to_client(jid, ProtocolTreeNode("iq", {"type": "result", "id": node["id"], "from": node["to"]}, [grp]))
            return
        if xmlns == "w:p":
            self.to_client(jid, ProtocolTreeNode("iq", {"type": "result", "id": node["id"], "from": SERVER}))
            return
        self.log.append(("iq-ignored", jid, xmlns, typ))

    def _envelope(self, node, frm, participant=None):
        attrs = {"from": frm, "id": node["id"], "t": self.tick(), "type": node["type"], "notify": "n-" + (participant or frm).split("@")[0]}
        if participant:
            attrs["participant"] = participant
        return attrs

    def on_message(self, jid, node):
        to = node["to"]
        self.to_client(jid, ProtocolTreeNode("ack", {"id": node["id"], "class": "message", "from": to, "t": self.tick()}))
        if "-" in to.split("@")[0]:
            g = self.dir.groups.get(to)
            if g is None:
                return
            direct = node["participant"]
            if direct:
                # retry answer directed at one participant
                encs = [clone(c) for c in node.getAllChildren("enc")]
                self.to_client(direct, ProtocolTreeNode("message", self._envelope(node, to, jid), encs))
                return
            per = {}
            parts = node.getChild("participants")
            if parts is not None:
                for t in parts.getAllChildren("to"):
                    per[t["jid"]] = [clone(c) for c in t.getAllChildren("enc")]
            common = [clone(c) for c in node.getAllChildren("enc")]
            for member in g["participants"]:
                if member == jid:
                    continue
                encs = per.get(member, []) + [clone(c) for c in common]
                if encs:
                    self.to_client(member, ProtocolTreeNode("message", self._envelope(node, to, jid), encs))
            return
        children = [clone(c) for c in node.children]
        self.to_client(to, ProtocolTreeNode("message", self._envelope(node, jid), children))

    def on_receipt(self, jid, node):
        to = node["to"]
        ack_attrs = {"id": node["id"], "class": "receipt", "from": to, "t": self.tick()}
        if node["type"]:
            ack_attrs["type"] = node["type"]
        if node["participant"]:
            ack_attrs["participant"] = node["participant"]
        self.to_client(jid, ProtocolTreeNode("ack", ack_attrs))
        if to is None:
            return
        attrs = {"id": node["id"], "t": self.tick()}
        if node["type"]:
            attrs["type"] = node["type"]
        if "-" in to.split("@")[0]:
            # receipt for a group message: goes to the author named in participant, who sees the group + the receiver
            author = node["participant"]
            attrs["from"] = to
            attrs["participant"] = jid
            dest = author
        else:
            attrs["from"] = jid
            dest = to
        if dest is None:
            return
        self.to_client(dest, ProtocolTreeNode("receipt", attrs, [clone(c) for c in node.children]))

    # ------------------------------------------------------------------ faults
    def duplicate_last_message(self, jid):
        """Deliver the most recently delivered <message> of this client once more."""
        for n in reversed(self.delivered[jid]):
            if n.tag == "message":
                self.deliver(jid, n)
                return True
        return False

    def corrupt_head(self, jid):
        """Flip one byte of the first enc payload of the message at the head of the client's outbox."""
        if not self.outbox[jid]:
            return False
        seq, n = self.outbox[jid][0]
        if n.tag != "message":
            return False
        good = clone(n)
        for c in n.children:
            if c.tag == "enc" and c.data:
                b = bytearray(c.data)
                b[len(b) // 2] ^= 0x20
                c.data = bytes(b)
                return True
        return False
