"""Noise responder double (WhatsApp XX / IK / XXfallback) built on dissononce.

Byte-level peer of the client's segments+noise layers: `feed(data)` consumes the
client's byte stream (edge header + routing info, prologue, 3-byte length
prefixed segments) and returns the bytes the server writes in response.  After
the handshake it is a *strict in-order transport peer*: it decrypts every frame
in arrival order with its own nonce counter and records any failure.
"""
import struct

from dissononce.processing.impl.handshakestate import HandshakeState
from dissononce.processing.impl.symmetricstate import SymmetricState
from dissononce.processing.impl.cipherstate import CipherState
from dissononce.processing.handshakepatterns.interactive.IK import IKHandshakePattern
from dissononce.processing.handshakepatterns.interactive.XX import XXHandshakePattern
from dissononce.processing.modifiers.fallback import FallbackPatternModifier
from dissononce.cipher.aesgcm import AESGCMCipher
from dissononce.hash.sha256 import SHA256Hash
from dissononce.dh.x25519.x25519 import X25519DH
from dissononce.dh.x25519.public import PublicKey
from dissononce.dh.private import PrivateKey
from dissononce.dh.keypair import KeyPair
from dissononce.extras.dh.dangerous.dh_nogen import NoGenDH
from dissononce.exceptions.decrypt import DecryptFailedException

from consonance.proto import wa20_pb2

PROLOGUE = b"WA\x04\x00"
EDGE = b"ED\x00\x01"


class WASym(SymmetricState):
    """WhatsApp quirk: no mix_hash of the ciphertext while the cipherstate has no key."""

    def encrypt_and_hash(self, plaintext):
        ciphertext = self._cipherstate.encrypt_with_ad(self._h, plaintext)
        if self._cipherstate.has_key():
            self.mix_hash(ciphertext)
        return ciphertext

    def decrypt_and_hash(self, ciphertext):
        plaintext = self._cipherstate.decrypt_with_ad(self._h, ciphertext)
        if self._cipherstate.has_key():
            self.mix_hash(ciphertext)
        return plaintext


def fixed_keypair(seed_byte):
    """Deterministic X25519 key pair from a seed byte."""
    priv = bytes([seed_byte]) * 32
    return X25519DH().generate_keypair(PrivateKey(priv))


def _certificate(static_pub):
    d = wa20_pb2.NoiseCertificate.Details()
    d.serial = 1
    d.issuer = "WhatsAppLongTerm1"
    d.subject = "vf-double"
    d.key = static_pub
    c = wa20_pb2.NoiseCertificate()
    c.details = d.SerializeToString()
    c.signature = b"\x00" * 64
    return c.SerializeToString()


def frame(payload):
    return struct.pack(">I", len(payload))[1:] + payload


class NoiseResponder(object):
    def __init__(self, static, ephemeral_seed=0x55, corrupt_hello=False, expect_edge=None):
        self.static = static                     # dissononce KeyPair
        self.ephemeral_seed = ephemeral_seed
        self.corrupt_hello = corrupt_hello       # flip one byte of the server hello payload (authentication failure)
        self.expect_edge = expect_edge           # None = either; bytes = routing info that must be presented
        self.buf = bytearray()
        self.phase = "header"                    # header -> hello -> finish -> transport / failed
        self.variant = None                      # XX / IK / XXfallback
        self.hs = None
        self.send_cs = None
        self.recv_cs = None
        self.client_payload = None               # parsed wa20 ClientPayload
        self.client_static = None
        self.edge_info = None
        self.errors = []
        self.received = []                       # decrypted client frames, in arrival order
        self.frames_seen = 0

    # -- helpers
    def _new_hs(self):
        dh = NoGenDH(X25519DH(), PrivateKey(bytes([self.ephemeral_seed]) * 32))
        return HandshakeState(WASym(CipherState(AESGCMCipher()), SHA256Hash()), dh)

    def _take_frame(self):
        if len(self.buf) < 3:
            return None
        n = (self.buf[0] << 16) | (self.buf[1] << 8) | self.buf[2]
        if len(self.buf) < 3 + n:
            return None
        f = bytes(self.buf[3:3 + n])
        del self.buf[:3 + n]
        return f

    # -- main entry
    def feed(self, data):
        """Consume client bytes; return the list of byte strings the server writes (whole frames)."""
        self.buf.extend(data)
        out = []
        while True:
            if self.phase == "header":
                if len(self.buf) < 4:
                    break
                if bytes(self.buf[:4]) == EDGE:
                    if len(self.buf) < 7:
                        break
                    n = (self.buf[4] << 16) | (self.buf[5] << 8) | self.buf[6]
                    if len(self.buf) < 7 + n:
                        break
                    self.edge_info = bytes(self.buf[7:7 + n])
                    del self.buf[:7 + n]
                    continue
                if bytes(self.buf[:4]) != PROLOGUE:
                    self.errors.append("bad prologue %r" % bytes(self.buf[:8]))
                    self.phase = "failed"
                    break
                del self.buf[:4]
                if self.expect_edge is not None and self.edge_info != self.expect_edge:
                    self.errors.append("edge routing info %r != configured %r" % (self.edge_info, self.expect_edge))
                self.phase = "hello"
                continue
            if self.phase == "failed":
                break
            f = self._take_frame()
            if f is None:
                break
            self.frames_seen += 1
            try:
                if self.phase == "hello":
                    out.extend(self._on_client_hello(f))
                elif self.phase == "finish":
                    self._on_client_finish(f)
                elif self.phase == "transport":
                    self._on_transport(f)
            except Exception as e:     # responder-side failure = evidence against the client stream
                self.errors.append("%s in phase %s: %s: %s" % (type(e).__name__, self.phase, e, f[:16].hex()))
                self.phase = "failed"
        return out

    def _on_client_hello(self, f):
        m = wa20_pb2.HandshakeMessage()
        m.ParseFromString(f)
        if not m.HasField("client_hello"):
            raise ValueError("expected client_hello")
        ch = m.client_hello
        cert = _certificate(self.static.public.data)
        sh = wa20_pb2.HandshakeMessage.ServerHello()
        if ch.HasField("static") and len(ch.static):
            # IK attempt
            hs = self._new_hs()
            hs.initialize(IKHandshakePattern(), False, PROLOGUE, s=self.static)
            buf = bytearray()
            try:
                hs.read_message(ch.ephemeral + ch.static + ch.payload, buf)
                ok = True
            except DecryptFailedException:
                ok = False
            if ok:
                self.variant = "IK"
                self._set_client_payload(bytes(buf), hs)
                outb = bytearray()
                pair = hs.write_message(b"", outb)
                e, payload = bytes(outb[:32]), bytes(outb[32:])
                sh.ephemeral = e
                sh.payload = self._maybe_corrupt(payload)
                self.hs = hs
                self._split(pair)
                self.phase = "transport"
            else:
                self.variant = "XXfallback"
                hs = self._new_hs()
                pat = FallbackPatternModifier().modify(XXHandshakePattern())
                hs.initialize(pat, False, PROLOGUE, s=self.static, re=PublicKey(ch.ephemeral))
                outb = bytearray()
                hs.write_message(cert, outb)
                sh.ephemeral = bytes(outb[:32])
                sh.static = bytes(outb[32:80])
                sh.payload = self._maybe_corrupt(bytes(outb[80:]))
                self.hs = hs
                self.phase = "finish"
        else:
            self.variant = "XX"
            hs = self._new_hs()
            hs.initialize(XXHandshakePattern(), False, PROLOGUE, s=self.static)
            hs.read_message(ch.ephemeral, bytearray())
            outb = bytearray()
            hs.write_message(cert, outb)
            sh.ephemeral = bytes(outb[:32])
            sh.static = bytes(outb[32:80])
            sh.payload = self._maybe_corrupt(bytes(outb[80:]))
            self.hs = hs
            self.phase = "finish"
        r = wa20_pb2.HandshakeMessage()
        r.server_hello.MergeFrom(sh)
        return [frame(r.SerializeToString())]

    def _maybe_corrupt(self, payload):
        if self.corrupt_hello and payload:
            b = bytearray(payload)
            b[len(b) // 2] ^= 0x01
            return bytes(b)
        return payload

    def _on_client_finish(self, f):
        m = wa20_pb2.HandshakeMessage()
        m.ParseFromString(f)
        if not m.HasField("client_finish"):
            raise ValueError("expected client_finish")
        buf = bytearray()
        pair = self.hs.read_message(m.client_finish.static + m.client_finish.payload, buf)
        self._set_client_payload(bytes(buf), self.hs)
        self._split(pair)
        self.phase = "transport"

    def _set_client_payload(self, data, hs):
        p = wa20_pb2.ClientPayload()
        p.ParseFromString(data)
        self.client_payload = p
        self.client_static = bytes(hs.rs.data) if hs.rs is not None else None

    def _split(self, pair):
        if pair is None:
            raise ValueError("handshake did not produce cipherstates")
        self.recv_cs, self.send_cs = pair[0], pair[1]

    def _on_transport(self, f):
        self.received.append(bytes(self.recv_cs.decrypt_with_ad(b"", f)))

    def send(self, plaintext):
        """Encrypt one server frame (uses and advances the server's nonce counter)."""
        return frame(bytes(self.send_cs.encrypt_with_ad(b"", plaintext)))
