"""Reference model of yowsup message payloads (property C10; reused by the end-to-end check).

Everything here is written from the e2e.proto descriptor and from the public
constructor signatures of the attribute classes - NOT from converter.py:

* FIELD TABLES: which attribute of which attribute class corresponds to which
  field of which protobuf message, its value kind and whether the attribute
  class allows leaving it unset (None).
* VALUE ALPHABETS: three values per field kind, ordered simplest-first.
* SPECS: a JSON-able description of one message content
      {"kind": K, "vals": {field: alphabet index}, "ctx": CTX or None}
      CTX = {"vals": {field: alphabet index}, "quoted": SPEC or None}
  from which three things are derived independently of each other:
      build_attrs(spec)    -> real MessageAttributes object (what an application composes)
      build_proto(spec)    -> e2e_pb2.Message filled field by field (what a peer sends)
      expected_tree(spec)  -> nested dict of exactly the fields that were SET
* OBSERVERS: attrs_tree(MessageAttributes) and proto_tree(Message) read real
  objects back into the same nested-dict form; tree_missing / proto_diff compare.

Public helpers for other checks: KINDS, gen_specs(kind, level), gen_message_attributes(kind, level), input_raises,
build_attrs, expected_tree, attrs_tree, tree_missing; field_ids / with_field / field_value / locate for
single-field modifications.
"""
import itertools

from vf import env
env.bootstrap()

from yowsup.layers.protocol_messages.proto import e2e_pb2
from yowsup.layers.protocol_messages.protocolentities.attributes.attributes_message import MessageAttributes
from yowsup.layers.protocol_messages.protocolentities.attributes.attributes_image import ImageAttributes
from yowsup.layers.protocol_messages.protocolentities.attributes.attributes_video import VideoAttributes
from yowsup.layers.protocol_messages.protocolentities.attributes.attributes_audio import AudioAttributes
from yowsup.layers.protocol_messages.protocolentities.attributes.attributes_document import DocumentAttributes
from yowsup.layers.protocol_messages.protocolentities.attributes.attributes_sticker import StickerAttributes
from yowsup.layers.protocol_messages.protocolentities.attributes.attributes_location import LocationAttributes
from yowsup.layers.protocol_messages.protocolentities.attributes.attributes_contact import ContactAttributes
from yowsup.layers.protocol_messages.protocolentities.attributes.attributes_extendedtext import ExtendedTextAttributes
from yowsup.layers.protocol_messages.protocolentities.attributes.attributes_context_info import ContextInfoAttributes
from yowsup.layers.protocol_messages.protocolentities.attributes.attributes_downloadablemedia import \
    DownloadableMediaMessageAttributes
from yowsup.layers.protocol_messages.protocolentities.attributes.attributes_protocol import ProtocolAttributes
from yowsup.layers.protocol_messages.protocolentities.attributes.attributes_message_key import MessageKeyAttributes
from yowsup.layers.protocol_messages.protocolentities.attributes.attributes_sender_key_distribution_message import \
    SenderKeyDistributionMessageAttributes

# ----------------------------------------------------------------------------------------------
# value kinds and alphabets
# ----------------------------------------------------------------------------------------------
STR, BYT, U32, U64, F64, F32, BOOL, ENUM3, ENUM1, JIDS = "str", "bytes", "u32", "u64", "f64", "f32", "bool", \
    "enum3", "enum1", "jids"

BLOB = bytes(range(256))          # every byte value, including NUL and 0xff


def value(kind, tag, idx):
    """idx-th value (0..2, simplest first) of the alphabet of `kind`; `tag` makes text/blob values
    field-specific so that a value landing in the wrong field is visible."""
    idx %= 3
    if kind == STR:
        return (tag + "-ascii", "", tag + ":ü✓ש中\U0001F600")[idx]
    if kind == BYT:
        return (b"\xff\xd8\xff\xe0" + tag.encode("ascii"), b"", BLOB + tag.encode("ascii"))[idx]
    if kind in (U32, U64):
        return (1, 0, 2 ** 31 - 1)[idx]
    if kind == F64:
        # negative / zero / many significant digits (doubles travel as 8 bytes: exact)
        return (-33.8688197, 0.0, 151.20929550000005)[idx]
    if kind == F32:
        # the wire carries 4-byte floats: use values that are exactly representable
        return (1.5, 0.0, -2.25)[idx]
    if kind == BOOL:
        return (True, False, True)[idx]
    if kind == ENUM3:
        return (1, 0, 2)[idx]
    if kind == ENUM1:
        return 0
    if kind == JIDS:
        return (["4915100000001@s.whatsapp.net"],
                [],
                ["4915100000001@s.whatsapp.net", "ü@s.whatsapp.net", "", "4915100000001@s.whatsapp.net"])[idx]
    raise ValueError(kind)


# Extra boundary values used by the thorough tier (index 3): still valid for the proto field type.
def extreme(kind, tag):
    if kind == U32:
        return 2 ** 32 - 1
    if kind == U64:
        return 2 ** 64 - 1
    if kind == F64:
        return -1.7976931348623157e308
    if kind == F32:
        return -3.4028234663852886e38      # -FLT_MAX, exactly representable
    if kind == STR:
        return tag + "\x00nul\n" + "x" * 300
    if kind == BYT:
        return b"\x00" * 3 + BLOB * 5
    return value(kind, tag, 2)


def is_default(kind, v):
    return v in ("", b"", 0, 0.0, False) or v == []


# ----------------------------------------------------------------------------------------------
# field tables  (attribute name == proto field name everywhere in this library; checked at import)
# ----------------------------------------------------------------------------------------------
class F(object):
    __slots__ = ("name", "kind", "optional")

    def __init__(self, name, kind, optional):
        self.name, self.kind, self.optional = name, kind, optional


REQ, OPT = False, True

# downloadable-media base fields (DownloadableMediaMessageAttributes): live in the same proto message as the class fields
DM_FIELDS = [F("mimetype", STR, REQ), F("file_length", U64, REQ), F("file_sha256", BYT, REQ),
             F("url", STR, OPT), F("media_key", BYT, OPT)]

CTX_FIELDS = [F("stanza_id", STR, OPT), F("participant", STR, OPT), F("remote_jid", STR, OPT),
              F("mentioned_jid", JIDS, OPT), F("edit_version", U32, OPT), F("revoke_message", BOOL, OPT)]

KEY_FIELDS = [F("remote_jid", STR, REQ), F("from_me", BOOL, REQ), F("id", STR, REQ), F("participant", STR, OPT)]


class Cls(object):
    def __init__(self, kind, slot, proto_slot, proto_cls, fields, dm=False, ctx=False):
        self.kind = kind              # our name of the attribute class
        self.slot = slot              # property of MessageAttributes
        self.proto_slot = proto_slot  # field of e2e_pb2.Message
        self.proto_cls = proto_cls
        self.fields = fields
        self.dm = dm                  # has downloadable-media base fields (and context info inside them)
        self.ctx = ctx or dm          # can carry a ContextInfo

    def all_fields(self):
        """(name-in-spec, F) for every scalar field, base fields first ('dm.' prefix)."""
        out = []
        if self.dm:
            out += [("dm." + f.name, f) for f in DM_FIELDS]
        out += [(f.name, f) for f in self.fields]
        return out

    def optional_names(self):
        return [n for n, f in self.all_fields() if f.optional]

    def required_names(self):
        return [n for n, f in self.all_fields() if not f.optional]


M = e2e_pb2.Message
CLASSES = dict((c.kind, c) for c in [
    Cls("extended_text", "extended_text", "extended_text_message", M.ExtendedTextMessage, [
        F("text", STR, OPT), F("matched_text", STR, OPT), F("canonical_url", STR, OPT),
        F("description", STR, OPT), F("title", STR, OPT), F("jpeg_thumbnail", BYT, OPT)], ctx=True),
    Cls("image", "image", "image_message", M.ImageMessage, [
        F("width", U32, REQ), F("height", U32, REQ), F("caption", STR, OPT), F("jpeg_thumbnail", BYT, OPT)], dm=True),
    Cls("video", "video", "video_message", M.VideoMessage, [
        F("width", U32, OPT), F("height", U32, OPT), F("seconds", U32, OPT), F("gif_playback", BOOL, OPT),
        F("jpeg_thumbnail", BYT, OPT), F("gif_attribution", ENUM3, OPT), F("caption", STR, OPT),
        F("streaming_sidecar", BYT, OPT)], dm=True),
    Cls("audio", "audio", "audio_message", M.AudioMessage, [
        F("seconds", U32, OPT), F("ptt", BOOL, OPT), F("streaming_sidecar", BYT, OPT)], dm=True),
    Cls("document", "document", "document_message", M.DocumentMessage, [
        F("file_name", STR, OPT), F("file_length", U64, OPT), F("title", STR, OPT), F("page_count", U32, OPT),
        F("jpeg_thumbnail", BYT, OPT)], dm=True),
    Cls("sticker", "sticker", "sticker_message", M.StickerMessage, [
        F("width", U32, OPT), F("height", U32, OPT), F("png_thumbnail", BYT, OPT)], dm=True),
    Cls("location", "location", "location_message", M.LocationMessage, [
        F("degrees_latitude", F64, OPT), F("degrees_longitude", F64, OPT), F("name", STR, OPT),
        F("address", STR, OPT), F("url", STR, OPT), F("duration", F32, OPT), F("accuracy_in_meters", U32, OPT),
        F("speed_in_mps", F32, OPT), F("degrees_clockwise_from_magnetic_north", U32, OPT),
        F("axolotl_sender_key_distribution_message", BYT, OPT), F("jpeg_thumbnail", BYT, OPT)]),
    Cls("contact", "contact", "contact_message", M.ContactMessage, [
        F("display_name", STR, REQ), F("vcard", BYT, REQ)], ctx=True),
    Cls("skdm", "sender_key_distribution_message", "sender_key_distribution_message", M.SenderKeyDistributionMessage, [
        F("group_id", STR, REQ), F("axolotl_sender_key_distribution_message", BYT, REQ)]),
    # protocol (revoke): fields of the nested MessageKey are spelt "key.<name>"
    Cls("protocol", "protocol", "protocol_message", M.ProtocolMessage,
        [F("key." + f.name, f.kind, f.optional) for f in KEY_FIELDS] + [F("type", ENUM1, REQ)]),
])
TEXT = "text"
KINDS = (TEXT, "extended_text", "image", "video", "audio", "document", "sticker", "location", "contact",
         "protocol", "skdm")
CTX_HOSTS = tuple(k for k in KINDS if k != TEXT and CLASSES[k].ctx)

# self-check of the tables against the descriptor: every tabled field exists in its proto message with a matching type
_PT = {STR: 9, BYT: 12, U32: 13, U64: 4, F64: 1, F32: 2, BOOL: 8, ENUM3: 14, ENUM1: 14, JIDS: 9}


def _selfcheck():
    for c in CLASSES.values():
        d = c.proto_cls.DESCRIPTOR.fields_by_name
        for n, f in c.all_fields():
            pn = n[3:] if n.startswith("dm.") else n
            if pn.startswith("key."):
                fd = d["key"].message_type.fields_by_name[pn[4:]]
            else:
                fd = d[pn]
            assert fd.type == _PT[f.kind], (c.kind, n, fd.type)
        if c.ctx:
            assert d["context_info"].message_type.name == "ContextInfo"
        assert M.DESCRIPTOR.fields_by_name[c.proto_slot].message_type is c.proto_cls.DESCRIPTOR
    d = e2e_pb2.ContextInfo.DESCRIPTOR.fields_by_name
    for f in CTX_FIELDS:
        assert d[f.name].type == _PT[f.kind]
        assert (d[f.name].label == 3) == (f.kind == JIDS)
    assert d["quoted_message"].message_type is M.DESCRIPTOR


_selfcheck()


def _tag(kind, depth, name):
    return "%s%d.%s" % (kind, depth, name)


def _val(kind, depth, name, f, idx):
    if idx == 3:
        return extreme(f.kind, _tag(kind, depth, name))
    return value(f.kind, _tag(kind, depth, name), idx)


def _spec_values(spec, depth):
    """{spec field name: python value} for the class-level fields of a spec."""
    kind = spec["kind"]
    vals = spec["vals"]
    if kind == TEXT:
        return {"conversation": _val(TEXT, depth, "conversation", F("conversation", STR, OPT), vals["conversation"])} \
            if "conversation" in vals else {}
    c = CLASSES[kind]
    out = {}
    for n, f in c.all_fields():
        if n in vals:
            out[n] = _val(kind, depth, n, f, vals[n])
    # DocumentAttributes.file_length and its downloadable base file_length are the same wire field:
    # a consistent sender gives them the same value
    if kind == "document" and "file_length" in out and "dm.file_length" in out:
        out["file_length"] = out["dm.file_length"]
    return out


def _ctx_values(ctx, depth):
    out = {}
    for f in CTX_FIELDS:
        if f.name in ctx["vals"]:
            out[f.name] = _val("ctx", depth, f.name, f, ctx["vals"][f.name])
    return out


# ----------------------------------------------------------------------------------------------
# spec -> real attribute objects
# ----------------------------------------------------------------------------------------------
def build_ctx_attrs(ctx, depth):
    v = _ctx_values(ctx, depth)
    quoted = build_attrs(ctx["quoted"], depth + 1) if ctx.get("quoted") else None
    return ContextInfoAttributes(
        stanza_id=v.get("stanza_id"), participant=v.get("participant"), quoted_message=quoted,
        remote_jid=v.get("remote_jid"), mentioned_jid=v.get("mentioned_jid"),
        edit_version=v.get("edit_version"), revoke_message=v.get("revoke_message"))


def build_attrs(spec, depth=0):
    """The MessageAttributes object an application would compose for `spec` (unset fields = None)."""
    kind = spec["kind"]
    v = _spec_values(spec, depth)
    g = v.get
    if kind == TEXT:
        ma = MessageAttributes(conversation=g("conversation"))
        _also_attrs(ma, spec, depth)
        return ma
    c = CLASSES[kind]
    ctx = build_ctx_attrs(spec["ctx"], depth) if spec.get("ctx") else None
    dm = None
    if c.dm:
        dm = DownloadableMediaMessageAttributes(
            mimetype=g("dm.mimetype"), file_length=g("dm.file_length"), file_sha256=g("dm.file_sha256"),
            url=g("dm.url"), media_key=g("dm.media_key"), context_info=ctx)
    if kind == "extended_text":
        a = ExtendedTextAttributes(g("text"), g("matched_text"), g("canonical_url"), g("description"), g("title"),
                                   g("jpeg_thumbnail"), ctx)
    elif kind == "image":
        a = ImageAttributes(dm, g("width"), g("height"), caption=g("caption"), jpeg_thumbnail=g("jpeg_thumbnail"))
    elif kind == "video":
        a = VideoAttributes(dm, g("width"), g("height"), g("seconds"), gif_playback=g("gif_playback"),
                            jpeg_thumbnail=g("jpeg_thumbnail"), gif_attribution=g("gif_attribution"),
                            caption=g("caption"), streaming_sidecar=g("streaming_sidecar"))
    elif kind == "audio":
        a = AudioAttributes(dm, g("seconds"), g("ptt"), streaming_sidecar=g("streaming_sidecar"))
    elif kind == "document":
        a = DocumentAttributes(dm, g("file_name"), g("file_length"), title=g("title"), page_count=g("page_count"),
                               jpeg_thumbnail=g("jpeg_thumbnail"))
    elif kind == "sticker":
        a = StickerAttributes(dm, g("width"), g("height"), png_thumbnail=g("png_thumbnail"))
    elif kind == "location":
        a = LocationAttributes(
            g("degrees_latitude"), g("degrees_longitude"), name=g("name"), address=g("address"), url=g("url"),
            duration=g("duration"), accuracy_in_meters=g("accuracy_in_meters"), speed_in_mps=g("speed_in_mps"),
            degrees_clockwise_from_magnetic_north=g("degrees_clockwise_from_magnetic_north"),
            axolotl_sender_key_distribution_message=g("axolotl_sender_key_distribution_message"),
            jpeg_thumbnail=g("jpeg_thumbnail"))
    elif kind == "contact":
        a = ContactAttributes(g("display_name"), g("vcard"), context_info=ctx)
    elif kind == "skdm":
        a = SenderKeyDistributionMessageAttributes(g("group_id"), g("axolotl_sender_key_distribution_message"))
    elif kind == "protocol":
        a = ProtocolAttributes(MessageKeyAttributes(g("key.remote_jid"), g("key.from_me"), g("key.id"),
                                                    g("key.participant")), g("type"))
    else:
        raise ValueError(kind)
    ma = MessageAttributes(**{c.slot: a})
    _also_attrs(ma, spec, depth)
    return ma


def _also_attrs(ma, spec, depth):
    """spec["also"]: a second content of another kind carried by the SAME message (the library itself does this:
    a sender-key distribution rides along with the first group message)."""
    if spec.get("also"):
        other = build_attrs(spec["also"], depth)
        k = spec["also"]["kind"]
        slot = "conversation" if k == TEXT else CLASSES[k].slot
        setattr(ma, slot, getattr(other, slot))


def media_attrs(message_attributes, kind):
    """The kind-specific attribute object inside a MessageAttributes."""
    return getattr(message_attributes, CLASSES[kind].slot)


# ----------------------------------------------------------------------------------------------
# spec -> expected tree (exactly the SET fields)
# ----------------------------------------------------------------------------------------------
def _nest(flat):
    """{"dm.url": v, "key.id": w, "x": y} -> {"dm": {"url": v}, "key": {"id": w}, "x": y}"""
    out = {}
    for k, v in flat.items():
        if "." in k:
            a, b = k.split(".", 1)
            out.setdefault(a, {})[b] = v
        else:
            out[k] = v
    return out


def expected_ctx_tree(ctx, depth):
    t = dict(_ctx_values(ctx, depth))
    if ctx.get("quoted"):
        t["quoted_message"] = expected_tree(ctx["quoted"], depth + 1)
    return t


def expected_tree(spec, depth=0):
    kind = spec["kind"]
    flat = _spec_values(spec, depth)
    if kind == TEXT:
        out = dict(flat)
    else:
        c = CLASSES[kind]
        t = _nest(flat)
        if spec.get("ctx"):
            ct = expected_ctx_tree(spec["ctx"], depth)
            if c.dm:
                t.setdefault("dm", {})["context_info"] = ct
            else:
                t["context_info"] = ct
        out = {c.slot: t}
    if spec.get("also"):
        out.update(expected_tree(spec["also"], depth))
    return out


# ----------------------------------------------------------------------------------------------
# spec -> reference protobuf (fields set directly on e2e_pb2.Message and its sub-messages)
# ----------------------------------------------------------------------------------------------
def _set_scalar(p, name, v):
    if isinstance(v, list):
        getattr(p, name).extend(v)
    else:
        setattr(p, name, v)


def fill_ctx_proto(p, ctx, depth):
    p.SetInParent()
    for k, v in _ctx_values(ctx, depth).items():
        _set_scalar(p, k, v)
    if ctx.get("quoted"):
        fill_proto(p.quoted_message, ctx["quoted"], depth + 1)


def fill_proto(m, spec, depth=0):
    kind = spec["kind"]
    flat = _spec_values(spec, depth)
    m.SetInParent()
    if spec.get("also"):
        fill_proto(m, spec["also"], depth)
    if kind == TEXT:
        if "conversation" in flat:
            m.conversation = flat["conversation"]
        return m
    c = CLASSES[kind]
    sub = getattr(m, c.proto_slot)
    sub.SetInParent()
    for n, v in flat.items():
        if n.startswith("dm."):
            _set_scalar(sub, n[3:], v)
        elif n.startswith("key."):
            sub.key.SetInParent()
            _set_scalar(sub.key, n[4:], v)
        else:
            _set_scalar(sub, n, v)
    if spec.get("ctx"):
        fill_ctx_proto(sub.context_info, spec["ctx"], depth)
    return m


def build_proto(spec):
    return fill_proto(e2e_pb2.Message(), spec, 0)


# ----------------------------------------------------------------------------------------------
# observers: real objects -> trees
# ----------------------------------------------------------------------------------------------
def _plain(v):
    if isinstance(v, (str, bytes, int, float, bool)):
        return v
    try:
        return list(v)          # protobuf repeated container / tuple
    except TypeError:
        return v


def ctx_attrs_tree(ci):
    t = {}
    for f in CTX_FIELDS:
        v = getattr(ci, f.name)
        if v is not None:
            t[f.name] = _plain(v)
    if ci.quoted_message is not None:
        t["quoted_message"] = attrs_tree(ci.quoted_message)
    return t


def attrs_tree(ma):
    """Nested dict of every non-None field reachable from a MessageAttributes through public properties."""
    t = {}
    if ma.conversation is not None:
        t["conversation"] = ma.conversation
    for c in CLASSES.values():
        a = getattr(ma, c.slot)
        if a is None:
            continue
        s = {}
        if c.dm:
            d = a.downloadablemedia_attributes
            ds = {}
            for f in DM_FIELDS:
                v = getattr(d, f.name)
                if v is not None:
                    ds[f.name] = _plain(v)
            if d.context_info is not None:
                ds["context_info"] = ctx_attrs_tree(d.context_info)
            s["dm"] = ds
        for f in c.fields:
            if f.name.startswith("key."):
                v = getattr(a.key, f.name[4:])
                if v is not None:
                    s.setdefault("key", {})[f.name[4:]] = _plain(v)
                continue
            v = getattr(a, f.name)
            if v is not None:
                s[f.name] = _plain(v)
        if c.ctx and not c.dm and a.context_info is not None:
            s["context_info"] = ctx_attrs_tree(a.context_info)
        t[c.slot] = s
    return t


def _same(a, b):
    if isinstance(a, bool) != isinstance(b, bool):
        return False
    if isinstance(a, (bytes, str)) or isinstance(b, (bytes, str)):
        return type(a) is type(b) and a == b
    return a == b


# owner class (for signatures) of a tree path
def _owner(path):
    """path = list of keys; returns (class, field)"""
    cls = "message"
    field = []
    for k in path:
        if k == "quoted_message":
            cls, field = "message", []
            continue
        if k == "context_info":
            cls, field = "context_info", []
            continue
        if k == "dm":
            cls, field = "downloadablemedia", []
            continue
        if cls == "message" and not field:
            slot_kind = dict((c.slot, c.kind) for c in CLASSES.values()).get(k)
            if slot_kind:
                cls, field = slot_kind, []
                continue
            cls, field = TEXT, [k]
            continue
        field.append(k)
    if path and path[-1] == "quoted_message":
        return "context_info", "quoted_message"
    if path and path[-1] == "context_info":
        return "context_info", "(whole)"
    return cls, ".".join(field) or "(whole)"


def tree_missing(expected, observed, path=()):
    """Every field present in `expected` must be present in `observed` with the same value.
    Returns [(path tuple, class, field, what, expected value, observed value)]; what in lost/set-to-default-lost/changed."""
    out = []
    for k, ev in expected.items():
        p = path + (k,)
        if isinstance(ev, dict):
            ov = observed.get(k) if isinstance(observed, dict) else None
            if ov is None:
                if _leaves(ev):
                    cls, field = _owner(list(p))
                    out.append((p, cls, field, "lost", "<%d set fields>" % _leaves(ev), None))
                continue
            out += tree_missing(ev, ov, p)
            continue
        cls, field = _owner(list(p))
        if k not in observed:
            out.append((p, cls, field, "set-to-default-lost" if is_default(None, ev) else "lost", ev, None))
        elif not _same(ev, observed[k]):
            what = "changed"
            if is_default(None, observed[k]):
                what = "lost"
            out.append((p, cls, field, what, ev, observed[k]))
    return out


def _leaves(t):
    return sum(_leaves(v) if isinstance(v, dict) else 1 for v in t.values())


def tree_leaves(t):
    return _leaves(t)


# ---- protobuf side: by-value view over the modelled fields ------------------------------------
def ctx_proto_tree(p):
    t = {}
    for f in CTX_FIELDS:
        t[f.name] = _plain(getattr(p, f.name))
    t["quoted_message"] = proto_tree(p.quoted_message) if p.HasField("quoted_message") else None
    return t


def proto_tree(m):
    """By-VALUE view of the fields the library models: an unset scalar reads as its protobuf default
    (presence is deliberately not represented); unset sub-messages read as None."""
    t = {"conversation": m.conversation}
    for c in CLASSES.values():
        if not m.HasField(c.proto_slot):
            t[c.slot] = None
            continue
        sub = getattr(m, c.proto_slot)
        s = {}
        for n, f in c.all_fields():
            pn = n[3:] if n.startswith("dm.") else n
            if pn.startswith("key."):
                s.setdefault("key", {})[pn[4:]] = _plain(getattr(sub.key, pn[4:]))
            elif n.startswith("dm."):
                s.setdefault("dm", {})[pn] = _plain(getattr(sub, pn))
            else:
                s[n] = _plain(getattr(sub, n))
        if c.ctx:
            ci = ctx_proto_tree(sub.context_info) if sub.HasField("context_info") else None
            if c.dm:
                s["dm"]["context_info"] = ci
            else:
                s["context_info"] = ci
        t[c.slot] = s
    return t


def _all_default(t):
    if t is None:
        return True
    if isinstance(t, dict):
        return all(_all_default(v) for v in t.values())
    return is_default(None, t)


def proto_diff(ref, out, path=()):
    """Compare two proto_tree()s by value. A missing sub-message equals one whose modelled fields are all default."""
    res = []
    if isinstance(ref, dict) or isinstance(out, dict):
        if ref is None or out is None:
            other = out if ref is None else ref
            if _all_default(other):
                return res
            # a whole sub-message with content on one side only: one finding, not one per leaf
            cls, field = _owner(list(path))
            n = "<sub-message with %d non-default fields>" % _nondefault(other)
            if out is None:
                res.append((path, cls, field, "lost", n, None))
            else:
                res.append((path, cls, field, "appeared", None, n))
            return res
        for k in ref:
            res += proto_diff(ref[k], out.get(k), path + (k,))
        return res
    if ref is None and out is None:
        return res
    if not _same(ref, out):
        cls, field = _owner(list(path))
        what = "lost" if is_default(None, out) else ("appeared" if is_default(None, ref) else "changed")
        res.append((path, cls, field, what, ref, out))
    return res


def _nondefault(t):
    if isinstance(t, dict):
        return sum(_nondefault(v) for v in t.values())
    return 0 if (t is None or is_default(None, t)) else 1


def _defaults_like(t):
    if isinstance(t, dict):
        return dict((k, _defaults_like(v)) for k, v in t.items())
    if t is None:
        return None
    if isinstance(t, list):
        return []
    return type(t)()


# ----------------------------------------------------------------------------------------------
# single-field modifications of a spec (operation-sequence oracle of C10)
#   field ids: class-level names as in spec["vals"] ("caption", "dm.url", "key.id"; "conversation" for text),
#   "ctx.<name>" for a field of the context info, "ctx.quoted.conversation" for the body of a quoted text,
#   "ctx" for the context info as a whole
# ----------------------------------------------------------------------------------------------
def field_ids(spec):
    """[(field id, F)] of everything that can be modified on the content described by `spec`."""
    kind = spec["kind"]
    if kind == TEXT:
        return [("conversation", F("conversation", STR, OPT))]
    c = CLASSES[kind]
    out = [(n, f) for n, f in c.all_fields()
           if f.kind != ENUM1 and not (kind == "document" and n == "file_length")]   # alias of dm.file_length
    if c.ctx:
        out.append(("ctx", F("ctx", "ctx", OPT)))
        if spec.get("ctx"):
            out += [("ctx." + f.name, f) for f in CTX_FIELDS]
            q = spec["ctx"].get("quoted")
            if q and q["kind"] == TEXT:
                out.append(("ctx.quoted.conversation", F("conversation", STR, OPT)))
    return out


def _copy_spec(spec):
    import json
    return json.loads(json.dumps(spec))


def field_index(spec, fid):
    """alphabet index currently assigned to fid (None = unset); for 'ctx' the context spec itself"""
    if fid == "ctx":
        return spec.get("ctx")
    if fid == "ctx.quoted.conversation":
        return spec["ctx"]["quoted"]["vals"].get("conversation")
    if fid.startswith("ctx."):
        return spec["ctx"]["vals"].get(fid[4:])
    return spec["vals"].get(fid)


def with_field(spec, fid, idx):
    """copy of spec with fid assigned alphabet index idx (None = unset; for 'ctx': a context spec or None)"""
    s = _copy_spec(spec)
    if fid == "ctx":
        s["ctx"] = _copy_spec(idx) if idx else None
        return s
    if fid == "ctx.quoted.conversation":
        vals = s["ctx"]["quoted"]["vals"]
        fid = "conversation"
    elif fid.startswith("ctx."):
        vals = s["ctx"]["vals"]
        fid = fid[4:]
    else:
        vals = s["vals"]
    if idx is None:
        vals.pop(fid, None)
    else:
        vals[fid] = idx
    return s


def field_value(spec, fid):
    """the python value `spec` gives to fid (None = unset); for 'ctx' a fresh ContextInfoAttributes or None"""
    if fid == "ctx":
        return build_ctx_attrs(spec["ctx"], 0) if spec.get("ctx") else None
    if fid == "ctx.quoted.conversation":
        return _spec_values(spec["ctx"]["quoted"], 1).get("conversation")
    if fid.startswith("ctx."):
        return _ctx_values(spec["ctx"], 0).get(fid[4:])
    return _spec_values(spec, 0).get(fid)


def locate(message_attributes, kind, fid):
    """(attribute object, attribute name) that holds fid inside a real MessageAttributes"""
    if kind == TEXT:
        return message_attributes, "conversation"
    c = CLASSES[kind]
    a = getattr(message_attributes, c.slot)
    host = a.downloadablemedia_attributes if c.dm else a
    if fid == "ctx":
        return host, "context_info"
    if fid == "ctx.quoted.conversation":
        return host.context_info.quoted_message, "conversation"
    if fid.startswith("ctx."):
        return host.context_info, fid[4:]
    if fid.startswith("dm."):
        return a.downloadablemedia_attributes, fid[3:]
    if fid.startswith("key."):
        return a.key, fid[4:]
    return a, fid


def owner_of(kind, fid):
    """(class, field) used in signatures"""
    if fid == "ctx":
        return "context_info", "(whole)"
    if fid == "ctx.quoted.conversation":
        return TEXT, "conversation"
    if fid.startswith("ctx."):
        return "context_info", fid[4:]
    if fid.startswith("dm."):
        return "downloadablemedia", fid[3:]
    return kind, fid


# ----------------------------------------------------------------------------------------------
# spec generators
# ----------------------------------------------------------------------------------------------
def subsets(names):
    """All subsets, smallest first."""
    names = list(names)
    for r in range(len(names) + 1):
        for s in itertools.combinations(names, r):
            yield s


ALPHA_MODES = [("u", 0), ("u", 1), ("u", 2), ("r", 0), ("r", 1), ("r", 2)]


def assign(names_in_order, chosen, mode):
    """alphabet index for every chosen field: 'u',k = all take the k-th value; 'r',k = field i takes (k+i)%3
    (so that neighbouring fields of the same kind differ); 'x',k = like r but every 4th... extreme values."""
    m, k = mode
    out = {}
    for i, n in enumerate(names_in_order):
        if n in chosen:
            if m == "u":
                out[n] = k
            elif m == "r":
                out[n] = (k + i) % 3
            elif m == "x":
                out[n] = 3
    return out


def class_field_names(kind):
    if kind == TEXT:
        return ["conversation"]
    return [n for n, f in CLASSES[kind].all_fields()]


def make_spec(kind, set_optional, mode=("u", 0), ctx=None, drop_required=()):
    """Spec with every required field + the given optional fields set."""
    if kind == TEXT:
        names = ["conversation"]
        chosen = set(set_optional)
    else:
        c = CLASSES[kind]
        names = class_field_names(kind)
        chosen = (set(c.required_names()) - set(drop_required)) | set(set_optional)
    return {"kind": kind, "vals": assign(names, chosen, mode), "ctx": ctx}


CTX_NAMES = [f.name for f in CTX_FIELDS]


def make_ctx(set_fields, mode=("u", 0), quoted=None):
    return {"vals": assign(CTX_NAMES, set(set_fields), mode), "quoted": quoted}


def full_ctx(mode=("r", 0), quoted=None):
    return make_ctx(CTX_NAMES, mode, quoted)


def text_spec(idx=0):
    return {"kind": TEXT, "vals": {"conversation": idx}, "ctx": None}


def spec_size(spec):
    n = len(spec["vals"])
    if spec.get("also"):
        n += 1 + spec_size(spec["also"])
    c = spec.get("ctx")
    if c:
        n += 1 + len(c["vals"])
        if c.get("quoted"):
            n += 1 + spec_size(c["quoted"])
    return n


def spec_depth(spec):
    c = spec.get("ctx")
    if not c or not c.get("quoted"):
        return 0
    return 1 + spec_depth(c["quoted"])


_PROBES = {}


def input_raises(which):
    """True when the tree under test still has the C10 defect that makes this valid input raise in
    message_to_protobytes: 'location-skdm' (LocationAttributes with axolotl_sender_key_distribution_message set,
    C10:location:axolotl_sender_key_distribution_message:raises-when-set) or 'revoke-no-participant' (message key
    of a 1:1 revoke, C10:protocol:key.participant:raises-when-unset).  Probed once per process on the real
    converter; used ONLY to gate the generators below, never by an oracle."""
    if which not in _PROBES:
        from yowsup.layers.protocol_messages.protocolentities.attributes.converter import AttributesConverter
        spec = {"location-skdm": make_spec("location", ["axolotl_sender_key_distribution_message"]),
                "revoke-no-participant": make_spec("protocol", [])}[which]
        try:
            AttributesConverter.get().message_to_protobytes(build_attrs(spec))
            _PROBES[which] = False
        except Exception:
            _PROBES[which] = True
    return _PROBES[which]


def gen_specs(kind, level="basic", include_raising=False):
    """Representative specs of one kind for OTHER checks (the C10 module enumerates exhaustively itself).
    level 'basic': minimal + everything-set per alphabet value; 'full': every subset of optional fields x ('r',0).
    The two inputs that raise on the pinned tree (location with the sender-key field; revoke key without
    participant) are left out only while the defect is present in the tree under test (input_raises), so users
    of this generator are not tripped by C10's findings; on a repaired tree - or with include_raising=True -
    the full space is generated."""
    if kind == TEXT:
        for i in (0, 2):
            yield "text/%d" % i, text_spec(i)
        return
    c = CLASSES[kind]
    skip_skdm = kind == "location" and not include_raising and input_raises("location-skdm")
    need_participant = kind == "protocol" and not include_raising and input_raises("revoke-no-participant")
    opt = [n for n in c.optional_names() if not (skip_skdm and n == "axolotl_sender_key_distribution_message")]
    must = ["key.participant"] if need_participant else []
    if level == "basic":
        yield "%s/minimal" % kind, make_spec(kind, must, ("u", 0))
        for k in range(3):
            yield "%s/all/r%d" % (kind, k), make_spec(kind, opt, ("r", k))
        if c.ctx:
            yield "%s/all+quote" % kind, make_spec(kind, opt, ("r", 0), ctx=full_ctx(("r", 1), quoted=text_spec(2)))
            yield "%s/mentions" % kind, make_spec(kind, must, ("u", 0), ctx=make_ctx(["mentioned_jid"], ("u", 2)))
    else:
        for s in subsets([n for n in opt if n not in must]):
            yield "%s/%s" % (kind, "+".join(s) or "-"), make_spec(kind, list(s) + must, ("r", 0))
        if c.ctx:
            yield "%s/all+quote" % kind, make_spec(kind, opt, ("r", 0), ctx=full_ctx(("r", 1), quoted=text_spec(2)))


def gen_message_attributes(kind, level="basic", include_raising=False):
    """Yield (label, MessageAttributes, expected_tree) for kind in KINDS (text / extended_text / image / location /
    contact / ...).  Compare what arrives with  tree_missing(expected_tree, attrs_tree(received)) == [].
    See gen_specs for include_raising."""
    for label, spec in gen_specs(kind, level, include_raising):
        yield label, build_attrs(spec), expected_tree(spec)
