"""Independent reference implementation of the WhatsApp binary-XML stanza format.

Written from the FORMAT, not from yowsup's code:

  frame   := FLAGS body            FLAGS bit 1 (value 2): body is a zlib stream of the plain body
                                   FLAGS bit 0 (value 1): segmented (not part of this format subset)
  body    := node
  node    := LIST(n) string(tag) { string(key) string(value) }*a [ content ]      n = 1 + 2a + (1 if content)
  content := LIST(m) node*m                                  children
           | 252 len8 bytes | 253 len20 bytes | 254 len31 bytes      binary
           | any string form except the binary ones          string valued content (its Latin-1 bytes)
  LIST(n) := 0 (n == 0) | 248 n8 | 249 n16(big endian)
  string  := t            3 <= t <= 235      single byte token: primary[t]   (0 = null, 1/2 = stream start/end)
           | 236+p  b     0 <= p <= 3        double byte token: secondary[256 p + b]
           | 250 string(user)|0 string(server)               JID  user@server, or server alone when user is null
           | 255 h nibbles                   packed "0123456789-."   h = odd<<7 | byte count, pad nibble 15
           | 251 h nibbles                   packed "0123456789ABCDEF"
           | 252 len8 bytes | 253 len20 bytes | 254 len31 bytes      raw Latin-1
  len20   := 3 bytes, low 20 bits;  len31 := 4 bytes big endian, low 31 bits

Trees are plain tuples  (tag:str, attrs:tuple[(key,value),...], content:bytes|None, children:tuple[tree,...]).

The decoder is a recursive-descent parser over an immutable buffer with an
explicit cursor and is strict (every byte must be consumed, unknown control
bytes are errors).  The encoder is a *nondeterministic program*: wherever the
format permits several spellings it asks a chooser which one to take; choice
0 is always the canonical one.
"""
import os
import json
import zlib
import hashlib
import collections

HERE = os.path.dirname(os.path.abspath(__file__))

LIST_EMPTY, LIST_8, LIST_16 = 0, 248, 249
JID_PAIR, HEX_8, BINARY_8, BINARY_20, BINARY_31, NIBBLE_8 = 250, 251, 252, 253, 254, 255
DICT_0 = 236
FLAG_SEGMENTED, FLAG_DEFLATE = 1, 2

NIBBLE_ALPHABET = "0123456789-."          # values 0..11
HEX_ALPHABET = "0123456789ABCDEF"         # values 0..15
PAD = 15
RESERVED = ("xmlstreamstart", "xmlstreamend")
MAX_JID_NESTING = 3                       # the encoder does not offer the JID spelling for strings with more '@' than this

# entries every implementation of this dictionary generation agrees on / that the library's unit tests pin
_ANCHORS_PRIMARY = {0: "", 1: "xmlstreamstart", 2: "xmlstreamend", 3: "type", 4: "id", 5: "from", 6: "receipt",
                    7: "t", 8: "s.whatsapp.net", 9: "message", 10: "iq", 11: "to", 12: "participant", 13: "ack",
                    27: "result", 35: "get", 42: "g.us", 46: "set", 50: "media", 124: "error"}
_ANCHORS_SECONDARY = {0: "lg", 1: "lc", 11: "reject", 2 * 256 + 86: "width"}


class FormatError(Exception):
    pass


class TokenTable(object):
    def __init__(self, primary, secondary):
        self.primary = list(primary)
        self.secondary = list(secondary)
        self.index = {}
        for i, s in enumerate(self.primary):
            self.index[s] = (0, i)
        for i, s in enumerate(self.secondary):
            self.index[s] = (1, i)

    def wire(self, s):
        """bytes of the token spelling of s, or None when s has none"""
        hit = self.index.get(s)
        if hit is None or s == "" or s in RESERVED:
            return None
        if hit[0] == 0:
            return bytes([hit[1]])
        return bytes([DICT_0 + (hit[1] >> 8), hit[1] & 0xFF])

    def usable(self):
        """all strings that have a token spelling (reserved words and the null entry excluded)"""
        return [s for s in self.primary + self.secondary if self.wire(s) is not None]


_TABLE = None


def load_tokens():
    """Frozen table + structural guards (DESIGN C02)."""
    global _TABLE
    if _TABLE is not None:
        return _TABLE
    with open(os.path.join(HERE, "tokens.json")) as f:
        doc = json.load(f)
    prim, sec = doc["primary"], doc["secondary"]
    if len(prim) != 236 or len(sec) != 4 * 256:
        raise RuntimeError("reference token table: wrong size %d/%d" % (len(prim), len(sec)))
    if not all(isinstance(s, str) for s in prim + sec):
        raise RuntimeError("reference token table: non-string entry")
    if len(set(prim + sec)) != len(prim) + len(sec):
        raise RuntimeError("reference token table: duplicate entries")
    if any(s == "" for s in prim[1:] + sec) or any(ord(c) > 127 for s in prim + sec for c in s):
        raise RuntimeError("reference token table: empty or non-ASCII entry")
    for i, s in _ANCHORS_PRIMARY.items():
        if prim[i] != s:
            raise RuntimeError("reference token table: anchor primary[%d] != %r" % (i, s))
    for i, s in _ANCHORS_SECONDARY.items():
        if sec[i] != s:
            raise RuntimeError("reference token table: anchor secondary[%d] != %r" % (i, s))
    blob = "\x00".join(prim) + "\x01" + "\x00".join(sec)
    if hashlib.sha256(blob.encode("utf-8")).hexdigest() != doc["sha256"]:
        raise RuntimeError("reference token table: digest mismatch (file edited?)")
    _TABLE = TokenTable(prim, sec)
    return _TABLE


# ---------------------------------------------------------------------------------------------
# string classification (pure functions of the string, used by grammars and by the encoder)
# ---------------------------------------------------------------------------------------------

def is_nibble(s):
    return 0 < len(s) and all(c in NIBBLE_ALPHABET for c in s)


def is_hex(s):
    return 0 < len(s) and all(c in HEX_ALPHABET for c in s)


def jid_split(s):
    """(user, server) at the first '@' when there is a non-empty user part, else None"""
    i = s.find("@")
    if i < 1:
        return None
    return s[:i], s[i + 1:]


def well_formed_string(s, table=None):
    """The property's quantifier: non-empty Latin-1, not ending in '@', not a reserved stream word;
    the same holds for the components a JID spelling splits it into (they are string positions on the wire)."""
    if not isinstance(s, str) or s == "" or s.endswith("@") or s in RESERVED:
        return False
    if any(ord(c) > 255 for c in s):
        return False
    sp = jid_split(s)
    if sp is not None:
        return well_formed_string(sp[0]) and well_formed_string(sp[1])
    return True


def classify(s, table=None):
    table = table or load_tokens()
    if table.wire(s) is not None:
        return "token2" if len(table.wire(s)) == 2 else "token1"
    if jid_split(s) is not None:
        return "jid"
    if is_nibble(s):
        return "nibble"
    if is_hex(s):
        return "hex"
    return "raw"


# ---------------------------------------------------------------------------------------------
# decoder
# ---------------------------------------------------------------------------------------------

class _Cursor(object):
    __slots__ = ("buf", "pos", "end", "forms")

    def __init__(self, buf, forms):
        self.buf = buf
        self.pos = 0
        self.end = len(buf)
        self.forms = forms

    def u8(self):
        if self.pos >= self.end:
            raise FormatError("truncated at %d" % self.pos)
        b = self.buf[self.pos]
        self.pos += 1
        return b

    def take(self, n):
        if self.pos + n > self.end:
            raise FormatError("truncated: need %d bytes at %d, have %d" % (n, self.pos, self.end - self.pos))
        out = self.buf[self.pos:self.pos + n]
        self.pos += n
        return out

    def uint(self, nbytes):
        return int.from_bytes(self.take(nbytes), "big")

    def seen(self, form):
        if self.forms is not None:
            self.forms[form] = self.forms.get(form, 0) + 1


def _list_size(cur, tag):
    if tag == LIST_EMPTY:
        cur.seen("list0")
        return 0
    if tag == LIST_8:
        cur.seen("list8")
        return cur.u8()
    if tag == LIST_16:
        cur.seen("list16")
        return cur.uint(2)
    raise FormatError("byte %d is not a list header (at %d)" % (tag, cur.pos - 1))


def _binary(cur, tag):
    if tag == BINARY_8:
        cur.seen("len8")
        n = cur.u8()
    elif tag == BINARY_20:
        cur.seen("len20")
        n = cur.uint(3) & 0xFFFFF
    elif tag == BINARY_31:
        cur.seen("len31")
        n = cur.uint(4) & 0x7FFFFFFF
    else:
        raise FormatError("not a binary tag %d" % tag)
    return bytes(cur.take(n))


def _packed(cur, tag):
    alphabet = NIBBLE_ALPHABET if tag == NIBBLE_8 else HEX_ALPHABET
    cur.seen("nibble" if tag == NIBBLE_8 else "hex")
    head = cur.u8()
    odd, count = head >> 7, head & 0x7F
    raw = cur.take(count)
    vals = []
    for b in raw:
        vals.append(b >> 4)
        vals.append(b & 0x0F)
    if odd:
        if not vals:
            raise FormatError("odd flag on empty packed string")
        if vals.pop() != PAD:
            raise FormatError("odd packed string not padded with 15")
    out = []
    for v in vals:
        if v >= len(alphabet):
            raise FormatError("nibble value %d outside packed alphabet %d" % (v, tag))
        out.append(alphabet[v])
    return "".join(out)


def _string(cur, tag, table, nullable=False):
    """decode one string whose first byte `tag` has been read; returns str (or None for the null token)"""
    if tag == 0:
        if nullable:
            return None
        raise FormatError("null token where a string is required (at %d)" % (cur.pos - 1))
    if tag in (1, 2):
        raise FormatError("stream control token %d inside a stanza" % tag)
    if tag < DICT_0:
        cur.seen("token1")
        return table.primary[tag]
    if tag < DICT_0 + 4:
        cur.seen("token2")
        return table.secondary[((tag - DICT_0) << 8) | cur.u8()]
    if tag == JID_PAIR:
        cur.seen("jid")
        user = _string(cur, cur.u8(), table, nullable=True)
        server = _string(cur, cur.u8(), table)
        if user is None:
            cur.seen("jid-nouser")
            return server
        return user + "@" + server
    if tag in (HEX_8, NIBBLE_8):
        return _packed(cur, tag)
    if tag in (BINARY_8, BINARY_20, BINARY_31):
        return _binary(cur, tag).decode("latin-1")
    raise FormatError("byte %d cannot start a string (at %d)" % (tag, cur.pos - 1))


def _node(cur, table, depth):
    if depth > 64:
        raise FormatError("nesting too deep")
    n = _list_size(cur, cur.u8())
    if n == 0:
        raise FormatError("node with empty list")
    tag = _string(cur, cur.u8(), table)
    attrs = []
    for _ in range((n - 1) // 2):
        k = _string(cur, cur.u8(), table)
        v = _string(cur, cur.u8(), table)
        attrs.append((k, v))
    content, children = None, ()
    if n % 2 == 0:
        b = cur.u8()
        if b in (LIST_EMPTY, LIST_8, LIST_16):
            m = _list_size(cur, b)
            children = tuple(_node(cur, table, depth + 1) for _ in range(m))
        elif b in (BINARY_8, BINARY_20, BINARY_31):
            content = _binary(cur, b)
        else:
            cur.seen("content-string")
            content = _string(cur, b, table).encode("latin-1")
    return (tag, tuple(attrs), content, children)


def decode(frame, table=None, forms=None):
    """frame (bytes-like, flags byte first) -> tree.  Raises FormatError on anything that is not a valid frame."""
    table = table or load_tokens()
    frame = bytes(frame)
    if not frame:
        raise FormatError("empty frame")
    flags = frame[0]
    if flags & ~(FLAG_DEFLATE | FLAG_SEGMENTED):
        raise FormatError("unknown flag bits %d" % flags)
    if flags & FLAG_SEGMENTED:
        raise FormatError("segmented frame")
    body = frame[1:]
    if flags & FLAG_DEFLATE:
        if forms is not None:
            forms["deflate"] = forms.get("deflate", 0) + 1
        try:
            body = zlib.decompress(body)
        except zlib.error as e:
            raise FormatError("bad zlib stream: %s" % e)
    cur = _Cursor(memoryview(body), forms)
    tree = _node(cur, table, 0)
    if cur.pos != cur.end:
        raise FormatError("%d trailing bytes after the stanza" % (cur.end - cur.pos))
    return tree


# ---------------------------------------------------------------------------------------------
# encoder (nondeterministic)
# ---------------------------------------------------------------------------------------------

class Canonical(object):
    """chooser that never deviates"""

    def pick(self, kind, forms):
        return 0


class Scripted(object):
    """Follows `deviations` = {choice point number: alternative}; canonical elsewhere.  Records every choice
    point met: (kind, forms) so that the enumerator can branch."""

    def __init__(self, deviations=None):
        self.dev = dict(deviations or {})
        self.log = []          # [(kind, forms tuple)]
        self.taken = []        # [(point, kind, canonical form, chosen form, alternative number)]

    def pick(self, kind, forms):
        i = len(self.log)
        self.log.append((kind, forms))
        alt = self.dev.get(i, 0)
        if alt >= len(forms):
            raise RuntimeError("choice %d at point %d does not exist (%s %s)" % (alt, i, kind, forms))
        if alt:
            self.taken.append((i, kind, forms[0], forms[alt], alt))
        return alt


def _len_forms(n):
    if n < 0x100:
        return ("len8", "len20", "len31")
    if n < 0x100000:
        return ("len20", "len31")
    if n < 0x80000000:
        return ("len31",)
    raise FormatError("payload too long for the format")


def _put_binary(out, data, chooser, where):
    forms = _len_forms(len(data))
    f = forms[chooser.pick(where + ":length", forms)] if len(forms) > 1 else forms[0]
    n = len(data)
    if f == "len8":
        out += bytes((BINARY_8, n))
    elif f == "len20":
        out += bytes((BINARY_20,)) + n.to_bytes(3, "big")
    else:
        out += bytes((BINARY_31,)) + n.to_bytes(4, "big")
    out += data


def _put_list(out, n, chooser, where):
    if n == 0:
        out.append(LIST_EMPTY)
        return
    if n > 0xFFFF:
        raise FormatError("list too long for the format")
    forms = ("list8", "list16") if n < 0x100 else ("list16",)
    f = forms[chooser.pick(where + ":header", forms)] if len(forms) > 1 else forms[0]
    if f == "list8":
        out += bytes((LIST_8, n))
    else:
        out += bytes((LIST_16,)) + n.to_bytes(2, "big")


def _put_packed(out, s, tag):
    alphabet = NIBBLE_ALPHABET if tag == NIBBLE_8 else HEX_ALPHABET
    vals = [alphabet.index(c) for c in s]
    odd = len(vals) & 1
    if odd:
        vals.append(PAD)
    body = bytes((vals[i] << 4) | vals[i + 1] for i in range(0, len(vals), 2))
    assert len(body) <= 0x7F
    out += bytes((tag, (odd << 7) | len(body)))
    out += body


_forms_memo = {}


def string_forms(s, table, as_content=False):
    """All spellings the format offers for the string s, canonical first."""
    hit = _forms_memo.get((s, as_content)) if len(s) <= 300 else None
    if hit is not None:
        return hit
    forms = _string_forms(s, table, as_content)
    if len(s) <= 300 and len(_forms_memo) < 200000:
        _forms_memo[(s, as_content)] = forms
    return forms


def _string_forms(s, table, as_content):
    forms = []
    if table.wire(s) is not None:
        forms.append("token")
    if jid_split(s) is not None and not s.endswith("@") and s.count("@") <= MAX_JID_NESTING:
        forms.append("jid")
    if is_nibble(s) and len(s) <= 254:
        forms.append("nibble")
    if is_hex(s) and len(s) <= 254:
        forms.append("hex")
    if not as_content:
        forms.append("raw")
    if s != "":
        forms.append("jid-nouser")
    return tuple(forms)


def _put_string_as(out, s, form, table, chooser, where):
    if form == "token":
        out += table.wire(s)
    elif form == "jid":
        user, server = jid_split(s)
        out.append(JID_PAIR)
        _put_string(out, user, table, chooser, where + "/user")
        _put_string(out, server, table, chooser, where + "/server")
    elif form == "jid-nouser":
        out.append(JID_PAIR)
        out.append(0)
        _put_string(out, s, table, chooser, where + "/server")
    elif form == "nibble":
        _put_packed(out, s, NIBBLE_8)
    elif form == "hex":
        _put_packed(out, s, HEX_8)
    elif form == "raw":
        _put_binary(out, s.encode("latin-1"), chooser, where)
    else:
        raise AssertionError(form)


def _put_string(out, s, table, chooser, where):
    if s == "":
        raise FormatError("empty string has no spelling")
    forms = string_forms(s, table)
    form = forms[chooser.pick(where + ":form", forms)]
    _put_string_as(out, s, form, table, chooser, where)


def _put_node(out, tree, table, chooser, top):
    tag, attrs, content, children = tree
    if content is not None and children:
        raise FormatError("node with both content and children")
    pre = "top" if top else "node"
    n = 1 + 2 * len(attrs) + (1 if (content is not None or children) else 0)
    _put_list(out, n, chooser, pre)
    _put_string(out, tag, table, chooser, "tag")
    for k, v in attrs:
        _put_string(out, k, table, chooser, "key")
        _put_string(out, v, table, chooser, "value")
    if content is not None:
        forms = ("binary",)
        if len(content) > 0:
            forms += string_forms(content.decode("latin-1"), table, as_content=True)
        form = forms[chooser.pick("content:form", forms)] if len(forms) > 1 else forms[0]
        if form == "binary":
            _put_binary(out, content, chooser, "content")
        else:
            _put_string_as(out, content.decode("latin-1"), form, table, chooser, "content")
    elif children:
        _put_list(out, len(children), chooser, "children")
        for c in children:
            _put_node(out, c, table, chooser, False)


def encode(tree, chooser=None, table=None):
    """tree -> frame bytes, spelling chosen by `chooser` (canonical when None)."""
    table = table or load_tokens()
    chooser = chooser or Canonical()
    body = bytearray()
    _put_node(body, tree, table, chooser, True)
    forms = ("plain", "deflate")
    if forms[chooser.pick("frame:compression", forms)] == "deflate":
        return bytes((FLAG_DEFLATE,)) + zlib.compress(bytes(body))
    return bytes((0,)) + bytes(body)


def choice_vectors(tree, k, table=None):
    """Enumerate every choice vector with at most k deviations from the canonical spelling.
    Yields (frame bytes, taken) where taken = [(point, kind, canonical form, chosen form, alternative), ...].
    Stateless search: a vector is a set {point: alternative}; a vector is extended only at points after its
    last deviation, so every vector is produced exactly once; fewest deviations first."""
    table = table or load_tokens()
    queue = collections.deque([()])          # FIFO: vectors come out ordered by number of deviations
    while queue:
        dev = queue.popleft()
        ch = Scripted(dict(dev))
        frame = encode(tree, ch, table)
        yield frame, list(ch.taken)
        if len(dev) < k:
            first = dev[-1][0] + 1 if dev else 0
            for i in range(first, len(ch.log)):
                for alt in range(1, len(ch.log[i][1])):
                    queue.append(dev + ((i, alt),))


def count_choice_points(tree, table=None):
    ch = Scripted()
    encode(tree, ch, table or load_tokens())
    return len(ch.log), sum(len(f) - 1 for _, f in ch.log)
