"""Reference propagation model for C18 (stack assembly and event propagation).

Written from the property statement, not from yowsup: a stack is a plain list
of *elements* (bottom first); an element is a list of layer ids - one id for a
plain layer, 1-4 ids for a parallel group (declaration order).  Nothing here
imports yowsup.

shape    tuple of ints, bottom first: 0 = plain layer, k>=1 = parallel group of k
elems    list of lists of flat layer ids (0, 1, 2 ... numbered bottom-up,
         members in declaration order)
"""
import itertools


def layout(shape):
    elems, n = [], 0
    for k in shape:
        m = 1 if k == 0 else k
        elems.append(list(range(n, n + m)))
        n += m
    return elems


def n_layers(shape):
    return sum(1 if k == 0 else k for k in shape)


def element_of(elems, lid):
    for i, e in enumerate(elems):
        if lid in e:
            return i
    raise KeyError(lid)


# --------------------------------------------------------------------------
# data
#
# Every recording layer forwards what it is handed with its own id appended,
# so an item is the tuple of layer ids it has passed through.  "Handed down
# layer by layer in order and offered to every member of a parallel group,
# each member's output continuing to the group's lower neighbour": a layer in
# element i is handed one item per combination of members of the elements
# between the entry point and i - each exactly once; combinations ordered
# with the element nearest the entry point most significant (members are
# offered the data one after the other, each member's output travels on before
# the next member is offered the input).

def data_expect(elems, direction):
    """direction 'send' (enters at the top) or 'receive' (enters at the bottom).
    Returns {layer id: [item, item, ...]} in the order the layer is handed them."""
    order = list(range(len(elems)))
    if direction == "send":
        order.reverse()
    out = {}
    passed = []                    # elements between the entry point and the current one
    for i in order:
        items = [tuple(c) for c in itertools.product(*passed)]
        for lid in elems[i]:
            out[lid] = list(items)
        passed.append(elems[i])
    return out


def data_exit_count(elems):
    """Number of items leaving the far end of the stack = product of the group sizes."""
    n = 1
    for e in elems:
        n *= len(e)
    return n


# --------------------------------------------------------------------------
# events

class EventExpect(object):
    """What the statement demands of one event walk.

    required   ordered list: these layers must see the event exactly once, in this relative order
    optional   set: may see it at most once (statement silent / ambiguous, see the judgement calls
               in c18_stack_assembly.py)
    own        set: members of the emitter's own group (subset of optional).  They are not above
               (below) the emitter: whether or not they see or "consume" the event has no bearing on
               the walk - every layer strictly above (below) the group is still required until one of
               THOSE layers consumes it
    sync_ok    set: layers that may see a *deferred* event before the loop runs (the emitter's own
               group and its direct neighbour element); every other layer must see it only while
               the loop runs
    everything else is forbidden (wrong side of the emitter, or beyond the consumer's element).
    """
    __slots__ = ("required", "optional", "own", "sync_ok")


def event_expect(elems, emitter, direction, consumer):
    """emitter: flat layer id, or None for the stack-level entry points
    (YowStack.emitEvent enters below the bottom element, broadcastEvent above the top one).
    direction: 'emit' (upward) or 'broadcast' (downward).  consumer: flat id or None."""
    top = len(elems) - 1
    if emitter is None:
        own = []
        path = list(range(0, top + 1)) if direction == "emit" else list(range(top, -1, -1))
        sync_elems = path[:2]      # the stack notifies the end element, which then emits like any layer
    else:
        i = element_of(elems, emitter)
        own = list(elems[i])
        path = list(range(i + 1, top + 1)) if direction == "emit" else list(range(i - 1, -1, -1))
        sync_elems = path[:1]
    x = EventExpect()
    x.own = set(own)
    x.required = []
    x.optional = set(own)
    x.sync_ok = set(own)
    for e in sync_elems:
        x.sync_ok.update(elems[e])
    consumed = False
    for e in path:
        if consumed:
            break
        for lid in elems[e]:
            if consumed:
                x.optional.add(lid)          # later member of the consumer's own group: same level
            else:
                x.required.append(lid)
                if lid == consumer:
                    consumed = True
    return x


def judge_event(x, seen_sync, seen_loop, detached):
    """Compare an observed walk with the expectation.
    seen_sync: layer ids in the order they saw the event during the emit call;
    seen_loop: ids in the order they saw it while the loop ran.
    Returns a list of (failure class, detail) - empty when the walk is as demanded."""
    bad = []
    seen = list(seen_sync) + list(seen_loop)
    allowed = set(x.required) | x.optional
    counts = {}
    for lid in seen:
        counts[lid] = counts.get(lid, 0) + 1
    dup = sorted(l for l, c in counts.items() if c > 1)
    if dup:
        bad.append(("duplicate", {"layers_seen_more_than_once": dup}))
    stray = sorted(set(l for l in seen if l not in allowed))
    if stray:
        bad.append(("stray", {"layers_that_must_not_see_it": stray}))
    got_req = [l for l in seen if l in set(x.required)]
    # de-duplicate (already reported) so that one cause gives one failure class
    dedup = []
    for l in got_req:
        if l not in dedup:
            dedup.append(l)
    if dedup != x.required:
        if set(dedup) != set(x.required):
            bad.append(("missed", {"required_in_order": x.required, "saw": dedup}))
        else:
            bad.append(("order", {"required_in_order": x.required, "saw": dedup}))
    if detached:
        early = [l for l in seen_sync if l not in x.sync_ok]
        if early:
            bad.append(("not-deferred", {"saw_before_loop_ran": early}))
    else:
        if seen_loop:
            bad.append(("deferred-without-request", {"saw_only_when_loop_ran": list(seen_loop)}))
    return bad


# --------------------------------------------------------------------------
# interfaces

def interface_expect(elems, lid):
    """Looking an interface up by the class of layer `lid` yields that very layer's interface."""
    return lid


# --------------------------------------------------------------------------
# default helpers (names only; the check maps names to classes by importing the layer packages)

TRANSPORT = ["network", "noise_segments", "noise", "coder", "logger"]          # bottom first
ENCRYPTION = ["axolotl_control", ("axolotl_send", "axolotl_receive")]            # above the transport
BASIC_MODULES = ["auth", "messages", "receipts", "acks", "presence", "ib", "iq", "notifications",
                 "contacts", "chatstate", "calls"]
OPTIONAL_MODULES = ["groups", "media", "privacy", "profiles"]                    # flag order of the helpers


def protocol_expect(groups, media, privacy, profiles):
    """Set of protocol modules: the always-on ones plus exactly the selected optional ones."""
    sel = [n for n, f in zip(OPTIONAL_MODULES, (groups, media, privacy, profiles)) if f]
    return BASIC_MODULES + sel


def default_layers_expect(groups, media, privacy, profiles):
    """Bottom-first list; a frozenset = members of a parallel group (their relative order is free)."""
    return TRANSPORT + ENCRYPTION[:1] + [frozenset(ENCRYPTION[1])] + \
        [frozenset(protocol_expect(groups, media, privacy, profiles))]
