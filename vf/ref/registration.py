"""Independent reference computations for registration requests (C20).

* token: WhatsApp's construction is HMAC-SHA1 keyed with the first 64 bytes of the app key over
  (app signature || md5 of classes.dex || national number), base64 encoded.  A 64-byte key is exactly one
  SHA-1 block, so the standard library `hmac` computes the same thing as the manual ipad/opad construction.
* percent decoding: urllib.parse.unquote_to_bytes / unquote (the "standard decoding").
* ENC blob: base64( ephemeral X25519 public key (32) || AES-256-GCM(key = X25519(server priv, eph pub),
  nonce = 12 zero bytes, aad = empty) ), done with `cryptography` (not with python-axolotl's curve code).
"""
import re
import hmac
import base64
import hashlib
import urllib.parse

from cryptography.hazmat.primitives.asymmetric.x25519 import X25519PrivateKey, X25519PublicKey
from cryptography.hazmat.primitives.ciphers.aead import AESGCM
from cryptography.hazmat.primitives import serialization


def token(key_b64, signature_b64, classes_md5_b64, number):
    key = base64.b64decode(key_b64)[:64]
    assert len(key) == 64
    msg = base64.b64decode(signature_b64) + base64.b64decode(classes_md5_b64) + number.encode("ascii")
    return base64.b64encode(hmac.new(key, msg, hashlib.sha1).digest())


def original_bytes(value):
    """What a server must get back after decoding the value: bytes as is, text as UTF-8, numbers in decimal."""
    if isinstance(value, bytes):
        return value
    if isinstance(value, str):
        return value.encode("utf-8")
    if isinstance(value, bool):
        raise TypeError("bool is not a parameter type of the statement")
    if isinstance(value, int):
        return ("%d" % value).encode("ascii")
    raise TypeError(type(value))


_ESC = re.compile(r"%(..)?")
_PLAIN_OK = re.compile(r"^[A-Za-z0-9.]*$")


def encoding_defects(encoded):
    """Syntactic requirements of the statement on an encoded value; returns list of defect class names."""
    out = []
    if not isinstance(encoded, str):
        return ["not-str"]
    for m in _ESC.finditer(encoded):
        h = m.group(1)
        if h is None or not re.match(r"^[0-9a-fA-F]{2}$", h):
            out.append("malformed-escape")
        elif h != h.lower():
            out.append("uppercase-escape")
    for ch in "-_~":
        if ch in encoded:
            out.append("unescaped-" + {"-": "dash", "_": "underscore", "~": "tilde"}[ch])
    try:
        encoded.encode("ascii")
    except UnicodeEncodeError:
        out.append("non-ascii-output")
    return sorted(set(out))


def decode_value(encoded):
    return urllib.parse.unquote_to_bytes(encoded)


def split_params(s):
    """Split 'k=v&k=v' the way a server does (no decoding of '+', values decoded to bytes)."""
    if s == "":
        return []
    out = []
    for part in s.split("&"):
        k, sep, v = part.partition("=")
        if not sep:
            raise ValueError("no '=' in %r" % part)
        out.append((k, urllib.parse.unquote_to_bytes(v)))
    return out


class Recipient(object):
    """A server key pair built with `cryptography` from a fixed 32-byte seed."""

    def __init__(self, seed32):
        self.priv = X25519PrivateKey.from_private_bytes(seed32)
        self.public_bytes = self.priv.public_key().public_bytes(
            serialization.Encoding.Raw, serialization.PublicFormat.Raw)

    def open_blob(self, payload_b64):
        """-> (ephemeral public key bytes, plaintext bytes); raises on authentication failure."""
        raw = base64.b64decode(payload_b64, validate=True)
        if len(raw) < 32 + 16:
            raise ValueError("blob too short: %d" % len(raw))
        eph, ct = raw[:32], raw[32:]
        shared = self.priv.exchange(X25519PublicKey.from_public_bytes(eph))
        return eph, AESGCM(shared).decrypt(b"\x00" * 12, ct, b"")


def x25519_public_from_private(priv32):
    return X25519PrivateKey.from_private_bytes(bytes(priv32)).public_key().public_bytes(
        serialization.Encoding.Raw, serialization.PublicFormat.Raw)
