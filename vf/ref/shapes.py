"""Shape specs of the stanzas / entities of yowsup's protocolentities packages, value alphabets and the
bounded-exhaustive enumerator used by C09 (and reusable by C06/C07/C08).

A *shape* describes one kind of stanza as the entity class documents it (docstring, fixture test,
constructor):

  incoming shapes   declarative node spec  N(tag, [A(attr, kind, opt, default)], [kids], data kind)
                    -> gen_nodes(name) yields ProtocolTreeNode objects
  outgoing shapes   a builder  f(p)  that constructs the entity the way applications / the library do,
                    drawing every argument from a Picker p   -> gen_entities(name) yields entity objects,
                    gen_nodes(name) yields their toProtocolTreeNode()

Enumeration (the same for both directions): ALL subsets of the optional parts of the shape x `vectors`
value vectors.  In vector v the k-th slot of a kind takes alphabet[(v + k*skew) % len(alphabet)], so that two
slots of the same kind never carry the same value inside one stanza (a swapped pair is visible) and every slot
walks through >= 3 consecutive alphabet entries.  A list child has LIST_LENS[(v + j) % 3] items (j = index of
the list inside the shape), i.e. 1, 2 and 0 items (or its minimum).  The full product of values is NOT enumerated.

Public API
  SHAPES                       dict name -> Shape (cls, direction 'incoming'|'outgoing', owner layer, package ...)
  names(direction=None, owner=None)
  gen_nodes(name, presence_subsets=True, vectors=3)      -> ProtocolTreeNode objects
  gen_entities(name, presence_subsets=True, vectors=3)   -> entity objects (outgoing shapes)
  gen_cases(name, presence_subsets=True, vectors=3, phases=(0,), skews=(1,), plans=(0,))
                                                         -> Case objects (mask, vector, node | entity, meta);
                                                            phases shift list lengths against values, skews change
                                                            which values meet in one stanza (keep them coprime to 6)
                                                            plans=(0,) | "all": indices into LIST_PLANS - nested lists
                                                            with 2 and 3 outer items and different inner lists per item,
                                                            sibling lists of different lengths (see LIST_PLANS)
  build_case(name, mask, vector, phase=0, skew=1, plan=0) -> exactly one Case (replay)
  SHAPES[name].inspect(entity, stanza)                   -> entity-level oracle where the entity has per-item accessors
  strict_diff(a, b, numeric=True, group_by_tag=True)     -> list of (kind, path, attr) differences
  codec_roundtrip(node)                                  -> node after the real WriteEncoder / ReadDecoder
  inventory()                                            -> all ProtocolEntity subclasses of the tree {qualname: cls}
  EXCLUDED                                               class name -> reason it is outside C09's quantifier
"""
import itertools

from vf import env
env.bootstrap()

from yowsup.structs import ProtocolTreeNode, ProtocolEntity

# --------------------------------------------------------------------------------------------------
# value alphabets, simplest first.  Kinds whose edge values matter have exactly 3 entries so that every
# slot sees all of them within 3 vectors; kinds that only need *distinct* values (ids, JIDs) are longer.
# --------------------------------------------------------------------------------------------------
U = ["4915225256022@s.whatsapp.net", "14155550100@s.whatsapp.net", "5511987654321@s.whatsapp.net",
     "79049347231@s.whatsapp.net", "27821234567@s.whatsapp.net", "8613800138000@s.whatsapp.net"]
G = ["4915225256022-1415389947@g.us", "14155550100-1600000000@g.us", "120363001234567890@g.us",
     "5511987654321-1431204051@g.us", "27821234567-1431330385@g.us", "120363009876543210@g.us"]
B = ["1415389947123@broadcast", "status@broadcast", "1600000000456@broadcast"]
# the alphabets below this line only have to provide DISTINCT values of one class (so that items of nested lists
# never share a value: aliasing / accumulation across list items is visible); they may be longer than 6
U += ["49%09d@s.whatsapp.net" % (111111111 * i) for i in range(1, 10)] + ["4917612345678@s.whatsapp.net"]
G += ["49%09d-14000000%02d@g.us" % (111111111 * i, i) for i in range(1, 7)]

ALPHABETS = {
    # message / iq / notification ids: nibble-packable, hex-packable and plain forms
    "id": ["1415389947-15", "3EB05F4A9C21", "msg.7-x", "1431364583-191", "3EB0AA10BB22", "iq_9",
           "1431330096-317", "3EB0C0FFEE01", "msg.8-y", "1431330373-320", "3EB0C0FFEE02", "iq_10"],
    "ts": ["1415470561", "0", "2147483648"],                 # incl. 0 and 2^31
    "count": ["9", "0", "4294967295"],
    "retry": ["1", "2", "5"],                                 # a retry count is >= 1 by meaning
    "flag": ["0", "1"],
    "bool": ["true", "false"],
    "ujid": U,
    "gjid": G,
    "bjid": B,
    "jid": [U[0], G[0], B[0], U[1], G[1], U[2]],              # user / group / broadcast (exactly 6)
    "cjid": [U[0], G[0], U[1], G[1], U[2], G[2]],             # chat: user or group
    "server": ["s.whatsapp.net"],
    "gserver": ["g.us"],
    "text": ["WhatsApp", "Zoë Müller", "日本語 ☺", "Tarek Galal", "a b", "x"],  # attribute text, never empty
    "dtext": [b"Hey there! I am using WhatsApp.", "Grüße 日本 ☺".encode("utf-8"), b""],  # text content
    "blob": [b"\x00\x01\x02\xfe\xff", b"", bytes(range(256)) + b"\x00" * 44],                     # binary content
    "number": [b"4915225256022", b"14155550100", b"5511987654321", b"79049347231", b"27821234567", b"8613800138000"]
              + [("49%09d" % (111111111 * i)).encode() for i in range(1, 7)],
    "numstr": ["1417046548593182", "130615237617000000", "7"],
    "reg4": [b"\x7a\x9c\xec\x4b", b"\x00\x00\x00\x01", b"\xff\xff\xff\xff"],
    "key32": [bytes((i * 7 + 5) & 0xFF for i in range(32)), bytes((i * 13 + 1) & 0xFF for i in range(32)),
              bytes((255 - i) & 0xFF for i in range(32))] + [bytes((i * m + m) & 0xFF for i in range(32)) for m in range(17, 26)],
    "sig64": [bytes((i * 3 + 9) & 0xFF for i in range(64)), bytes((i * 11) & 0xFF for i in range(64)),
              bytes((200 - i) & 0xFF for i in range(64))],
    "reg4u": [b"\x7a\x9c\xec\x4b", b"\x00\x00\x00\x01", b"\xff\xff\xff\xff", b"\x00\x00\x08\x08", b"\x12\x34\x56\x78",
              b"\x00\x01\x00\x00"],
    "url": ["https://mmg.whatsapp.net/d/f/AbCdEf.enc", "https://mms883.whatsapp.net/u/1/2?x=y&z=%20", "url"],
    "ip": ["1.2.3.4", "174.37.199.214", "2a03:2880:f0ff::1"],
    "b64": ["Rk9PQkFS", "A0+b/c==", "x"],
}
LIST_LENS = [1, 2, 0]
# list plans (both tiers, every shape that has a list).  Plan 0 is the cycling above.  Under plan q >= 1 a list
# whose items carry lists themselves (groups -> participants) has len(LIST_PLANS[q]) items and the lists inside its
# i-th item have LIST_PLANS[q][i] items - different inner lists per outer item, all values distinct; the j-th flat
# (non-nested) list of a stanza has LIST_PLANS[q][j mod len] items, so sibling lists (in / out / invalid) differ too.
LIST_PLANS = [None, (2, 0), (1, 2), (0, 2, 1), (3, 1, 2)]


class A(object):
    """Attribute slot.  kind: alphabet name | inline list (a choice / constant) ; opt: may be absent ;
    default: absent == this value (a default written on re-serialisation is not a loss) ;
    same: copy the value of the root attribute of that name ; owner: class implementing this attribute
    (used for signatures: one root cause = one signature)."""
    def __init__(self, name, kind, opt=False, default=None, same=None, owner=None):
        self.name, self.kind, self.opt, self.default, self.same, self.owner = name, kind, opt, default, same, owner


class N(object):
    """Node spec.  tag: str or ('kind', alphabet) ; kids: list of N | O(N) | L(N) | ONEOF(...)."""
    def __init__(self, tag, attrs=(), kids=(), data=None, data_opt=False, label=None):
        self.tag, self.attrs, self.kids, self.data, self.data_opt = tag, list(attrs), list(kids), data, data_opt
        self.label = label        # differences in this node's content are reported under this name (one root cause)


class O(object):
    def __init__(self, node):
        self.node = node


class L(object):
    def __init__(self, node, min=0):
        self.node, self.min = node, min


class ONEOF(object):
    def __init__(self, alts, opt=False):
        self.alts, self.opt = list(alts), opt


class Shape(object):
    def __init__(self, name, cls, direction, owner, spec=None, build=None, convert=None, note=None):
        self.name, self.cls, self.direction, self.owner = name, cls, direction, owner
        self.spec, self.build, self.convert, self.note = spec, build, convert, note
        self.inspect = None       # incoming: f(entity, stanza) -> [(field, expected from the stanza, observed on the entity)]
        self.package = cls.__module__.split(".")[2]

    @property
    def clsname(self):
        return self.cls.__name__


class Case(object):
    def __init__(self, shape, mask, vector, nparts, phase=0, skew=1, plan=0):
        self.shape, self.mask, self.vector, self.nparts = shape, mask, vector, nparts
        self.phase, self.skew, self.plan = phase, skew, plan
        self.labels = {}          # path -> label
        self.node = None          # incoming: the stanza ; outgoing: filled by the caller from entity
        self.entity = None
        self.error = None         # exception raised by the builder (outgoing constructor)
        self.parts = []           # names of the optional parts, bit i of mask <-> parts[i]
        self.owners = {}          # (path, attr) -> owner class name
        self.defaults = []        # (path, attr, default)
        self.args = None          # outgoing: constructor arguments, for the report

    @property
    def key(self):
        return {"shape": self.shape.name, "mask": self.mask, "vector": self.vector, "phase": self.phase,
                "skew": self.skew, "plan": self.plan}

    def present_parts(self):
        return [p for i, p in enumerate(self.parts) if self.mask >> i & 1]


# --------------------------------------------------------------------------------------------------
# the enumerator core
# --------------------------------------------------------------------------------------------------
class Picker(object):
    """Draws slot values for one (mask, vector).  Every optional part is registered on first sight; its
    index is independent of the mask because absent parts are still traversed (and discarded)."""

    def __init__(self, vector, mask, phase=0, skew=1, plan=0):
        self.v, self.mask, self.phase, self.skew = vector, mask, phase, skew
        self.plan = LIST_PLANS[plan]
        self.depth = 0            # list nesting depth of the node being generated
        self.outer_idx = 0        # index of the enclosing outermost list item
        self.nflat = 0            # flat (non-nested) lists seen so far
        self.kc = {}
        self.parts = []
        self.partidx = {}
        self.nlists = 0
        self.root = {}
        self.choice_width = 1

    # -- values
    def pick(self, kind):
        if isinstance(kind, (list, tuple)):
            alpha, key = kind, ("inline",) + tuple(map(repr, kind))
            self.choice_width = max(self.choice_width, len(alpha))
        else:
            alpha, key = ALPHABETS[kind], kind
        k = self.kc.get(key, 0)
        self.kc[key] = k + 1
        return alpha[(self.v + k * self.skew) % len(alpha)]

    def __getattr__(self, kind):
        if kind in ALPHABETS:
            return lambda: self.pick(kind)
        raise AttributeError(kind)

    def choice(self, *alts):
        return self.pick(list(alts))

    # -- presence
    def present(self, part_id, name):
        if part_id not in self.partidx:
            self.partidx[part_id] = len(self.parts)
            self.parts.append(name)
        return bool(self.mask >> self.partidx[part_id] & 1)

    def opt(self, name, fn):
        """Optional constructor argument: the value is always drawn (stable counters), None when absent."""
        val = fn() if callable(fn) else self.pick(fn)
        return val if self.present(("arg", name), name) else None

    def flag(self, name):
        return self.present(("arg", name), name)

    def list_len(self, minimum=0, nested=False):
        if self.plan is None:
            n = LIST_LENS[(self.v + self.phase + self.nlists) % len(LIST_LENS)]
        elif self.depth > 0:
            n = self.plan[self.outer_idx % len(self.plan)]
        elif nested:
            n = len(self.plan)
        else:
            n = self.plan[self.nflat % len(self.plan)]
            self.nflat += 1
        self.nlists += 1
        return max(minimum, n)

    def lst(self, fn, minimum=0):
        return [(fn() if callable(fn) else self.pick(fn)) for _ in range(self.list_len(minimum))]


def _has_list(spec):
    for kid in spec.kids:
        if isinstance(kid, L):
            return True
        sub = [kid] if isinstance(kid, N) else [kid.node] if isinstance(kid, O) else kid.alts if isinstance(kid, ONEOF) else []
        if any(_has_list(x) for x in sub):
            return True
    return False


def _gen_node(p, spec, path, case, item_index=None):
    tag = spec.tag if isinstance(spec.tag, str) else p.pick(spec.tag[1])
    here = path + "/" + (spec.tag if isinstance(spec.tag, str) else "*")
    attrs = {}
    for a in spec.attrs:
        if a.same is not None:
            val = p.root.get(a.same)
        else:
            val = p.pick(a.kind)
        keep = True
        if a.opt:
            keep = p.present(id(a), "%s@%s" % (here, a.name))
            if item_index is not None and item_index % 2 == 1:
                keep = False              # inside lists an optional part is carried by even items only
        if keep:
            attrs[a.name] = val
        if path == "":
            p.root[a.name] = val
        if a.owner:
            case.owners[(here, a.name)] = a.owner
        if a.default is not None:
            case.defaults.append((here, a.name, a.default))
    data = None
    if spec.label:
        case.labels[here] = spec.label
    if spec.data is not None:
        data = p.pick(spec.data)
        if spec.data_opt and not p.present(("data", id(spec)), "%s#data" % here):
            data = None
    children = []
    for kid in spec.kids:
        if isinstance(kid, N):
            children.append(_gen_node(p, kid, here, case, item_index))
        elif isinstance(kid, O):
            child = _gen_node(p, kid.node, here, case, item_index)
            if p.present(id(kid), "%s/%s" % (here, kid.node.tag)):
                children.append(child)
        elif isinstance(kid, L):
            n = p.list_len(kid.min, nested=_has_list(kid.node))
            items = []
            for j in range(max(n, 1)):                # traverse >= 1 item: stable part numbering
                if p.depth == 0:
                    p.outer_idx = j
                p.depth += 1
                items.append(_gen_node(p, kid.node, here, case, j))
                p.depth -= 1
            children.extend(items[:n])
        elif isinstance(kid, ONEOF):
            alts = [_gen_node(p, alt, here, case, item_index) for alt in kid.alts]
            k = p.kc.get(("oneof", id(kid)), 0)
            p.kc[("oneof", id(kid))] = k + 1
            p.choice_width = max(p.choice_width, len(alts))
            chosen = alts[(p.v + k * p.skew) % len(alts)]
            if not kid.opt or p.present(id(kid), "%s/<%s>" % (here, "|".join(str(a.tag) for a in kid.alts))):
                children.append(chosen)
    return ProtocolTreeNode(tag, attrs, children or None, data)


def _one(shape, mask, vector, phase=0, skew=1, plan=0):
    p = Picker(vector, mask, phase, skew, plan)
    case = Case(shape, mask, vector, 0, phase, skew, plan)
    if shape.spec is not None:
        case.node = _gen_node(p, shape.spec, "", case)
    else:
        try:
            case.entity = shape.build(p)
        except Exception as e:                     # constructor of an outgoing entity refused documented arguments
            case.error = e
    case.parts = p.parts
    case.nparts = len(p.parts)
    case._width = p.choice_width
    case._nlists = p.nlists
    return case


def _masks(n):
    """All subsets, fewest parts first."""
    return sorted(range(1 << n), key=lambda m: (bin(m).count("1"), m))


def build_case(name, mask, vector, phase=0, skew=1, plan=0):
    return _one(SHAPES[name], mask, vector, phase, skew, plan)


def gen_cases(name, presence_subsets=True, vectors=3, phases=(0,), skews=(1,), plans=(0,)):
    """phases shift the list lengths against the values, skews change which values meet inside one stanza,
    plans (indices into LIST_PLANS, or "all") give nested / sibling lists different lengths per item.
    Plans other than 0 are only enumerated for shapes that have a list."""
    shape = SHAPES[name]
    probe = _one(shape, 0, 0)
    n = probe.nparts
    nvec = max(vectors, probe._width)
    if plans == "all":
        plans = tuple(range(len(LIST_PLANS)))
    if not probe._nlists:
        plans = (0,)
    masks = _masks(n) if presence_subsets else [0, (1 << n) - 1] if n else [0]
    for mask in masks:
        for skew in skews:
            for phase in phases:
                for plan in plans:
                    for v in range(nvec):
                        yield _one(shape, mask, v, phase, skew, plan)


def gen_entities(name, presence_subsets=True, vectors=3):
    assert SHAPES[name].build is not None, "%s is not an outgoing (builder) shape" % name
    for c in gen_cases(name, presence_subsets, vectors):
        if c.entity is not None:
            yield c.entity


def gen_nodes(name, presence_subsets=True, vectors=3):
    """ProtocolTreeNode objects of the shape; duplicates (an optional part inside an absent parent) removed."""
    seen = set()
    for c in gen_cases(name, presence_subsets, vectors):
        node = c.node
        if node is None and c.entity is not None:
            try:
                node = c.entity.toProtocolTreeNode()
            except Exception:
                node = None
        if node is None:
            continue
        k = canon(node)
        if k in seen:
            continue
        seen.add(k)
        yield node


def names(direction=None, owner=None):
    return [n for n, s in SHAPES.items() if (direction is None or s.direction == direction)
            and (owner is None or s.owner == owner)]


# --------------------------------------------------------------------------------------------------
# strict structural comparison (our own; ProtocolTreeNode.__eq__ is lax and not used)
# --------------------------------------------------------------------------------------------------
def canon(node):
    if node is None:
        return None
    if not isinstance(node, ProtocolTreeNode):
        return ("!notanode", repr(type(node)))
    attrs = tuple(sorted((str(k), repr(v)) for k, v in (node.attributes or {}).items()))
    tag = node.tag if isinstance(node.tag, str) else repr(node.tag)
    return (tag, attrs, node.data if node.data is None or isinstance(node.data, bytes) else repr(node.data),
            tuple(canon(c) for c in (node.children or [])))


def _num(x):
    if isinstance(x, bool):
        return None
    if isinstance(x, int):
        return x
    if isinstance(x, str) and x and (x.isdigit() or (x[0] == "-" and x[1:].isdigit())):
        return int(x)
    return None


def _val_eq(a, b, numeric):
    if type(a) is type(b) and a == b:
        return True
    if numeric:
        na, nb = _num(a), _num(b)
        if na is not None and nb is not None and na == nb:
            return True
    return False


def strict_diff(a, b, numeric=True, group_by_tag=True, path=""):
    """Differences between expected node a and observed node b as (kind, path, attr|None, expected, observed).
    tag, attribute dict (numeric attributes by value when numeric=True; otherwise values must be equal str),
    bytes content, children.  group_by_tag=True compares the ordered sequence of children per tag (relative
    order of differently-tagged siblings is not a field of the stanza); False demands the exact sequence."""
    out = []
    if not isinstance(b, ProtocolTreeNode):
        return [("not-a-node", path, None, "ProtocolTreeNode", type(b).__name__)]
    here = path + "/" + (a.tag if isinstance(a.tag, str) else repr(a.tag))
    if a.tag != b.tag or not isinstance(b.tag, str):
        out.append(("tag-altered", here, None, a.tag, b.tag))
        return out
    aa, ba = a.attributes or {}, b.attributes or {}
    for k, v in aa.items():
        if k not in ba:
            out.append(("attr-lost", here, k, v, None))
        elif ba[k] is None:
            out.append(("attr-none", here, k, v, None))
        elif not _val_eq(v, ba[k], numeric):
            out.append(("attr-altered", here, k, v, ba[k]))
        elif not numeric and type(ba[k]) is not str:
            out.append(("attr-type", here, k, v, ba[k]))
    for k, v in ba.items():
        if k not in aa:
            out.append(("attr-none" if v is None else "attr-added", here, k, None, v))
    if a.data != b.data or (a.data is None) != (b.data is None) or \
            (b.data is not None and not isinstance(b.data, bytes)):
        out.append(("data-altered", here, None, a.data, b.data))
    ac, bc = a.children or [], b.children or []
    if group_by_tag:
        tags = []
        for c in list(ac) + [c for c in bc if isinstance(c.tag, str)]:
            if c.tag not in tags:
                tags.append(c.tag)
        odd = [c for c in bc if not isinstance(c.tag, str)]       # children whose tag is not even a string
        for t in tags:
            xs = [c for c in ac if c.tag == t]
            ys = [c for c in bc if isinstance(c.tag, str) and c.tag == t]
            for x, y in zip(xs, ys):
                out.extend(strict_diff(x, y, numeric, group_by_tag, here))
            missing = len(xs) - len(ys)
            while missing > 0 and odd:                            # a lost child + a child with a garbage tag = altered tag
                y = odd.pop(0)
                out.append(("tag-altered", here + "/" + t, None, t, y.tag))
                missing -= 1
            if missing > 0:
                out.append(("child-lost", here + "/" + t, None, len(xs), len(ys)))
            elif len(ys) > len(xs):
                out.append(("child-added", here + "/" + t, None, len(xs), len(ys)))
        for y in odd:
            out.append(("child-added", here + "/<%s>" % type(y.tag).__name__, None, 0, 1))
    else:
        for x, y in zip(ac, bc):
            out.extend(strict_diff(x, y, numeric, group_by_tag, here))
        if len(ac) != len(bc):
            out.append(("child-lost" if len(ac) > len(bc) else "child-added", here + "/*", None, len(ac), len(bc)))
    return out


def apply_defaults(node, defaults, path=""):
    """absent == documented default: write the default into a copy where the attribute is absent."""
    here = path + "/" + (node.tag if isinstance(node.tag, str) else "*")
    attrs = dict(node.attributes or {})
    for (p, name, d) in defaults:
        if p == here and name not in attrs:
            attrs[name] = d
    kids = [apply_defaults(c, defaults, here) for c in (node.children or [])]
    return ProtocolTreeNode(node.tag, attrs, kids or None, node.data) if isinstance(node.tag, str) else node


def render(node, depth=0):
    if not isinstance(node, ProtocolTreeNode):
        return repr(node)
    attrs = " ".join("%s=%r" % kv for kv in (node.attributes or {}).items())
    s = "<%s%s%s>" % (node.tag, " " if attrs else "", attrs)
    if node.data is not None:
        d = node.data
        s += (repr(d) if len(d) <= 40 else "%r...(%d bytes)" % (d[:24], len(d))) if isinstance(d, (bytes, str)) else repr(d)
    for c in node.children or []:
        s += render(c, depth + 1)
    return s + "</%s>" % (node.tag,)


# --------------------------------------------------------------------------------------------------
# the real codec
# --------------------------------------------------------------------------------------------------
_codec = None


def codec_roundtrip(node):
    """encode with the real WriteEncoder exactly as YowCoderLayer.send does, decode as YowCoderLayer.receive does."""
    global _codec
    if _codec is None:
        from yowsup.layers.coder.encoder import WriteEncoder
        from yowsup.layers.coder.decoder import ReadDecoder
        from yowsup.layers.coder.tokendictionary import TokenDictionary
        td = TokenDictionary()
        _codec = (WriteEncoder(td), ReadDecoder(td))
    enc, dec = _codec
    out = enc.protocolTreeNodeToBytes(node)
    wire = bytearray(out) if type(out) in (list, tuple) else bytearray([out])
    return dec.getProtocolTreeNode(bytearray(bytes(wire)))


# --------------------------------------------------------------------------------------------------
# inventory
# --------------------------------------------------------------------------------------------------
def inventory():
    import pkgutil, importlib, inspect
    import yowsup.layers as layers
    seen = {}
    for m in pkgutil.walk_packages(layers.__path__, "yowsup.layers."):
        if ".protocolentities" not in m.name or ".test_" in m.name:
            continue
        mod = importlib.import_module(m.name)
        for n, c in vars(mod).items():
            if inspect.isclass(c) and issubclass(c, ProtocolEntity) and c is not ProtocolEntity \
                    and c.__module__.startswith("yowsup.layers") and c.__module__ == mod.__name__:
                seen[c.__module__ + "." + n] = c
    return seen


# ==================================================================================================
#                                        THE SHAPES
# ==================================================================================================
from yowsup.layers.auth.protocolentities import (StreamFeaturesProtocolEntity, SuccessProtocolEntity,
                                                 FailureProtocolEntity, StreamErrorProtocolEntity)
from yowsup.layers.protocol_acks.protocolentities import IncomingAckProtocolEntity, OutgoingAckProtocolEntity
from yowsup.layers.protocol_calls.protocolentities import CallProtocolEntity
from yowsup.layers.protocol_chatstate.protocolentities import (IncomingChatstateProtocolEntity,
                                                               OutgoingChatstateProtocolEntity)
from yowsup.layers.protocol_receipts.protocolentities import (IncomingReceiptProtocolEntity,
                                                              OutgoingReceiptProtocolEntity)
from yowsup.layers.protocol_ib.protocolentities import (CleanIqProtocolEntity, DirtyIbProtocolEntity,
                                                        OfflineIbProtocolEntity, AccountIbProtocolEntity)
from yowsup.layers.protocol_iq.protocolentities import (ResultIqProtocolEntity, ErrorIqProtocolEntity,
                                                        PingIqProtocolEntity, PongResultIqProtocolEntity,
                                                        PushIqProtocolEntity, PropsIqProtocolEntity,
                                                        CryptoIqProtocolEntity)
from yowsup.layers.protocol_presence.protocolentities import (
    PresenceProtocolEntity, AvailablePresenceProtocolEntity, UnavailablePresenceProtocolEntity,
    SubscribePresenceProtocolEntity, UnsubscribePresenceProtocolEntity, LastseenIqProtocolEntity,
    ResultLastseenIqProtocolEntity)
from yowsup.layers.protocol_notifications.protocolentities import (
    NotificationProtocolEntity, SetPictureNotificationProtocolEntity, DeletePictureNotificationProtocolEntity,
    StatusNotificationProtocolEntity)
from yowsup.layers.protocol_privacy.protocolentities import PrivacyListIqProtocolEntity
from yowsup.layers.protocol_contacts.protocolentities import (
    GetSyncIqProtocolEntity, ResultSyncIqProtocolEntity, AddContactNotificationProtocolEntity,
    RemoveContactNotificationProtocolEntity, UpdateContactNotificationProtocolEntity,
    ContactsSyncNotificationProtocolEntity)
from yowsup.layers.protocol_profiles.protocolentities import (
    UnregisterIqProtocolEntity, SetStatusIqProtocolEntity, GetStatusesIqProtocolEntity,
    ResultStatusesIqProtocolEntity, GetPictureIqProtocolEntity, ResultGetPictureIqProtocolEntity,
    ListPicturesIqProtocolEntity, SetPictureIqProtocolEntity, SetPrivacyIqProtocolEntity,
    GetPrivacyIqProtocolEntity, ResultPrivacyIqProtocolEntity)
from yowsup.layers.protocol_groups.protocolentities import (
    CreateGroupsIqProtocolEntity, SuccessCreateGroupsIqProtocolEntity, LeaveGroupsIqProtocolEntity,
    SuccessLeaveGroupsIqProtocolEntity, ListGroupsIqProtocolEntity, InfoGroupsIqProtocolEntity,
    SubjectGroupsIqProtocolEntity, ParticipantsGroupsIqProtocolEntity, AddParticipantsIqProtocolEntity,
    PromoteParticipantsIqProtocolEntity, DemoteParticipantsIqProtocolEntity,
    SuccessAddParticipantsIqProtocolEntity, FailureAddParticipantsIqProtocolEntity,
    RemoveParticipantsIqProtocolEntity, SuccessRemoveParticipantsIqProtocolEntity,
    ListGroupsResultIqProtocolEntity, ListParticipantsResultIqProtocolEntity, InfoGroupsResultIqProtocolEntity,
    SubjectGroupsNotificationProtocolEntity, CreateGroupsNotificationProtocolEntity,
    AddGroupsNotificationProtocolEntity, RemoveGroupsNotificationProtocolEntity)
from yowsup.layers.protocol_messages.protocolentities import (
    TextMessageProtocolEntity, ExtendedTextMessageProtocolEntity, BroadcastTextMessage)
from yowsup.layers.protocol_messages.protocolentities.proto import ProtoProtocolEntity
from yowsup.layers.protocol_messages.protocolentities.attributes.attributes_message_meta import MessageMetaAttributes
from yowsup.layers.protocol_messages.protocolentities.attributes.attributes_extendedtext import ExtendedTextAttributes
from yowsup.layers.protocol_messages.protocolentities.attributes.attributes_image import ImageAttributes
from yowsup.layers.protocol_messages.protocolentities.attributes.attributes_audio import AudioAttributes
from yowsup.layers.protocol_messages.protocolentities.attributes.attributes_video import VideoAttributes
from yowsup.layers.protocol_messages.protocolentities.attributes.attributes_document import DocumentAttributes
from yowsup.layers.protocol_messages.protocolentities.attributes.attributes_sticker import StickerAttributes
from yowsup.layers.protocol_messages.protocolentities.attributes.attributes_contact import ContactAttributes
from yowsup.layers.protocol_messages.protocolentities.attributes.attributes_location import LocationAttributes
from yowsup.layers.protocol_messages.protocolentities.attributes.attributes_downloadablemedia import \
    DownloadableMediaMessageAttributes
from yowsup.layers.protocol_messages.proto.e2e_pb2 import Message as PbMessage
from yowsup.layers.protocol_media.protocolentities import (
    ImageDownloadableMediaMessageProtocolEntity, AudioDownloadableMediaMessageProtocolEntity,
    VideoDownloadableMediaMessageProtocolEntity, DocumentDownloadableMediaMessageProtocolEntity,
    StickerDownloadableMediaMessageProtocolEntity, LocationMediaMessageProtocolEntity,
    ContactMediaMessageProtocolEntity, ExtendedTextMediaMessageProtocolEntity,
    RequestUploadIqProtocolEntity, ResultRequestUploadIqProtocolEntity)
from yowsup.layers.axolotl.protocolentities import (
    GetKeysIqProtocolEntity, SetKeysIqProtocolEntity, ResultGetKeysIqProtocolEntity,
    EncryptedMessageProtocolEntity, EncProtocolEntity, RetryOutgoingReceiptProtocolEntity,
    RetryIncomingReceiptProtocolEntity, IdentityChangeEncryptNotification, RequestKeysEncryptNotification)

SHAPES = {}


def _in(name, cls, owner, spec, convert=None, note=None):
    SHAPES[name] = Shape(name, cls, "incoming", owner, spec=spec, convert=convert, note=note)


def _out(name, cls, owner, build, note=None):
    SHAPES[name] = Shape(name, cls, "outgoing", owner, build=build, note=note)


IQ, NOTIF, MSG, IB = "IqProtocolEntity", "NotificationProtocolEntity", "MessageProtocolEntity", "IbProtocolEntity"


def iq_in(kids, typ="result", frm="ujid"):
    return N("iq", [A("type", [typ], owner=IQ), A("id", "id", owner=IQ), A("from", frm, owner=IQ)], kids)


def notif(typ, kids, frm="ujid", notify_opt=False, extra=()):
    """<notification offline id notify type t from>; offline is written as "0" when absent (default)."""
    return N("notification",
             [A("id", "id", owner=NOTIF), A("from", frm, owner=NOTIF), A("t", "ts", owner=NOTIF),
              A("notify", "text", opt=notify_opt, owner=NOTIF),
              A("offline", "flag", opt=True, default="0", owner=NOTIF), A("type", [typ], owner=NOTIF)] + list(extra),
             kids)


# ---- auth ----------------------------------------------------------------------------------------
_in("StreamFeatures", StreamFeaturesProtocolEntity, "auth",
    N("stream:features", [], [L(N(("kind", ["readreceipts", "groups_v2", "privacy", "presence"])))]))
_in("Success", SuccessProtocolEntity, "auth",
    N("success", [A("creation", "ts"), A("location", ["atn", "frc", "ash"]), A("props", "count"), A("t", "ts")]))
_in("Failure", FailureProtocolEntity, "auth",
    N("failure", [A("reason", ["not-authorized", "401", "405"])]))
_in("StreamError.conflict", StreamErrorProtocolEntity, "auth",
    N("stream:error", [], [N("conflict"), O(N("text", data="dtext"))]),
    note="docstring: <stream:error><conflict/><text>Replaced by new connection</text></stream:error>")
_in("StreamError.other", StreamErrorProtocolEntity, "auth",
    N("stream:error", [], [ONEOF([N("ack"), N("xml-not-well-formed")])]),
    note="the <text> child is documented for conflict only")

# ---- acks ----------------------------------------------------------------------------------------
_in("IncomingAck", IncomingAckProtocolEntity, "acks",
    N("ack", [A("id", "id"), A("class", ["message", "receipt", "notification"]), A("from", "jid"), A("t", "ts")]))


def _b_ack(p):
    return OutgoingAckProtocolEntity(p.id(), p.choice("message", "receipt", "notification", "call"),
                                     p.opt("type", ["read", "delivery", "w:gp2"]), p.cjid(),
                                     participant=p.opt("participant", "ujid"))
_out("OutgoingAck", OutgoingAckProtocolEntity, "acks", _b_ack)

# ---- calls ---------------------------------------------------------------------------------------
_CALL_KIDS = [N(t, [A("call-id", "id")]) for t in ("offer", "transport", "relaylatency", "reject", "terminate")]
_in("Call.in", CallProtocolEntity, "calls",
    N("call", [A("id", "id"), A("t", "ts"), A("offline", "flag", opt=True, default="0"), A("from", "ujid"),
               A("notify", "text", opt=True), A("retry", "retry", opt=True), A("e", ["0", "1"], opt=True)],
      [ONEOF(_CALL_KIDS, opt=True)]))


def _b_call(p):
    return CallProtocolEntity(p.opt("id", "id"), p.choice("offer", "transport", "relaylatency", "reject", "terminate"),
                              p.ts(), callId=p.id(), _to=p.ujid())
_out("Call.out", CallProtocolEntity, "calls", _b_call)

# ---- chatstate -----------------------------------------------------------------------------------
_in("IncomingChatstate", IncomingChatstateProtocolEntity, "chatstate",
    N("chatstate", [A("from", "cjid")], [ONEOF([N("composing"), N("paused")])]))
_out("OutgoingChatstate", OutgoingChatstateProtocolEntity, "chatstate",
     lambda p: OutgoingChatstateProtocolEntity(p.choice("composing", "paused"), p.cjid()))

# ---- receipts ------------------------------------------------------------------------------------
_in("IncomingReceipt", IncomingReceiptProtocolEntity, "receipts",
    N("receipt", [A("id", "id"), A("from", "cjid"), A("t", "ts"), A("offline", "flag", opt=True),
                  A("type", ["read", "played"], opt=True), A("participant", "ujid", opt=True)],
      [O(N("list", [], [L(N("item", [A("id", "id")]))]))]))


def _b_receipt(p):
    ids = p.lst("id", 1)
    form = p.choice("scalar", "list")
    mids = ids[0] if (form == "scalar" and len(ids) == 1) else ids
    return OutgoingReceiptProtocolEntity(mids, p.cjid(), read=p.flag("read"),
                                         participant=p.opt("participant", "ujid"), callId=p.opt("callId", "id"))
_out("OutgoingReceipt", OutgoingReceiptProtocolEntity, "receipts", _b_receipt)

# ---- ib ------------------------------------------------------------------------------------------
_in("DirtyIb", DirtyIbProtocolEntity, "ib",
    N("ib", [], [N("dirty", [A("type", ["groups", "account"]), A("timestamp", "ts")])]))
_in("OfflineIb", OfflineIbProtocolEntity, "ib",
    N("ib", [A("from", "server", owner=IB)], [N("offline", [A("count", "count")])]))
_in("AccountIb", AccountIbProtocolEntity, "ib",
    N("ib", [A("from", "server", owner=IB)],
      [N("account", [A("status", ["active", "expired"]), A("kind", ["paid", "free"]), A("creation", "ts"),
                     A("expiration", "ts")])]))
_out("CleanIq", CleanIqProtocolEntity, "ib",
     lambda p: CleanIqProtocolEntity(p.choice("groups", "account"), p.server(), _id=p.opt("id", "id")))

# ---- iq ------------------------------------------------------------------------------------------
_ERROR = N("error", [A("code", ["406", "404", "500"]), A("text", ["not-acceptable", "item-not-found", "internal-server-error"]),
                     A("backoff", "count", opt=True, default="0")])
_in("ResultIq", ResultIqProtocolEntity, "iq", iq_in([]),
    note="pong / set-status / set-subject / promote / demote results")
_in("ErrorIq", ErrorIqProtocolEntity, "iq", iq_in([_ERROR], typ="error", frm="cjid"))
_out("PingIq", PingIqProtocolEntity, "iq", lambda p: PingIqProtocolEntity(to=p.opt("to", "server"), _id=p.opt("id", "id")))
_out("PongResultIq", PongResultIqProtocolEntity, "iq", lambda p: PongResultIqProtocolEntity(p.server(), p.id()))
_out("PushIq", PushIqProtocolEntity, "iq", lambda p: PushIqProtocolEntity())
_out("PropsIq", PropsIqProtocolEntity, "iq", lambda p: PropsIqProtocolEntity())
_out("CryptoIq", CryptoIqProtocolEntity, "iq", lambda p: CryptoIqProtocolEntity())

# ---- presence ------------------------------------------------------------------------------------
_in("Presence.in", PresenceProtocolEntity, "presence",
    N("presence", [A("from", "cjid"), A("type", ["unavailable", "available"], opt=True),
                   A("last", ["deny", "1415470561", "none"], opt=True), A("name", "text", opt=True)]))
_out("Presence.out", PresenceProtocolEntity, "presence", lambda p: PresenceProtocolEntity(name=p.text()))
_out("AvailablePresence", AvailablePresenceProtocolEntity, "presence", lambda p: AvailablePresenceProtocolEntity())
_out("UnavailablePresence", UnavailablePresenceProtocolEntity, "presence", lambda p: UnavailablePresenceProtocolEntity())
_out("SubscribePresence", SubscribePresenceProtocolEntity, "presence", lambda p: SubscribePresenceProtocolEntity(p.ujid()))
_out("UnsubscribePresence", UnsubscribePresenceProtocolEntity, "presence", lambda p: UnsubscribePresenceProtocolEntity(p.ujid()))
_out("LastseenIq", LastseenIqProtocolEntity, "presence", lambda p: LastseenIqProtocolEntity(p.ujid(), _id=p.opt("id", "id")))
_in("ResultLastseenIq", ResultLastseenIqProtocolEntity, "presence", iq_in([N("query", [A("seconds", "count")])]))

# ---- notifications -------------------------------------------------------------------------------
_in("SetPictureNotification", SetPictureNotificationProtocolEntity, "notifications",
    notif("picture", [N("set", [A("jid", "cjid"), A("id", "id")])], frm="cjid"))
_in("DeletePictureNotification", DeletePictureNotificationProtocolEntity, "notifications",
    notif("picture", [N("delete", [A("jid", "cjid")])], frm="cjid"))
_in("StatusNotification", StatusNotificationProtocolEntity, "notifications",
    notif("status", [N("set", [], [], data="dtext")]))
_out("Notification.out", NotificationProtocolEntity, "notifications",
     lambda p: NotificationProtocolEntity(p.choice("status", "picture"), p.id(), p.ujid(), p.ts(), p.text(), p.choice("0", "1")),
     note="sendNotification forwards any entity with tag notification")

# ---- privacy -------------------------------------------------------------------------------------
def _b_privacylist(p):
    name = p.opt("name", ["default", "block"])
    return PrivacyListIqProtocolEntity(name) if name is not None else PrivacyListIqProtocolEntity()
_out("PrivacyListIq", PrivacyListIqProtocolEntity, "privacy", _b_privacylist)

# ---- contacts ------------------------------------------------------------------------------------
for _n, _c, _t in (("AddContactNotification", AddContactNotificationProtocolEntity, "add"),
                   ("RemoveContactNotification", RemoveContactNotificationProtocolEntity, "remove"),
                   ("UpdateContactNotification", UpdateContactNotificationProtocolEntity, "update")):
    _in(_n, _c, "contacts", notif("contacts", [N(_t, [A("jid", "ujid")])]))
_in("ContactsSyncNotification", ContactsSyncNotificationProtocolEntity, "contacts",
    notif("contacts", [N("sync", [A("after", "ts")])], notify_opt=True),
    note="docstring shows no notify attribute")
_USER_J = N("user", [A("jid", "ujid")], [], data="number")
_in("ResultSyncIq", ResultSyncIqProtocolEntity, "contacts",
    iq_in([N("sync", [A("index", "count"), A("wait", "count", opt=True), A("last", "bool"), A("version", "numstr"),
                      A("sid", "numstr")],
             [O(N("in", [], [L(_USER_J, min=1)])), O(N("out", [], [L(N("user", [A("jid", "ujid")], [], data="number"), min=1)])),
              O(N("invalid", [], [L(N("user", [], [], data="number"), min=1)]))])]))


def _b_getsync(p):
    kw = {}
    if p.flag("mode"):
        kw["mode"] = p.choice("full", "delta")
    if p.flag("context"):
        kw["context"] = p.choice("registration", "interactive")
    sid = p.opt("sid", "numstr")
    return GetSyncIqProtocolEntity([n.decode() for n in p.lst("number")], sid=sid, index=p.choice(0, 1),
                                   last=p.choice(True, False), **kw)
_out("GetSyncIq", GetSyncIqProtocolEntity, "contacts", _b_getsync)

# ---- profiles ------------------------------------------------------------------------------------
_in("ResultGetPictureIq", ResultGetPictureIqProtocolEntity, "profiles",
    iq_in([N("picture", [A("type", ["image", "preview"]), A("id", "id")], [], data="blob")], frm="cjid"))
_in("ResultPrivacyIq", ResultPrivacyIqProtocolEntity, "profiles",
    iq_in([N("privacy", [], [L(N("category", [A("name", ["last", "status", "profile"]),
                                                A("value", ["all", "contacts", "none"])]))])]))
_in("ResultStatusesIq", ResultStatusesIqProtocolEntity, "profiles",
    iq_in([N("status", [], [L(N("user", [A("jid", "ujid"), A("t", "ts")], [], data="dtext"))])], frm="server"))
_out("GetPictureIq", GetPictureIqProtocolEntity, "profiles",
     lambda p: GetPictureIqProtocolEntity(p.cjid(), preview=p.choice(True, False), _id=p.opt("id", "id")))
_out("SetPictureIq", SetPictureIqProtocolEntity, "profiles",
     lambda p: SetPictureIqProtocolEntity(p.cjid(), p.blob(), p.blob(), pictureId=p.opt("pictureId", "id"),
                                          _id=p.opt("id", "id")))
_out("ListPicturesIq", ListPicturesIqProtocolEntity, "profiles",
     lambda p: ListPicturesIqProtocolEntity(p.ujid(), p.lst("ujid", 1)))
_out("GetPrivacyIq", GetPrivacyIqProtocolEntity, "profiles", lambda p: GetPrivacyIqProtocolEntity())


def _b_setprivacy(p):
    names = p.opt("names", lambda: p.choice(["status"], ["profile", "last"], "last"))
    return SetPrivacyIqProtocolEntity(p.choice("all", "contacts", "none"), names)
_out("SetPrivacyIq", SetPrivacyIqProtocolEntity, "profiles", _b_setprivacy)
_out("SetStatusIq", SetStatusIqProtocolEntity, "profiles",
     lambda p: SetStatusIqProtocolEntity(p.dtext(), _id=p.opt("id", "id")))
_out("GetStatusesIq", GetStatusesIqProtocolEntity, "profiles",
     lambda p: GetStatusesIqProtocolEntity(p.lst("ujid"), _id=p.opt("id", "id")))
_out("UnregisterIq", UnregisterIqProtocolEntity, "profiles", lambda p: UnregisterIqProtocolEntity(),
     note="no layer claims it (no xmlns on the iq); serialisation only")

# ---- groups --------------------------------------------------------------------------------------
_PARTICIPANT_T = N("participant", [A("jid", "ujid"), A("type", ["admin", "superadmin"], opt=True)])
_GROUP = N("group", [A("id", "gid"), A("creator", "ujid"), A("creation", "ts"), A("subject", "text"),
                     A("s_t", "ts"), A("s_o", "ujid")], [L(_PARTICIPANT_T)])
ALPHABETS["gid"] = ["4915225256022-1415389947", "14155550100-1600000000", "120363001234567890",
                    "5511987654321-1431204051", "27821234567-1431330385", "120363009876543210"]
_in("SuccessCreateGroupsIq", SuccessCreateGroupsIqProtocolEntity, "groups",
    iq_in([N("group", [A("id", "gid")])], frm="gserver"))
_in("SuccessLeaveGroupsIq", SuccessLeaveGroupsIqProtocolEntity, "groups",
    iq_in([N("leave", [], [N("group", [A("id", "gjid")])])], frm="gserver"))
_in("SuccessAddParticipantsIq", SuccessAddParticipantsIqProtocolEntity, "groups",
    iq_in([L(N("add", [A("type", ["success"]), A("participant", "ujid")]))], frm="gjid"))
_in("SuccessRemoveParticipantsIq", SuccessRemoveParticipantsIqProtocolEntity, "groups",
    iq_in([L(N("remove", [A("type", ["success"]), A("participant", "ujid")]))], frm="gjid"))
_in("FailureAddParticipantsIq", FailureAddParticipantsIqProtocolEntity, "groups",
    iq_in([N("error", [A("code", ["404", "406", "500"]), A("text", ["item-not-found", "not-acceptable", "internal-server-error"]),
                       A("backoff", "count", opt=True, default="0")])], typ="error", frm="gjid"))
_in("ListParticipantsResultIq", ListParticipantsResultIqProtocolEntity, "groups",
    iq_in([L(N("participant", [A("jid", "ujid")]))], frm="gjid"))
_in("InfoGroupsResultIq", InfoGroupsResultIqProtocolEntity, "groups",
    iq_in([N("group", [A("subject", "text"), A("creation", "ts"), A("creator", "ujid"), A("s_t", "ts"),
                       A("id", "gid"), A("s_o", "ujid")], [L(_PARTICIPANT_T)])], frm="gjid"),
    note="also built by the axolotl send layer for group sends")
_in("ListGroupsResultIq", ListGroupsResultIqProtocolEntity, "groups",
    iq_in([N("groups", [], [L(_GROUP)])], frm="gserver"))


def gnotif(kids, extra=()):
    return notif("w:gp2", kids, frm="gjid", extra=[A("participant", "ujid", owner="GroupsNotificationProtocolEntity")] + list(extra))
_in("SubjectGroupsNotification", SubjectGroupsNotificationProtocolEntity, "groups",
    gnotif([N("subject", [A("s_t", "ts"), A("s_o", "ujid"), A("subject", "text")])]))
_in("CreateGroupsNotification", CreateGroupsNotificationProtocolEntity, "groups",
    gnotif([N("create", [A("type", ["new"]), A("key", ["4915225256022-abcdef@temp", "14155550100-0011ff@temp"])],
              [N("group", [A("id", "gid"), A("creator", "ujid"), A("creation", "ts"), A("subject", "text"),
                           A("s_t", "ts"), A("s_o", "ujid")], [L(_PARTICIPANT_T)])])]))
_in("AddGroupsNotification", AddGroupsNotificationProtocolEntity, "groups",
    gnotif([N("add", [], [L(N("participant", [A("jid", "ujid")]))])]))
_in("RemoveGroupsNotification", RemoveGroupsNotificationProtocolEntity, "groups",
    gnotif([N("remove", [A("subject", "text")], [L(N("participant", [A("jid", "ujid")]))])],
           extra=[A("mode", ["none"], opt=True)]),
    note="docstring shows mode=\"none\" on the notification")

_out("CreateGroupsIq", CreateGroupsIqProtocolEntity, "groups",
     lambda p: CreateGroupsIqProtocolEntity(p.text(), _id=p.opt("id", "id"), participants=p.opt("participants", lambda: p.lst("ujid"))))
_out("InfoGroupsIq", InfoGroupsIqProtocolEntity, "groups", lambda p: InfoGroupsIqProtocolEntity(p.gjid(), _id=p.opt("id", "id")))
_out("LeaveGroupsIq", LeaveGroupsIqProtocolEntity, "groups",
     lambda p: LeaveGroupsIqProtocolEntity(p.lst("gjid", 1) if p.choice("list", "scalar") == "list" else p.gjid()))
_out("ListGroupsIq", ListGroupsIqProtocolEntity, "groups",
     lambda p: ListGroupsIqProtocolEntity(p.choice("participating", "owning"), _id=p.opt("id", "id")))
_out("SubjectGroupsIq", SubjectGroupsIqProtocolEntity, "groups",
     lambda p: SubjectGroupsIqProtocolEntity(p.gjid(), p.choice(*[b for b in ALPHABETS["dtext"]] + ["a str subject"]), _id=p.opt("id", "id")),
     note="subject as bytes (3 values) and as str, which is what yowsup-cli passes (demos/cli/layer.py:284)")
_out("ParticipantsGroupsIq", ParticipantsGroupsIqProtocolEntity, "groups",
     lambda p: ParticipantsGroupsIqProtocolEntity(p.gjid(), p.lst("ujid"), p.choice("add", "promote", "remove", "demote"), _id=p.opt("id", "id")))
for _n, _c in (("AddParticipantsIq", AddParticipantsIqProtocolEntity), ("PromoteParticipantsIq", PromoteParticipantsIqProtocolEntity),
               ("DemoteParticipantsIq", DemoteParticipantsIqProtocolEntity), ("RemoveParticipantsIq", RemoveParticipantsIqProtocolEntity)):
    _out(_n, _c, "groups", (lambda c: lambda p: c(p.gjid(), p.lst("ujid"), _id=p.opt("id", "id")))(_c))

# ---- messages / media: node level (deep payload mapping is C10) ---------------------------------------
def _pb(kind, v):
    """Serialized e2e Message payloads per media kind, 3 variants each: fixture-like, non-ASCII / empty parts, minimal."""
    m = PbMessage()
    txt = ["caption", "Grüße 日本 ☺", ""][v % 3]
    blob = [b"THUMBNAIL", b"", b"\x00\xff" * 40][v % 3]
    n = [123, 0, 2 ** 31][v % 3]

    def dl(x, mime):
        x.url = ALPHABETS["url"][v % 3]
        x.mimetype = mime
        x.file_sha256 = [b"SHA256", b"\x00" * 32, bytes(range(32))][v % 3]
        x.file_length = max(n, 1)
        x.media_key = [b"MEDIA_KEY", b"\x01" * 32, bytes(range(32, 64))][v % 3]
    if kind == "conversation":
        m.conversation = ["body_data", "Grüße 日本 ☺", "x"][v % 3]
    elif kind == "extended_text":
        m.extended_text_message.text = ["see https://example.org/a", "日本 https://example.org/ü", "x"][v % 3]
        if v % 3 != 2:
            m.extended_text_message.matched_text = "https://example.org/a"
            m.extended_text_message.canonical_url = "https://example.org/a"
            m.extended_text_message.description = txt or "d"
            m.extended_text_message.title = "title"
            m.extended_text_message.jpeg_thumbnail = blob or b"T"
    elif kind == "image":
        dl(m.image_message, "image/jpeg")
        m.image_message.width, m.image_message.height = 20 + v, 30 + v
        if v % 3 != 2:
            m.image_message.caption = txt or "c"
            m.image_message.jpeg_thumbnail = blob or b"T"
    elif kind == "sticker":
        dl(m.sticker_message, "image/webp")
        m.sticker_message.width, m.sticker_message.height = 512, 512
        if v % 3 != 2:
            m.sticker_message.png_thumbnail = blob or b"T"
    elif kind == "audio":
        dl(m.audio_message, "audio/ogg")
        m.audio_message.seconds = 24 + v
        m.audio_message.ptt = (v % 2 == 0)
    elif kind == "video":
        dl(m.video_message, "video/mp4")
        m.video_message.width, m.video_message.height, m.video_message.seconds = 1 + v, 2 + v, 3 + v
        if v % 3 != 2:
            m.video_message.caption = txt or "c"
            m.video_message.jpeg_thumbnail = blob or b"T"
    elif kind == "document":
        dl(m.document_message, "application/pdf")
        m.document_message.file_name = ["file.pdf", "Grüße.pdf", "x"][v % 3]
        if v % 3 != 2:
            m.document_message.title = "title"
            m.document_message.page_count = 3 + v
            m.document_message.jpeg_thumbnail = blob or b"T"
    elif kind == "location":
        m.location_message.degrees_latitude = [30.089037, -33.8688, 0.5][v % 3]
        m.location_message.degrees_longitude = [31.319488, 151.2093, -0.5][v % 3]
        if v % 3 != 2:
            m.location_message.name = txt or "n"
            m.location_message.address = "address"
            m.location_message.url = "https://maps.example/x"
            m.location_message.jpeg_thumbnail = blob or b"T"
    elif kind == "contact":
        m.contact_message.display_name = ["abc", "Zoë 日本", "x"][v % 3]
        m.contact_message.vcard = [b"BEGIN:VCARD\nVERSION:3.0\nN:;abc;;;\nEND:VCARD", "BEGIN:VCARD\nFN:Zoë\nEND:VCARD".encode("utf-8"), b"v"][v % 3]
    return m.SerializeToString()


for _k in ("conversation", "extended_text", "image", "sticker", "audio", "video", "document", "location", "contact"):
    ALPHABETS["pb:" + _k] = [_pb(_k, v) for v in range(3)]


def msg_in(mtype, kids):
    """<message t from offline type id notify participant? retry?>; offline is written as "0" when absent."""
    return N("message", [A("id", "id", owner=MSG), A("from", "cjid", owner=MSG), A("t", "ts", owner=MSG),
                         A("type", [mtype], owner=MSG), A("notify", "text", opt=True, owner=MSG),
                         A("offline", "flag", opt=True, default="0", owner=MSG),
                         A("participant", "ujid", opt=True, owner=MSG), A("retry", "retry", opt=True, owner=MSG)], kids)


def _via_messages_layer(node):
    """TextMessage / ExtendedTextMessage are built by YowMessagesProtocolLayer.recvMessageStanza itself
    (no fromProtocolTreeNode call): run the real handler and take what it hands upward."""
    from yowsup.layers.protocol_messages.layer import YowMessagesProtocolLayer
    layer = YowMessagesProtocolLayer()
    up, down = [], []
    layer.toUpper = up.append
    layer.toLower = down.append
    layer.receive(node)
    if len(up) != 1:
        raise AssertionError("messages layer delivered %d entities upward (and %d stanzas downward)" % (len(up), len(down)))
    return up[0]


_in("TextMessage.in", TextMessageProtocolEntity, "messages",
    msg_in("text", [N("proto", [], [], data="pb:conversation")]), convert=_via_messages_layer)
_in("ExtendedTextMessage.in", ExtendedTextMessageProtocolEntity, "messages",
    msg_in("text", [N("proto", [], [], data="pb:extended_text")]), convert=_via_messages_layer)
for _n, _c, _mt, _k in (
        ("ImageMessage.in", ImageDownloadableMediaMessageProtocolEntity, ["image"], "image"),
        ("StickerMessage.in", StickerDownloadableMediaMessageProtocolEntity, ["sticker"], "sticker"),
        ("AudioMessage.in", AudioDownloadableMediaMessageProtocolEntity, ["audio", "ptt"], "audio"),
        ("VideoMessage.in", VideoDownloadableMediaMessageProtocolEntity, ["video", "gif"], "video"),
        ("DocumentMessage.in", DocumentDownloadableMediaMessageProtocolEntity, ["document"], "document"),
        ("LocationMessage.in", LocationMediaMessageProtocolEntity, ["location"], "location"),
        ("ContactMessage.in", ContactMediaMessageProtocolEntity, ["contact"], "contact"),
        ("ExtendedTextMediaMessage.in", ExtendedTextMediaMessageProtocolEntity, ["url"], "extended_text")):
    _in(_n, _c, "media", msg_in("media", [N("proto", [A("mediatype", _mt)], [], data="pb:" + _k)]))


from yowsup.layers.protocol_media.protocolentities import MediaMessageProtocolEntity
_in("MediaMessage.in", MediaMessageProtocolEntity, "media",
    msg_in("media", [N("proto", [A("mediatype", ["livelocation", "product", "vcard_array"])], [], data="pb:contact")]),
    note="unsupported mediatype: the media layer builds the base entity only to acknowledge the message")


def _meta_out(p):
    """What applications set on an outgoing message: recipient, optionally their own id."""
    return MessageMetaAttributes(id=p.opt("id", "id"), recipient=p.cjid())


def _dl(p, mime):
    return DownloadableMediaMessageAttributes(mime, p.choice(123, 1, 2 ** 31), p.key32(), url=p.opt("url", "url"),
                                              media_key=p.opt("media_key", "key32"))


def _b_text(p):
    body = p.choice("body_data", "Grüße 日本 ☺", "x")
    meta = _meta_out(p)                      # drawn unconditionally: part numbering must not depend on the vector
    if p.choice("meta", "to") == "to":
        return TextMessageProtocolEntity(body, to=meta.recipient)
    return TextMessageProtocolEntity(body, meta)
_out("TextMessage.out", TextMessageProtocolEntity, "messages", _b_text)
def _b_forward(p):
    """an application forwarding a received text message: entity built by the messages layer, then .forward(to)"""
    attrs = {"id": p.id(), "from": p.cjid(), "t": "1415470561", "type": "text"}
    for name, kind in (("notify", "text"), ("participant", "ujid"), ("offline", "flag")):
        val = p.opt(name, kind)
        if val is not None:
            attrs[name] = val
    node = ProtocolTreeNode("message", attrs, [ProtocolTreeNode("proto", {}, None, p.pick("pb:conversation"))])
    return _via_messages_layer(node).forward(p.cjid(), _id=p.opt("new_id", "id"))
_out("TextMessage.forward", TextMessageProtocolEntity, "messages", _b_forward)
_out("ExtendedTextMessage.out", ExtendedTextMessageProtocolEntity, "messages",
     lambda p: ExtendedTextMessageProtocolEntity(
         ExtendedTextAttributes(p.choice("see https://example.org/a", "日本 https://example.org/ü", "x"),
                                "https://example.org/a", "https://example.org/a", "description", "title", b"THUMB", None),
         _meta_out(p)))
_out("BroadcastTextMessage", BroadcastTextMessage, "messages",
     lambda p: BroadcastTextMessage(p.lst("ujid", 1), p.choice("body_data", "Grüße 日本 ☺", "x")))
_out("ImageMessage.out", ImageDownloadableMediaMessageProtocolEntity, "media",
     lambda p: ImageDownloadableMediaMessageProtocolEntity(
         ImageAttributes(_dl(p, "image/jpeg"), 20, 30, caption=p.opt("caption", lambda: p.choice("caption", "Grüße ☺")),
                         jpeg_thumbnail=p.opt("thumb", "blob")), _meta_out(p)))
_out("StickerMessage.out", StickerDownloadableMediaMessageProtocolEntity, "media",
     lambda p: StickerDownloadableMediaMessageProtocolEntity(
         StickerAttributes(_dl(p, "image/webp"), 512, 512, png_thumbnail=p.opt("thumb", "blob")), _meta_out(p)))
_out("AudioMessage.out", AudioDownloadableMediaMessageProtocolEntity, "media",
     lambda p: AudioDownloadableMediaMessageProtocolEntity(
         AudioAttributes(_dl(p, "audio/ogg"), p.choice(24, 0, 3600), p.choice(True, False)), _meta_out(p)))
_out("VideoMessage.out", VideoDownloadableMediaMessageProtocolEntity, "media",
     lambda p: VideoDownloadableMediaMessageProtocolEntity(
         VideoAttributes(_dl(p, "video/mp4"), 1, 2, 3, caption=p.opt("caption", lambda: p.choice("caption", "Grüße ☺")),
                         jpeg_thumbnail=p.opt("thumb", "blob")), _meta_out(p)))
_out("DocumentMessage.out", DocumentDownloadableMediaMessageProtocolEntity, "media",
     lambda p: DocumentDownloadableMediaMessageProtocolEntity(
         DocumentAttributes(_dl(p, "application/pdf"), p.choice("file.pdf", "Grüße.pdf"), 123,
                            title=p.opt("title", lambda: "title"), page_count=p.opt("pages", lambda: 3),
                            jpeg_thumbnail=p.opt("thumb", "blob")), _meta_out(p)))
_out("LocationMessage.out", LocationMediaMessageProtocolEntity, "media",
     lambda p: LocationMediaMessageProtocolEntity(
         LocationAttributes(p.choice(30.089037, -33.8688, 0.5), p.choice(31.319488, 151.2093, -0.5),
                            name=p.opt("name", lambda: p.choice("place", "Grüße ☺")),
                            address=p.opt("address", lambda: "address"), url=p.opt("url", "url")), _meta_out(p)))
_out("ContactMessage.out", ContactMediaMessageProtocolEntity, "media",
     lambda p: ContactMediaMessageProtocolEntity(
         ContactAttributes(p.choice("abc", "Zoë 日本", "x"), b"BEGIN:VCARD\nVERSION:3.0\nN:;abc;;;\nEND:VCARD"), _meta_out(p)))
_out("ExtendedTextMediaMessage.out", ExtendedTextMediaMessageProtocolEntity, "media",
     lambda p: ExtendedTextMediaMessageProtocolEntity(
         ExtendedTextAttributes(p.choice("see https://example.org/a", "日本 https://example.org/ü", "x"),
                                "https://example.org/a", "https://example.org/a", "description", "title", b"THUMB", None),
         _meta_out(p)))
_out("RequestUploadIq", RequestUploadIqProtocolEntity, "media",
     lambda p: RequestUploadIqProtocolEntity(p.choice("image", "audio", "video", "document"), b64Hash=p.b64(),
                                             size=p.choice(123, "4096", 2 ** 31), origHash=p.opt("origHash", "b64")))
_in("ResultRequestUploadIq", ResultRequestUploadIqProtocolEntity, "media",
    iq_in([ONEOF([N("encr_media", [A("url", "url"), A("ip", "ip", opt=True), A("resume", "count", opt=True, default="0")]),
                  N("duplicate", [A("url", "url")])])], frm="server"),
    note="no docstring; shape from test_iq_requestupload_result.py and the class")

# ---- axolotl -------------------------------------------------------------------------------------
_ENC = N("enc", [A("type", ["pkmsg", "msg", "skmsg"]), A("v", ["2", "1"]),
                 A("mediatype", ["image", "audio", "location", "document", "contact"], opt=True)], [], data="blob")
_in("EncryptedMessage.in", EncryptedMessageProtocolEntity, "axolotl",
    msg_in(("text"), [L(_ENC, min=1)]))
SHAPES["EncryptedMessage.in"].spec.attrs[3] = A("type", ["text", "media"], owner=MSG)


def _b_encmsg(p):
    """as YowAxolotlSendLayer.sendEncEntities: meta attributes taken from the plaintext outgoing stanza"""
    plain = ProtocolTreeNode("message", {"to": p.cjid(), "type": p.choice("text", "media"), "id": p.id()})
    meta = MessageMetaAttributes.from_message_protocoltreenode(plain)
    meta.participant = p.opt("participant", "ujid")
    mt = p.opt("mediatype", ["image", "audio", "document"])
    form = p.choice("contact", "group", "group+sessions")
    if form == "contact":
        encs = [EncProtocolEntity(p.choice("msg", "pkmsg"), 2, p.blob(), mt)]
    else:
        encs = []
        if form == "group+sessions":
            encs = [EncProtocolEntity(p.choice("msg", "pkmsg"), 2, p.blob(), mt, jid=j) for j in p.lst("ujid", 1)]
        encs.append(EncProtocolEntity("skmsg", 2, p.blob(), mt))
    return EncryptedMessageProtocolEntity(encs, plain["type"], meta)
_out("EncryptedMessage.out", EncryptedMessageProtocolEntity, "axolotl", _b_encmsg)
_out("Proto", ProtoProtocolEntity, "axolotl",
     lambda p: ProtoProtocolEntity(p.pick("pb:conversation"), p.opt("mediatype", ["image", "audio", "url"])),
     note="child appended to the decrypted stanza by YowAxolotlReceiveLayer")
_in("RetryIncomingReceipt", RetryIncomingReceiptProtocolEntity, "axolotl",
    N("receipt", [A("id", "id"), A("from", "cjid"), A("t", "ts"), A("type", ["retry"]), A("participant", "ujid", opt=True),
                  A("offline", "flag", opt=True)],
      [N("retry", [A("count", "retry"), A("t", "ts"), A("id", None, same="id"), A("v", ["1", "2"])]),
       N("registration", [], [], data="reg4")]))
def _b_retryout(p):
    attrs = {"id": p.id(), "from": p.cjid(), "t": p.ts(), "type": "text"}
    part = p.opt("participant", "ujid")
    if part is not None:
        attrs["participant"] = part
    e = RetryOutgoingReceiptProtocolEntity.fromMessageNode(ProtocolTreeNode("message", attrs), p.choice(2056, 1, 0x7FFFFFFF))
    e.count = p.choice(1, 2, 5)
    return e
_out("RetryOutgoingReceipt", RetryOutgoingReceiptProtocolEntity, "axolotl", _b_retryout,
     note="built by YowAxolotlReceiveLayer.send_retry from the undecryptable message stanza")
_KEYUSER = N("user", [A("jid", "ujid")],
             [N("registration", [], [], data="reg4u"),
              N("type", [], [], data=[b"\x00\x00\x00\x05", b"\x05"], label="int-field-width"),
              N("identity", [], [], data="key32"),
              N("skey", [], [N("id", [], [], data=[b"\x00\x00\x00\x00", b"\x00\x00\x01", b"\xff\xff\xff"], label="int-field-width"),
                              N("value", [], [], data="key32"), N("signature", [], [], data="sig64")]),
              N("key", [], [N("id", [], [], data=[b"\x00\x36\xb5\x45", b"\x36\xb5\x45", b"\x01"], label="int-field-width"),
                            N("value", [], [], data="key32")])])
_in("ResultGetKeysIq", ResultGetKeysIqProtocolEntity, "axolotl",
    iq_in([N("list", [], [L(_KEYUSER)])], frm="server"),
    note="vector 0 uses the 4-byte widths of the fixture test, vector 1 the widths of the docstring (type 05, 3-byte ids)")
_in("IdentityChangeEncryptNotification", IdentityChangeEncryptNotification, "axolotl",
    notif("encrypt", [N("identity")], frm="server", notify_opt=True), note="docstring shows no notify / offline")
_in("RequestKeysEncryptNotification", RequestKeysEncryptNotification, "axolotl",
    notif("encrypt", [N("count", [A("value", "count")])], frm="server", notify_opt=True),
    note="docstring shows no notify / offline")
_out("GetKeysIq", GetKeysIqProtocolEntity, "axolotl",
     lambda p: GetKeysIqProtocolEntity(p.lst("ujid"), reason=p.opt("reason", ["identity"])))


def _b_setkeys(p):
    """as YowAxolotlControlLayer.flush_keys: ids 3 bytes, keys 32 bytes, registration 4 bytes (or generated)"""
    prekeys = dict((bytes([0, 0, i + 1]), k) for i, k in enumerate(p.lst("key32")))
    return SetKeysIqProtocolEntity(p.key32(), (b"\x00\x00\x00", p.key32(), p.sig64()), prekeys, 5,
                                   p.opt("registrationId", "reg4"))
_out("SetKeysIq", SetKeysIqProtocolEntity, "axolotl", _b_setkeys)


# classes of the inventory that are outside the quantifier of C09, with the reason
EXCLUDED = {
    "AuthProtocolEntity": "legacy WAUTH handshake entity; no layer handler references it",
    "ChallengeProtocolEntity": "legacy WAUTH handshake entity; no layer handler references it",
    "ResponseProtocolEntity": "legacy WAUTH handshake entity; no layer handler references it",
    "AckProtocolEntity": "abstract base of Incoming/OutgoingAck",
    "ChatstateProtocolEntity": "abstract base of Incoming/OutgoingChatstate",
    "ReceiptProtocolEntity": "abstract base of Incoming/OutgoingReceipt",
    "IbProtocolEntity": "abstract base of the ib entities (covered through them)",
    "IqProtocolEntity": "abstract base of every iq entity (covered through them)",
    "SyncIqProtocolEntity": "abstract base of Get/ResultSyncIq",
    "ContactNotificationProtocolEntity": "abstract base of the contacts notifications",
    "PictureNotificationProtocolEntity": "abstract base of Set/DeletePictureNotification",
    "PictureIqProtocolEntity": "abstract base of the profile picture iqs",
    "GroupsIqProtocolEntity": "abstract base of the groups iqs",
    "GroupsNotificationProtocolEntity": "abstract base of the w:gp2 notifications",
    "MessageProtocolEntity": "abstract base of all message entities (covered through them)",
    "ProtomessageProtocolEntity": "abstract base of text / media message entities",
    "DownloadableMediaMessageProtocolEntity": "abstract base of the downloadable media message entities",
    "EncProtocolEntity": "part of EncryptedMessage (covered inside EncryptedMessage.in / .out)",
}


# --------------------------------------------------------------------------------------------------
# entity-level oracles: what the accessors of the entity must say, read from the stanza by an independent walk.
# They matter where a re-serialised stanza alone could hide a defect or localise it badly: per-item containers
# (each Group's participants, each user's key bundle, the in / out / invalid number lists ...).
# --------------------------------------------------------------------------------------------------
def _kids(node, *path):
    """children reached by following the tag path; the last tag may be None = all children"""
    cur = [node]
    for t in path:
        cur = [c for n in cur for c in (n.children or []) if t is None or c.tag == t]
    return cur


def _cmp(out, field, expected, observed):
    if expected != observed:
        out.append((field, expected, observed))


def _pmap(group_node):
    return dict((p["jid"], p["type"]) for p in _kids(group_node, "participant"))


def _i_listgroups(e, n):
    out = []
    gnodes = _kids(n, "groups", "group")
    groups = e.getGroups()
    _cmp(out, "len(getGroups())", len(gnodes), len(groups))
    for i, (gn, g) in enumerate(zip(gnodes, groups)):
        _cmp(out, "Group[%d].getId()" % i, gn["id"], g.getId())
        _cmp(out, "Group.getParticipants()", _pmap(gn), dict(g.getParticipants()))
        _cmp(out, "Group.getSubject()", gn["subject"], g.getSubject())
        _cmp(out, "Group.getCreator()", gn["creator"], g.getCreator())
        _cmp(out, "Group.getSubjectOwner()", gn["s_o"], g.getSubjectOwner())
        _cmp(out, "Group.getSubjectTime()", int(gn["s_t"]), g.getSubjectTime())
        _cmp(out, "Group.getCreationTime()", int(gn["creation"]), g.getCreationTime())
    return out


def _i_groupinfo(path):
    def f(e, n):
        out = []
        gn = _kids(n, *path)[0]
        _cmp(out, "getParticipants()", _pmap(gn), dict(e.getParticipants()))
        _cmp(out, "getGroupId()", gn["id"], e.getGroupId())
        _cmp(out, "getSubject()", gn["subject"], e.getSubject())
        _cmp(out, "getCreatorJid()", gn["creator"], e.getCreatorJid())
        _cmp(out, "getSubjectOwnerJid()", gn["s_o"], e.getSubjectOwnerJid())
        _cmp(out, "getCreationTimestamp()", int(gn["creation"]), e.getCreationTimestamp())
        _cmp(out, "getSubjectTimestamp()", int(gn["s_t"]), e.getSubjectTimestamp())
        _cmp(out, "getGroupAdmins()", sorted(j for j, t in _pmap(gn).items() if t == "admin"), sorted(e.getGroupAdmins()))
        return out
    return f


def _i_plist(*path):
    def f(e, n):
        out = []
        _cmp(out, "getParticipants()", [p["jid"] for p in _kids(n, *path)], list(e.getParticipants()))
        return out
    return f


def _i_success_participants(tag):
    def f(e, n):
        out = []
        _cmp(out, "participantList", [c["participant"] for c in _kids(n, tag)], list(e.participantList))
        _cmp(out, "groupId", n["from"], e.groupId)
        return out
    return f


def _i_sync(e, n):
    out = []
    sync = _kids(n, "sync")[0]
    _cmp(out, "inNumbers", dict((u.data.decode(), u["jid"]) for u in _kids(sync, "in", "user")), dict(e.inNumbers))
    _cmp(out, "outNumbers", dict((u.data.decode(), u["jid"]) for u in _kids(sync, "out", "user")), dict(e.outNumbers))
    _cmp(out, "invalidNumbers", [u.data.decode() for u in _kids(sync, "invalid", "user")], list(e.invalidNumbers))
    _cmp(out, "version", sync["version"], e.version)
    _cmp(out, "wait", None if sync["wait"] is None else int(sync["wait"]), e.wait)
    _cmp(out, "index", int(sync["index"]), e.index)
    return out


def _i_receipt(e, n):
    out = []
    lst = _kids(n, "list")
    _cmp(out, "items", [i["id"] for i in _kids(n, "list", "item")] if lst else None, e.items)
    _cmp(out, "getId()", n["id"], e.getId())
    _cmp(out, "getFrom()", n["from"], e.getFrom())
    _cmp(out, "getParticipant()", n["participant"], e.getParticipant())
    _cmp(out, "getType()", n["type"], e.getType())
    return out


def _i_privacy(e, n):
    out = []
    _cmp(out, "privacy", dict((c["name"], c["value"]) for c in _kids(n, "privacy", "category")), dict(e.privacy))
    return out


def _i_statuses(e, n):
    out = []
    _cmp(out, "statuses", dict((u["jid"], (u.data, u["t"])) for u in _kids(n, "status", "user")), dict(e.statuses))
    return out


def _i_features(e, n):
    out = []
    _cmp(out, "features", [c.tag for c in _kids(n, None)], list(e.features))
    return out


def _i_keys(e, n):
    out = []
    users = _kids(n, "list", "user")
    _cmp(out, "getJids()", [u["jid"] for u in users], list(e.getJids()))
    toint = lambda b: int.from_bytes(b, "big")
    for u in users:
        b = e.getPreKeyBundleFor(u["jid"])
        if b is None:
            out.append(("getPreKeyBundleFor(jid)", "a bundle", None))
            continue
        one = lambda *p: _kids(u, *p)[0].data
        _cmp(out, "bundle.getRegistrationId()", toint(one("registration")), b.getRegistrationId())
        _cmp(out, "bundle.getIdentityKey()", one("identity"), b.getIdentityKey().getPublicKey().getPublicKey())
        _cmp(out, "bundle.getSignedPreKeyId()", toint(one("skey", "id")), b.getSignedPreKeyId())
        _cmp(out, "bundle.getSignedPreKey()", one("skey", "value"), b.getSignedPreKey().getPublicKey())
        _cmp(out, "bundle.getSignedPreKeySignature()", one("skey", "signature"), b.getSignedPreKeySignature())
        _cmp(out, "bundle.getPreKeyId()", toint(one("key", "id")), b.getPreKeyId())
        _cmp(out, "bundle.getPreKey()", one("key", "value"), b.getPreKey().getPublicKey())
    return out


def _i_encmsg(e, n):
    out = []
    encs = _kids(n, "enc")
    got = e.getEncEntities()
    _cmp(out, "len(getEncEntities())", len(encs), len(got))
    for x, g in zip(encs, got):
        _cmp(out, "enc.(type, version, data, mediaType)", (x["type"], int(x["v"]), x.data, x["mediatype"]),
             (g.getType(), g.getVersion(), g.getData(), g.getMediaType()))
    return out


for _name, _f in (
        ("ListGroupsResultIq", _i_listgroups),
        ("InfoGroupsResultIq", _i_groupinfo(("group",))),
        ("CreateGroupsNotification", _i_groupinfo(("create", "group"))),
        ("ListParticipantsResultIq", _i_plist("participant")),
        ("AddGroupsNotification", _i_plist("add", "participant")),
        ("RemoveGroupsNotification", _i_plist("remove", "participant")),
        ("SuccessAddParticipantsIq", _i_success_participants("add")),
        ("SuccessRemoveParticipantsIq", _i_success_participants("remove")),
        ("ResultSyncIq", _i_sync),
        ("IncomingReceipt", _i_receipt),
        ("RetryIncomingReceipt", _i_receipt),
        ("ResultPrivacyIq", _i_privacy),
        ("ResultStatusesIq", _i_statuses),
        ("StreamFeatures", _i_features),
        ("ResultGetKeysIq", _i_keys),
        ("EncryptedMessage.in", _i_encmsg)):
    SHAPES[_name].inspect = _f


def coverage_of_inventory():
    """-> (covered class names, excluded class names, unaccounted class names)"""
    inv = set(c.__name__ for c in inventory().values())
    covered = set(s.clsname for s in SHAPES.values())
    unacc = inv - covered - set(EXCLUDED)
    return sorted(covered & inv), sorted(set(EXCLUDED) & inv), sorted(unacc)
