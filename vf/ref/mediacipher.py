"""Independent reference for WhatsApp media encryption (C15).

Written from the protocol description, not from yowsup:
  expanded = HKDF-SHA256(ikm = 32-byte media key, salt = 32 zero bytes, info = per-kind string, L = 112)
  iv = expanded[0:16], cipher key = expanded[16:48], mac key = expanded[48:80]   (80..112 = ref key, unused)
  body = AES-256-CBC(cipher key, iv, PKCS7(plaintext))       -- padding is ALWAYS applied
  blob = body || HMAC-SHA256(mac key, iv || body)[:10]
No code is shared with yowsup or python-axolotl: HKDF is done here with hmac/hashlib, padding by hand.
"""
import hmac
import hashlib

from cryptography.hazmat.primitives.ciphers import Cipher, algorithms, modes
from cryptography.hazmat.backends import default_backend

INFO = {
    "image": b"WhatsApp Image Keys",
    "video": b"WhatsApp Video Keys",
    "audio": b"WhatsApp Audio Keys",
    "document": b"WhatsApp Document Keys",
}
KINDS = ("image", "video", "audio", "document")
MAC_LEN = 10
BLOCK = 16


class RefError(Exception):
    pass


def hkdf_sha256(ikm, info, length, salt=None):
    """RFC 5869."""
    if salt is None:
        salt = b"\x00" * 32
    prk = hmac.new(salt, ikm, hashlib.sha256).digest()
    out = b""
    t = b""
    counter = 1
    while len(out) < length:
        t = hmac.new(prk, t + info + bytes([counter]), hashlib.sha256).digest()
        out += t
        counter += 1
    return out[:length]


_derive_cache = {}


def derive(media_key, kind):
    k = (bytes(media_key), kind)
    r = _derive_cache.get(k)
    if r is None:
        okm = hkdf_sha256(bytes(media_key), INFO[kind], 112)
        r = (okm[0:16], okm[16:48], okm[48:80])
        _derive_cache[k] = r
    return r


def pkcs7_pad(data):
    n = BLOCK - (len(data) % BLOCK)       # 1..16, a full block when already aligned
    return data + bytes([n]) * n


def pkcs7_unpad(data):
    if len(data) == 0 or len(data) % BLOCK:
        raise RefError("padded length %d is not a positive multiple of the block size" % len(data))
    n = data[-1]
    if n < 1 or n > BLOCK or data[-n:] != bytes([n]) * n:
        raise RefError("bad padding")
    return data[:-n]


def encrypt(plaintext, media_key, kind):
    iv, key, mac_key = derive(media_key, kind)
    enc = Cipher(algorithms.AES(key), modes.CBC(iv), backend=default_backend()).encryptor()
    body = enc.update(pkcs7_pad(bytes(plaintext))) + enc.finalize()
    tag = hmac.new(mac_key, iv + body, hashlib.sha256).digest()[:MAC_LEN]
    return body + tag


def decrypt(blob, media_key, kind):
    iv, key, mac_key = derive(media_key, kind)
    blob = bytes(blob)
    if len(blob) < MAC_LEN + BLOCK:
        raise RefError("blob too short (%d)" % len(blob))
    body, tag = blob[:-MAC_LEN], blob[-MAC_LEN:]
    if len(body) % BLOCK:
        raise RefError("body length %d not block aligned" % len(body))
    if not hmac.compare_digest(tag, hmac.new(mac_key, iv + body, hashlib.sha256).digest()[:MAC_LEN]):
        raise RefError("bad mac")
    dec = Cipher(algorithms.AES(key), modes.CBC(iv), backend=default_backend()).decryptor()
    return pkcs7_unpad(dec.update(body) + dec.finalize())
