"""Bootstrap shared by every check: import path, third-party compat shims,
deterministic sources.  Must be imported before anything from yowsup."""
import os
import sys
import logging
import random as _random

VERIF_ROOT = os.path.dirname(os.path.dirname(os.path.abspath(__file__)))
REPO = os.environ.get("VERIF_REPO", "/repo")
DEPS = os.path.join(VERIF_ROOT, ".deps")

_done = False


class _IntRandom(object):
    """consonance.handshake calls random.randint with float bounds, which
    python >= 3.12 rejects.  Coerce, and make it deterministic."""

    def __init__(self, seed=0):
        self._r = _random.Random(seed)

    def randint(self, a, b):
        return self._r.randint(int(a), int(b))

    def __getattr__(self, name):
        return getattr(self._r, name)


def bootstrap():
    global _done
    if _done:
        return
    _done = True
    sys.dont_write_bytecode = True
    os.environ.setdefault("PYTHONDONTWRITEBYTECODE", "1")
    os.environ["YOWSUP_VERIF"] = "1"
    if not os.path.isfile(os.path.join(DEPS, "six.py")):
        # setup_cmd was not run: do it ourselves (single wheel, offline)
        import zipfile, glob
        whl = glob.glob("/opt/veriftools/wheels/six-1.17.0-*.whl")
        if whl:
            os.makedirs(DEPS, exist_ok=True)
            zipfile.ZipFile(whl[0]).extractall(DEPS)
    for p in (REPO, DEPS):
        if p in sys.path:
            sys.path.remove(p)
    sys.path.insert(0, REPO)
    sys.path.insert(0, DEPS)
    logging.disable(logging.CRITICAL)
    # AxolotlManager prints a progress line per prekey when its logger level is NOTSET
    logging.getLogger("yowsup.axolotl.manager").setLevel(logging.ERROR)
    import yowsup
    got = os.path.realpath(os.path.dirname(os.path.dirname(yowsup.__file__)))
    if got != os.path.realpath(REPO):
        raise RuntimeError("yowsup imported from %s, expected %s" % (got, REPO))


def shim_consonance(seed=0):
    import consonance.handshake as hs
    hs.random = _IntRandom(seed)


def reset_ids():
    """ProtocolEntity ids come from a process-wide counter; reset per execution."""
    from yowsup.structs import protocolentity
    protocolentity.ProtocolEntity._ProtocolEntity__ID_GEN = 0


def _scratch_base():
    for base in ("/dev/shm", "/tmp"):
        if os.path.isdir(base) and os.access(base, os.W_OK):
            return base
    return "/tmp"


def scratch_root():
    """Directory for scratch files of this run.  The runner creates one directory per run before any worker is forked
    (VF_SCRATCH) and removes it when the run ends, so nothing is left behind even when pool workers are terminated."""
    d = os.environ.get("VF_SCRATCH")
    if d and os.path.isdir(d):
        return d
    return _scratch_base()


def new_run_scratch():
    import tempfile
    d = tempfile.mkdtemp(prefix="vfrun-", dir=_scratch_base())
    os.environ["VF_SCRATCH"] = d
    return d


class FakeTime(object):
    """Stand-in for the `time` module inside a library module."""

    def __init__(self, now=1600000000.0):
        self.now = now
        self.slept = []

    def time(self):
        return self.now

    def sleep(self, s):
        self.slept.append(s)
        self.now += s

    def __getattr__(self, name):
        import time as _t
        return getattr(_t, name)


CLOCK = FakeTime()


def fix_clock():
    """Entity ids / timestamps embed time.time(); pin it."""
    from yowsup.structs import protocolentity
    protocolentity.time = CLOCK
    CLOCK.now = 1600000000.0
