"""C03 End-to-end messaging: exactly-once authentic delivery, only ciphertext on the wire.

Stateless exploration of server schedules and faults over REAL client stacks: 2-4 accounts, each the library's
network(stanza-level dispatcher double)/axolotl-control/send/receive/protocol layers on real sqlite key stores,
provisioned through the real passive-login / key-upload / reconnect flow, talk through the stanza-level server
double.  A case is a conversation script from a grammar; for every script every schedule of the server's
"process next stanza of client X / deliver next stanza to client X" steps with <= k deviations from global FIFO
(picking a younger queue head, issuing the next send early = burst, duplicating a delivered message, corrupting
one ciphertext) is executed to quiescence and the oracle is evaluated on the execution.
"""
import itertools

from vf import env
env.bootstrap()

from vf.harness import world as W
from vf.doubles.server import jid_of
from vf.explore import sched as S
from vf.explore import dfs
from vf.ref import payloads as P
from vf.runner import shuffled

from yowsup.layers.protocol_messages.protocolentities.message_text import TextMessageProtocolEntity
from yowsup.layers.protocol_messages.protocolentities.message_extendedtext import ExtendedTextMessageProtocolEntity
from yowsup.layers.protocol_messages.protocolentities.attributes.attributes_message_meta import MessageMetaAttributes
from yowsup.layers.protocol_messages.protocolentities.attributes.converter import AttributesConverter
from yowsup.layers.protocol_media.protocolentities.message_media import MediaMessageProtocolEntity

PROPERTY = "C03"
LEVEL = "model_checking"
MOD = "vf.props.c03_e2e_messaging"

PHONES = ["491510001", "491510002", "491510003", "491510004"]
GROUP = "491510001-1500000001@g.us"
NAMES = "ABCD"
KINDS = ("text", "extended_text", "image", "location", "contact")
CLASS_OF = {"text": "TextMessageProtocolEntity", "extended_text": "ExtendedTextMessageProtocolEntity",
            "image": "ImageDownloadableMediaMessageProtocolEntity", "location": "LocationMediaMessageProtocolEntity",
            "contact": "ContactMediaMessageProtocolEntity"}
_PAYLOADS = {}


def payload(kind, variant):
    key = (kind, variant)
    if key not in _PAYLOADS:
        items = list(P.gen_message_attributes(kind, "basic"))
        _PAYLOADS[key] = items[variant % len(items)]
    return _PAYLOADS[key]


def make_entity(kind, variant, to):
    label, attrs, expected = payload(kind, variant)
    meta = MessageMetaAttributes(recipient=to)
    if kind == "text":
        e = TextMessageProtocolEntity(attrs.conversation, meta)
    elif kind == "extended_text":
        e = ExtendedTextMessageProtocolEntity(attrs.extended_text, meta)
    else:
        e = MediaMessageProtocolEntity(kind, attrs, meta)
    return e, attrs, expected, label


def _strings(tree, out):
    if isinstance(tree, dict):
        for v in tree.values():
            _strings(v, out)
    elif isinstance(tree, (list, tuple)):
        for v in tree:
            _strings(v, out)
    elif isinstance(tree, str) and len(tree) >= 6:
        out.append(tree.encode("utf-8"))
    elif isinstance(tree, (bytes, bytearray)) and len(tree) >= 6:
        out.append(bytes(tree))


def _node_blobs(node, out):
    if node.data:
        out.append(bytes(node.data))
    for v in node.attributes.values():
        if isinstance(v, str):
            out.append(v.encode("latin-1", "replace"))
    for c in node.children:
        _node_blobs(c, out)


def _only_enc(node):
    for c in node.children:
        if c.tag == "enc":
            continue
        if c.tag == "participants":
            for t in c.children:
                if t.tag != "to" or any(x.tag != "enc" for x in t.children):
                    return False
            continue
        return False
    return True


def run_case(case, prefix):
    n = case["accounts"]
    phones = PHONES[:n]
    members = phones[:case.get("group_size", min(n, 3))]
    w = W.provisioned(phones, groups={GROUP: members}, prekeys=case.get("prekeys", 12), pad=case.get("pad", "aligned"),
                      seed=case.get("pad_seed", 0))
    script = case["script"]
    faults = case.get("faults", True)
    from yowsup.layers.axolotl.layer_send import AxolotlSendLayer as _SL
    saved_max = _SL.MAX_SENT_QUEUE
    if case.get("queue_max"):
        # the retry queue's capacity scaled down (class attribute), so that "queue full of old, acknowledged messages"
        # is reachable by a short script; such scripts never have queue_max messages unacknowledged at once (no_burst)
        _SL.MAX_SENT_QUEUE = case["queue_max"]
    plen, pmap = prefix
    points = []
    sent = []
    pc = 0
    dup_done = set()
    corrupt_done = set()
    dup_count = {}
    corrupted = []
    trace = []
    steps_taken = 0
    harness_error = None
    has_restart = any(a[0] == "restart" for a in script)

    def jid(name):
        return jid_of(phones[NAMES.index(name)])

    def do_action(a):
        if a[0] == "send":
            _, s, target, kind, variant = a[:5]
            to = GROUP if target == "G" else jid(target)
            e, attrs, expected, label = make_entity(kind, variant, to)
            acc = w.acc(jid(s))
            rec = {"id": e.getId(), "sender": acc.jid, "to": to, "kind": kind, "expected": expected, "label": label,
                   "payload": bytes(AttributesConverter.get().message_to_protobytes(attrs)),
                   "recipients": [jid_of(m) for m in members if jid_of(m) != acc.jid] if to == GROUP else [to]}
            sent.append(rec)
            try:
                acc.app.send(e)
            except Exception as ex:
                acc.handler_errors.append((type(ex).__name__, str(ex)[:200], "send:" + kind, ""))
        elif a[0] == "restart":
            w.restart(phones[NAMES.index(a[1])])

    try:
        while True:
            w.pump()
            steps = w.server.steps()
            action = script[pc] if pc < len(script) else None
            action_ok = False
            if action is not None:
                if action[0] == "restart":
                    x = jid(action[1])
                    action_ok = not w.server.inbox[x] and not w.server.outbox[x] and not steps
                else:
                    action_ok = True
            menu = []

            def corruptible(j):
                ob = w.server.outbox[j]
                if ob and j in w.server.connected and ob[0][1].tag == "message" and ob[0][1].getChild("enc") is not None:
                    return (j, ob[0][1]["id"]) not in corrupt_done and not ob[0][1]["retry_served"]
                return False
            if steps:
                if case.get("corrupt_all") and steps[0][0] == "out" and corruptible(steps[0][1]):
                    # scripted fault, not a deviation: the first delivery of every message is damaged
                    menu.append(("corrupt", steps[0][1]))
                else:
                    menu.append(("step", steps[0]))
            elif action_ok:
                menu.append(("action", pc))
            else:
                break
            for s in steps[1:]:
                menu.append(("step", s))
            if steps and action_ok and action[0] == "send" and not case.get("no_burst"):
                menu.append(("action", pc))            # burst: next send before the server has answered
            if faults and not has_restart:
                for j in sorted(w.server.outbox):
                    ob = w.server.outbox[j]
                    if ob and j in w.server.connected and ob[0][1].tag == "message" and ob[0][1].getChild("enc") is not None:
                        mid = (j, ob[0][1]["id"])
                        if mid not in corrupt_done and not ob[0][1]["retry_served"] and ("corrupt", j) not in menu:
                            menu.append(("corrupt", j))
                for j in sorted(w.server.delivered):
                    last = None
                    for nd in reversed(w.server.delivered[j]):
                        if nd.tag == "message":
                            last = nd
                            break
                    if last is not None and j in w.server.connected and (j, last["id"]) not in dup_done and (j, last["id"]) not in corrupt_done:
                        menu.append(("dup", j))
            i = len(points)
            c = pmap.get(i, 0) if i < plen else 0
            if c >= len(menu):
                raise S.ReplayDivergence("point %d: choice %d of %d" % (i, c, len(menu)))
            points.append((len(menu), c, True))
            kind, arg = menu[c]
            trace.append((kind, arg if kind != "action" else script[arg][:4]))
            if kind == "step":
                w.server.do(arg)
            elif kind == "action":
                do_action(script[arg])
                pc += 1
            elif kind == "corrupt":
                nd = w.server.outbox[arg][0][1]
                corrupt_done.add((arg, nd["id"]))
                corrupted.append((arg, nd["id"]))
                w.server.corrupt_head(arg)
                w.server.do(("out", arg))
            elif kind == "dup":
                for nd in reversed(w.server.delivered[arg]):
                    if nd.tag == "message":
                        dup_done.add((arg, nd["id"]))
                        dup_count[(arg, nd["id"])] = dup_count.get((arg, nd["id"]), 0) + 1
                        break
                w.server.duplicate_last_message(arg)
            steps_taken += 1
            if steps_taken > 3000:
                harness_error = "no quiescence after 3000 steps"
                break
        w.pump()
        v = _oracle(case, w, sent, dup_count, corrupted, trace, harness_error)
        obs = tuple(sorted((a.jid[-6:-15:-1], tuple(type(e).__name__[:6] for e in a.all_received())) for a in w.accounts.values()))
    finally:
        _SL.MAX_SENT_QUEUE = saved_max
        w.close()
    return points, v, obs


def _oracle(case, w, sent, dup_count, corrupted, trace, harness_error):
    v = []

    def bad(sig, what, detail=None):
        v.append(("C03:" + sig, what, dict(case), detail))

    if harness_error:
        bad("livelock", harness_error, {"trace_tail": trace[-12:]})
        return v
    if not getattr(w, "provision_ok", True):
        bad("provisioning", "accounts did not go through passive login / upload / reconnect", w.provision_logins)
    for a in w.accounts.values():
        for he in a.handler_errors:
            bad("handler-exception:%s:%s" % (he[0], he[2]), "exception escaped a handler of %s while processing <%s>: %s %s" % (a.jid, he[2], he[0], he[1]), he)
        pend = dict((str(k), len(x)) for k, x in a.recv_layer.pendingIncomingMessages.items() if x)
        if pend:
            bad("pending-incoming-left", "messages still parked in pendingIncomingMessages of %s" % a.jid, pend)
    by_id = {}
    for a in w.accounts.values():
        for e in a.all_received():
            if hasattr(e, "getTag") and e.getTag() == "message":
                by_id.setdefault(e.getId(), []).append((a.jid, e))
    for m in sent:
        got = by_id.get(m["id"], [])
        kind = m["kind"]
        grp = m["to"] == W_GROUP
        sfx = "%s:%s" % (kind, "group" if grp else "1to1")
        for r in m["recipients"]:
            mine = [e for (j, e) in got if j == r]
            if len(mine) == 0:
                bad("not-delivered:" + sfx, "message %s (%s) never reached the application of %s" % (m["id"], m["label"], r),
                    {"trace": trace, "corrupted": corrupted})
                continue
            if len(mine) > 1:
                bad("delivered-twice:" + sfx, "message %s reached the application of %s %d times: %s" % (m["id"], r, len(mine), [type(e).__name__ for e in mine]),
                    {"trace": trace, "dups": [list(k) for k in dup_count], "classes": [type(e).__name__ for e in mine]})
                continue
            e = mine[0]
            if type(e).__name__ != CLASS_OF[kind]:
                bad("wrong-class:" + sfx, "delivered as %s instead of %s" % (type(e).__name__, CLASS_OF[kind]))
            exp_from = m["to"] if grp else m["sender"]
            if e.getFrom() != exp_from or (grp and e.getParticipant() != m["sender"]):
                bad("wrong-origin:" + sfx, "delivered with from=%s participant=%s, expected %s / %s" % (e.getFrom(), e.getParticipant(), exp_from, m["sender"] if grp else None))
            try:
                missing = P.tree_missing(m["expected"], P.attrs_tree(e.message_attributes))
            except Exception as ex:
                missing = ["raises %r" % (ex,)]
            if missing:
                bad("content-altered:" + sfx, "delivered content differs from what was sent: %s" % (missing[:3],), missing[:6])
        for (j, e) in got:
            if j not in m["recipients"]:
                bad("delivered-to-outsider:" + sfx, "message %s reached %s who is not a recipient" % (m["id"], j))
        # receipts at the sender's application
        sender = w.acc(m["sender"])
        for r in m["recipients"]:
            cnt = 0
            for e in sender.all_received():
                if hasattr(e, "getTag") and e.getTag() == "receipt" and e.getId() == m["id"] and e.getType() != "retry":
                    who = e.getParticipant() if grp else e.getFrom()
                    if who == r:
                        cnt += 1
            extra = dup_count.get((r, m["id"]), 0)
            if cnt < 1:
                bad("receipt-missing:" + sfx, "sender's application never got %s's delivery receipt for %s" % (r, m["id"]), {"trace": trace})
            elif cnt > 1 + extra:
                bad("receipt-duplicated:" + sfx, "sender got %d receipts from %s for %s" % (cnt, r, m["id"]))
        # duplicates are re-acknowledged
        for r in m["recipients"]:
            extra = dup_count.get((r, m["id"]), 0)
            if extra:
                n = sum(1 for nd in w.server.wire[r] if nd.tag == "receipt" and nd["id"] == m["id"] and nd["type"] != "retry")
                if n < 1 + extra:
                    bad("duplicate-not-reacknowledged:" + sfx, "server delivered %s twice to %s but saw %d receipt(s)" % (m["id"], r, n))
        for (r, mid) in corrupted:
            if mid == m["id"]:
                n = sum(1 for nd in w.server.wire[r] if nd.tag == "receipt" and nd["id"] == mid and nd["type"] == "retry")
                if n < 1:
                    bad("no-retry-request:" + sfx, "undecryptable message %s did not trigger a retry receipt from %s" % (mid, r))
    # only ciphertext leaves a client
    secrets = []
    for m in sent:
        if len(m["payload"]) >= 6:
            secrets.append(m["payload"])
        _strings(m["expected"], secrets)
    secrets = list(set(secrets))
    for j, nodes in w.server.wire.items():
        for nd in nodes:
            if nd.tag == "message" and not _only_enc(nd):
                bad("plaintext-child", "an outgoing <message> carries a child other than enc envelopes: %s" % [c.tag for c in nd.children])
                break
            blobs = []
            _node_blobs(nd, blobs)
            hit = False
            for b in blobs:
                for s in secrets:
                    if s in b:
                        bad("plaintext-on-wire", "a stanza leaving %s contains plaintext of a message (%d bytes matched) in <%s>" % (j, len(s), nd.tag))
                        hit = True
                        break
                if hit:
                    break
            if hit:
                break
    return v


W_GROUP = GROUP


# --------------------------------------------------------------------------- script grammar
def scripts_for(tier):
    quick = tier == "quick"
    out = []

    def add(accounts, script, **kw):
        c = {"accounts": accounts, "script": script}
        c.update(kw)
        out.append(c)

    def send(s, t, k, var=0):
        return ["send", s, t, k, var]

    # single messages: first contact, every kind, 1:1 and group, 2 payload variants
    for k in KINDS:
        for var in (0, 1) if quick else (0, 1, 2, 3):
            add(2, [send("A", "B", k, var)])
            add(3, [send("A", "G", k, var)])
    # two messages: every (sender, target) structure up to symmetry, kinds rotated
    senders = ["A", "B", "C"]

    def targets(s):
        return [x for x in senders if x != s] + ["G"]
    structs2 = []
    for t1 in ("B", "G"):
        for s2 in senders:
            for t2 in targets(s2):
                structs2.append((("A", t1), (s2, t2)))
    for i, st in enumerate(structs2):
        rots = range(len(KINDS)) if not quick else (i % len(KINDS), (i + 2) % len(KINDS))
        for r in rots:
            sc = [send(s, t, KINDS[(r + n) % len(KINDS)], n) for n, (s, t) in enumerate(st)]
            add(3, sc)
    # restarts between messages
    for (t1, s2, t2) in (("B", "A", "B"), ("B", "B", "A"), ("G", "A", "G"), ("G", "B", "G"), ("B", "A", "G")):
        for x in ("A", "B"):
            for r in ((0,) if quick else range(len(KINDS))):
                add(3, [send("A", t1, KINDS[r % 5], 0), ["restart", x], send(s2, t2, KINDS[(r + 1) % 5], 1)])
    # three messages
    structs3 = []
    for st in structs2:
        for s3 in senders:
            for t3 in targets(s3):
                structs3.append(st + ((s3, t3),))
    if quick:
        structs3 = [st for i, st in enumerate(structs3) if i % 9 == 0]
    for i, st in enumerate(structs3):
        r = i % len(KINDS)
        add(3, [send(s, t, KINDS[(r + n) % len(KINDS)], n) for n, (s, t) in enumerate(st)])
    # every first delivery damaged (scripted, so schedules and further faults are explored on top of it): retries of
    # several messages are in flight together
    add(2, [send("A", "B", "text", 0), send("A", "B", "image", 1)], corrupt_all=True)
    add(2, [send("A", "B", "text", 0), send("B", "A", "location", 1)], corrupt_all=True)
    add(3, [send("A", "G", "text", 0), send("A", "G", "contact", 1)], corrupt_all=True)
    add(3, [send("A", "B", "text", 0), send("A", "C", "text", 1), send("A", "B", "extended_text", 2)], corrupt_all=True)
    # the retry queue full of old messages (capacity scaled down to 2; every message is acknowledged before the next)
    add(3, [send("A", "G", "text", 0), send("A", "G", "image", 1), send("A", "B", "text", 2)], queue_max=2, no_burst=True)
    add(3, [send("A", "G", "text", 0), send("A", "B", "location", 1), send("A", "G", "text", 2), send("A", "C", "text", 3)], queue_max=2, no_burst=True)
    if not quick:
        # four accounts, group of four; four messages for the conversational shapes
        for k in KINDS:
            add(4, [send("A", "G", k, 0), send("D", "G", KINDS[(KINDS.index(k) + 1) % 5], 1)], group_size=4)
        for i, st in enumerate(structs3):
            if i % 6 == 0:
                r = (i + 1) % len(KINDS)
                sc = [send(s, t, KINDS[(r + n) % len(KINDS)], n) for n, (s, t) in enumerate(st)]
                sc.append(send("B", "A", "text", 2))
                add(3, sc)
    return out


def run(ctx):
    cases = shuffled(scripts_for(ctx.tier), ctx.seed, "c03")
    if ctx.quick:
        bound = 1
        cap = 40000
        st = dfs.explore(ctx, MOD, "run_case", cases, bound, cap=cap, chunksize=4)
        ctx.note("deviation bound %d: executions=%d capped=%s scripts=%d" % (bound, st.executions, st.capped, len(cases)))
    else:
        # sized by measurement: every script of the thorough grammar with <= 1 deviation, and the scripts of the quick
        # grammar (all structures up to two messages, restarts, a ninth of the three-message structures) with <= 2
        bound = 2
        cap = 600000
        core = shuffled(scripts_for("quick"), ctx.seed, "c03")
        st1 = dfs.explore(ctx, MOD, "run_case", cases, 1, cap=cap, chunksize=4)
        ctx.note("deviation bound 1: executions=%d capped=%s scripts=%d" % (st1.executions, st1.capped, len(cases)))
        st = dfs.explore(ctx, MOD, "run_case", core, 2, cap=cap, chunksize=4)
        ctx.note("deviation bound 2: executions=%d capped=%s scripts=%d" % (st.executions, st.capped, len(core)))
        st.executions += st1.executions
        st.points += st1.points
        st.max_points = max(st.max_points, st1.max_points)
        st.observations |= set(("b1",) + tuple(o) for o in st1.observations)
        st.capped = st.capped or st1.capped
        for k, n in st1.by_preemptions.items():
            st.by_preemptions[k] = st.by_preemptions.get(k, 0) + n
    a = run_case(cases[0], (0, {}))
    b = run_case(cases[0], (0, {}))
    if a[0] != b[0] or a[2] != b[2] or [x[0] for x in a[1]] != [x[0] for x in b[1]]:
        raise RuntimeError("nondeterministic replay of the default schedule")
    for c in cases[:3]:
        ctx.sample(c)
    ctx.coverage.update({
        "states": st.points,
        "transitions": st.points,
        "traces_validated_against_impl": st.executions,
        "executions": st.executions,
        "scripts": len(cases),
        "deviation_bound": bound,
        "by_deviations": {str(k): n for k, n in sorted(st.by_preemptions.items())},
        "max_server_steps_per_execution": st.max_points,
        "distinct_outcomes": len(st.observations),
        "exhaustive": not st.capped,
        "cap": cap,
        "explanation": "states/transitions = server scheduling points visited by the stateless search (each execution is a path "
                       "of real handler calls); deviations = non-FIFO pick, early send (burst), duplicate delivery, corrupted ciphertext",
    })
    ctx.assume("server double (routing, key directory, group directory) is trusted; python-axolotl treated as correct; "
               "key material is random per run (os.urandom), control flow does not depend on it")
    ctx.assume("applications acknowledge every message and receipt they are given (AppProbe), as the demos do")


def replay(ctx, case):
    case = dict(case)
    pf = dfs.schedule_from_case(case)
    case.pop("schedule", None)
    pts, v, obs = run_case(case, pf)
    return v
