"""C09 Protocol entities and stanzas convert into each other without loss.

Bounded-exhaustive exploration driven by the shape specs of vf/ref/shapes.py: for every entity class that a
layer's receive or send handler can reach, ALL subsets of the optional parts of its documented stanza x >= 3
value vectors (ids, timestamps incl. 0 and 2^31, user / group / broadcast JIDs, flags, counts, ASCII /
non-ASCII / empty text, empty / binary blobs, 0..2 list children).

Oracles
  incoming   n' = convert(n).toProtocolTreeNode()  must equal n under our own strict structural equality
             (tag, attribute dict with numbers compared by value, bytes content, ordered children per tag).
             convert = Cls.fromProtocolTreeNode, or the real layer handler where the layer builds the entity itself.
             An attribute whose documented default is written on re-serialisation is not a loss
             (absent == default, both ways); everything else that differs is.
  outgoing   n = entity.toProtocolTreeNode();  decode(encode(n)) with the real WriteEncoder / ReadDecoder must
             equal n exactly (attribute values str, content bytes, children in order).

Signatures: "C09:<class implementing the part>:<kind>:<path>" - thousands of inputs failing for one reason
give one signature; the first (fewest optional parts, simplest values) case is kept.
"""
import hashlib

from vf import env
env.bootstrap()

from vf.ref import shapes as S
from vf.runner import shuffled
from yowsup.structs import ProtocolTreeNode

PROPERTY = "C09"
LEVEL = "exploration"

_prepared = False


def prepare():
    """deterministic ids / clocks in every module of the anchored code that reads time"""
    global _prepared
    env.fix_clock()
    env.reset_ids()
    if _prepared:
        return
    _prepared = True
    import importlib
    for mod in ("yowsup.layers.protocol_profiles.protocolentities.iq_picture_set",
                "yowsup.layers.protocol_messages.protocolentities.message_text_broadcast",
                "yowsup.layers.protocol_contacts.protocolentities.iq_sync",
                "yowsup.layers.protocol_receipts.protocolentities.receipt_outgoing"):
        m = importlib.import_module(mod)
        if hasattr(m, "time"):
            m.time = env.CLOCK


def exc_name(e):
    return type(e).__name__


def brief(e):
    return ("%s: %s" % (type(e).__name__, e))[:300]


def _key(node):
    return hashlib.sha1(repr(S.canon(node)).encode("utf-8", "backslashreplace")).hexdigest()[:16]


def _where(e):
    """innermost frame of the anchored code that raised: file:line (for the report)"""
    import traceback
    tb = traceback.extract_tb(e.__traceback__)
    for fr in reversed(tb):
        if "/yowsup/" in fr.filename:
            return "%s:%d %s" % (fr.filename.split("/yowsup/", 1)[1], fr.lineno, fr.name)
    return None


def check_incoming(case):
    """-> (violations, reached_oracle, outcome)"""
    shape = case.shape
    cls = shape.clsname
    node = case.node
    before = S.canon(node)
    detail = {"stanza": S.render(node), "optional_parts_present": case.present_parts()}
    convert = shape.convert or shape.cls.fromProtocolTreeNode
    try:
        ent = convert(node)
    except Exception as e:
        return [("C09:%s:raises:fromProtocolTreeNode:%s" % (cls, exc_name(e)),
                 "%s: building the entity from a stanza of the documented shape raises %s" % (cls, brief(e)),
                 case.key, dict(detail, raised=brief(e), at=_where(e)))], False, "raise-from"
    if ent is None:
        return [("C09:%s:from-returns-None" % cls,
                 "%s.fromProtocolTreeNode returns None for a stanza of the documented shape" % cls,
                 case.key, detail)], False, "none"
    if S.canon(node) != before:
        return [("C09:%s:from-mutates-stanza" % cls, "%s.fromProtocolTreeNode modified the incoming stanza" % cls,
                 case.key, dict(detail, after=S.render(node)))], False, "mutated"
    pre = []
    if shape.inspect is not None:
        # entity level: the accessors of the entity (per-item ones included) must say what the stanza says
        try:
            for field, want, have in shape.inspect(ent, node):
                pre.append(("C09:%s:entity-field:%s" % (cls, field.split("[")[0]),
                            "%s built from a stanza of the documented shape: %s is %r, the stanza says %r"
                            % (cls, field, have, want), case.key, dict(detail, field=field, expected=want, observed=have)))
        except Exception as e:
            pre.append(("C09:%s:raises:accessors:%s" % (cls, exc_name(e)),
                        "%s: reading the accessors of the entity built from an incoming stanza raises %s" % (cls, brief(e)),
                        case.key, dict(detail, raised=brief(e), at=_where(e))))
    try:
        out = ent.toProtocolTreeNode()
    except Exception as e:
        return pre + [("C09:%s:raises:toProtocolTreeNode:%s" % (cls, exc_name(e)),
                 "%s: re-serialising the entity built from an incoming stanza raises %s" % (cls, brief(e)),
                 case.key, dict(detail, raised=brief(e), at=_where(e)))], False, "raise-to"
    if not isinstance(out, ProtocolTreeNode):
        return [("C09:%s:to-returns-non-node" % cls, "%s.toProtocolTreeNode returned %r" % (cls, type(out).__name__),
                 case.key, detail)], False, "non-node"
    exp = S.apply_defaults(node, case.defaults)
    got = S.apply_defaults(out, case.defaults)
    diffs = S.strict_diff(exp, got, numeric=True, group_by_tag=True)
    vs = list(pre)
    for kind, path, attr, want, have in diffs:
        if kind == "data-altered" and path.endswith("/proto") and proto_equivalent(want, have):
            continue
        owner = case.owners.get((path, attr), cls) if attr is not None else cls
        where = path + ("@" + attr if attr is not None else "")
        if attr is None and path in case.labels:
            where = case.labels[path]
        via = "" if owner == cls else " (stanza of %s)" % cls
        vs.append(("C09:%s:%s:%s" % (owner, kind, where),
                   "%s round trip%s: %s at %s (stanza %r -> re-serialised %r)" % (owner, via, kind, where, want, have),
                   case.key, dict(detail, reserialised=S.render(out), expected=want, observed=have)))
    return vs, True, tuple(sorted(set(v[0] for v in vs)))


def _is_default(v):
    if hasattr(v, "ListFields"):
        return all(_is_default(x) for _, x in v.ListFields())
    if hasattr(v, "__len__") and not isinstance(v, (str, bytes)):
        return len(v) == 0
    return v in (0, 0.0, False, "", b"")


def _pb_covers(a, b):
    """every field set in a has the same value in b; whatever else b carries is a protobuf default (the
    presence-vs-value judgement of C10: unset optional fields may come back as defaults)"""
    fa = dict((f.name, v) for f, v in a.ListFields())
    fb = dict((f.name, v) for f, v in b.ListFields())
    for name, v in fa.items():
        if name not in fb:
            if not _is_default(v):
                return False
            continue
        w = fb[name]
        if hasattr(v, "ListFields"):
            if not _pb_covers(v, w):
                return False
        elif v != w:
            return False
    return all(_is_default(w) for name, w in fb.items() if name not in fa)


def proto_equivalent(a, b):
    """node level only: the <proto> content survives when the bytes are equal or parse to the same message
    up to materialised defaults.  Field-by-field mapping of the payload is C10's subject."""
    if a == b:
        return True
    if not isinstance(a, bytes) or not isinstance(b, bytes):
        return False
    from yowsup.layers.protocol_messages.proto.e2e_pb2 import Message
    try:
        ma, mb = Message(), Message()
        ma.ParseFromString(a)
        mb.ParseFromString(b)
    except Exception:
        return False
    return _pb_covers(ma, mb)


def _diagnose_codec(node, path=""):
    """why the codec cannot take this stanza: first offending part, as (kind, where, python type)"""
    here = path + "/" + (node.tag if isinstance(node.tag, str) else "<%s>" % type(node.tag).__name__)
    if not isinstance(node.tag, str):
        return ("tag-not-str", here, type(node.tag).__name__)
    for k, v in (node.attributes or {}).items():
        if not isinstance(v, str):
            return ("attribute-not-str", "%s@%s" % (here, k), type(v).__name__)
        if any(ord(ch) > 255 for ch in v):
            return ("attribute-not-latin1", "%s@%s" % (here, k), "str")
    if node.data is not None and not isinstance(node.data, bytes):
        return ("content-not-bytes", here, type(node.data).__name__)
    for c in node.children or []:
        if not isinstance(c, ProtocolTreeNode):
            return ("child-not-node", here, type(c).__name__)
        r = _diagnose_codec(c, here)
        if r:
            return r
    return None


def check_outgoing(case):
    shape = case.shape
    cls = shape.clsname
    detail = {"optional_parts_present": case.present_parts()}
    if case.error is not None:
        e = case.error
        return [("C09:%s:raises:constructor:%s" % (cls, exc_name(e)),
                 "%s: constructing the entity the way applications / the library do raises %s" % (cls, brief(e)),
                 case.key, dict(detail, raised=brief(e), at=_where(e)))], False, "raise-ctor"
    try:
        node = case.entity.toProtocolTreeNode()
    except Exception as e:
        return [("C09:%s:raises:toProtocolTreeNode:%s" % (cls, exc_name(e)),
                 "%s: no stanza is produced, toProtocolTreeNode raises %s" % (cls, brief(e)),
                 case.key, dict(detail, raised=brief(e), at=_where(e)))], False, "raise-to"
    if not isinstance(node, ProtocolTreeNode):
        return [("C09:%s:to-returns-non-node" % cls, "%s.toProtocolTreeNode returned %r" % (cls, type(node).__name__),
                 case.key, detail)], False, "non-node"
    case.node = node
    detail["stanza"] = S.render(node)
    try:
        back = S.codec_roundtrip(node)
    except Exception as e:
        why = _diagnose_codec(node)
        if why:
            kind, where, typ = why
            if kind == "attribute-not-latin1":
                # one root cause whatever the class: WriteEncoder.encodeString writes ord(char) as one byte
                return [("C09:WriteEncoder:codec-rejects:attribute-not-latin1",
                         "a str attribute with a character above U+00FF (%s of %s) makes the binary codec raise %s"
                         % (where, cls, brief(e)), case.key, dict(detail, raised=brief(e), at=_where(e)))], True, "reject"
            return [("C09:%s:codec-rejects:%s:%s" % (cls, kind, where),
                     "%s: the stanza it produces is rejected by the binary codec: %s at %s (%s); %s"
                     % (cls, kind, where, typ, brief(e)), case.key, dict(detail, raised=brief(e), at=_where(e)))], True, "reject"
        return [("C09:%s:codec-raises:%s" % (cls, exc_name(e)),
                 "%s: the binary codec raises on the stanza it produces: %s" % (cls, brief(e)),
                 case.key, dict(detail, raised=brief(e), at=_where(e)))], True, "codec-raise"
    if back is None:
        return [("C09:%s:codec-drops-stanza" % cls, "%s: decoder returned no stanza" % cls, case.key, detail)], True, "dropped"
    diffs = S.strict_diff(node, back, numeric=False, group_by_tag=False)
    vs = []
    for kind, path, attr, want, have in diffs:
        where = path + ("@" + attr if attr is not None else "")
        vs.append(("C09:%s:codec-alters:%s:%s" % (cls, kind, where),
                   "%s: stanza does not survive the codec: %s at %s (%r -> %r)" % (cls, kind, where, want, have),
                   case.key, dict(detail, decoded=S.render(back), expected=want, observed=have)))
    return vs, True, tuple(sorted(set(v[0] for v in vs)))


def check_case(case):
    prepare()
    if case.shape.direction == "incoming":
        return check_incoming(case)
    return check_outgoing(case)


def run_shape(arg):
    name, vectors, phases, skews = arg
    prepare()
    shape = S.SHAPES[name]
    evals = 0
    reached = set()
    outcomes = set()
    vs_all = {}
    nviol = 0
    nparts = 0
    sample = None
    for mask_vec in [(c.mask, c.vector, c.phase, c.skew, c.plan)
                     for c in S.gen_cases(name, True, vectors, phases, skews, plans="all")]:
        env.reset_ids()
        case = S.build_case(name, *mask_vec)       # built after the id reset: ids generated by constructors are stable
        nparts = case.nparts
        vs, ok, outcome = check_case(case)
        evals += 1
        if case.node is not None and ok:
            reached.add(_key(case.node))
        outcomes.add(outcome)
        nviol += len(vs)
        for v in vs:
            vs_all.setdefault(v[0], v)
        if sample is None and case.node is not None and case.mask == (1 << case.nparts) - 1:
            sample = {"shape": name, "class": shape.clsname, "direction": shape.direction, "stanza": S.render(case.node)[:400]}
    return {"name": name, "cls": shape.clsname, "direction": shape.direction, "package": shape.package,
            "evals": evals, "reached": len(reached), "outcomes": sorted(map(repr, outcomes)),
            "violations": list(vs_all.values()), "nviol": nviol, "nparts": nparts, "sample": sample}


def run(ctx):
    # 6 vectors: every slot takes every value of its kind's alphabet (lengths 1, 2, 3, 6) under every subset;
    # list plans (nested / sibling lists with different lengths per item) are enumerated in both tiers
    vectors = 6
    phases = (0,) if ctx.quick else (0, 1, 2)
    skews = (1,) if ctx.quick else (1, 5, 7)    # coprime with the alphabet lengths that need distinct values
    names = shuffled(sorted(S.SHAPES), ctx.seed, "c09")
    covered, excluded, unaccounted = S.coverage_of_inventory()
    for u in unaccounted:
        ctx.violation("C09:harness:class-unaccounted:%s" % u,
                      "ProtocolEntity subclass %s has neither a shape spec nor an exclusion reason" % u)
    results = ctx.pmap(run_shape, [(n, vectors, phases, skews) for n in names], chunksize=2)
    results.sort(key=lambda r: r["name"])            # reporting order independent of the seed
    evals = sum(r["evals"] for r in results)
    reached = sum(r["reached"] for r in results)
    outcomes = set()
    per_class = {}
    by_pkg = {}
    for r in results:
        for o in r["outcomes"]:
            outcomes.add((r["name"], o))
        per_class[r["name"]] = {"class": r["cls"], "dir": r["direction"], "optional_parts": r["nparts"],
                                "cases": r["evals"], "distinct_stanzas_compared": r["reached"],
                                "violating_cases": r["nviol"]}
        by_pkg[r["package"]] = by_pkg.get(r["package"], 0) + 1
        ctx.add_violations(r["violations"])
    for r in results:
        if r["sample"] and r["name"] in ("IncomingReceipt", "CreateGroupsNotification", "ImageMessage.in",
                                         "OutgoingReceipt", "EncryptedMessage.out", "ResultSyncIq"):
            ctx.sample(r["sample"])
    ctx.coverage.update({
        "evaluations": evals,
        "distinct_nontrivial": reached,
        "rule": "distinct stanzas (canonical form) for which the entity was built and re-serialised (incoming) / "
                "produced and pushed through the real encoder (outgoing), i.e. the oracle comparison was reached",
        "exhaustive": True,
        "bound": "every shape: all 2^k subsets of its k optional parts x max(%d, widest choice) value vectors "
                 "x list plans %s (both tiers, shapes with lists: nested lists get 2 and 3 outer items with different inner "
                 "lists per item, sibling lists different lengths, all values distinct) "
                 "x list-length phases %s x slot skews %s; slot j of a kind takes alphabet[(v+j*skew) mod len], so "
                 "every slot takes every value of its alphabet (alphabets of <= 6 entries; the longer ones - ujid, gjid, id, "
                 "number, key32 - only supply distinct values of one class) under every subset; lists have 1,2,0 "
                 "items in plan 0; entity-level accessors are compared with the stanza for %d shapes; the "
                 "full product of values is not enumerated" % (vectors, S.LIST_PLANS, list(phases), list(skews),
                                                           sum(1 for x in S.SHAPES.values() if x.inspect)),
        "shapes": len(results),
        "shapes_incoming": sum(1 for r in results if r["direction"] == "incoming"),
        "shapes_outgoing": sum(1 for r in results if r["direction"] == "outgoing"),
        "classes_covered": len(covered),
        "classes_excluded": dict((k, S.EXCLUDED[k]) for k in excluded),
        "classes_in_inventory": len(covered) + len(excluded) + len(unaccounted),
        "shapes_per_package": by_pkg,
        "per_shape": per_class,
        "distinct_outcomes": len(set(o for _, o in outcomes)),
        "alphabets": dict((k, len(v)) for k, v in S.ALPHABETS.items()),
    })
    ctx.assume("relative order of differently-tagged sibling children is not a field of a stanza; the order of "
               "same-tag siblings (list items) is")
    ctx.assume("an attribute with a documented default (offline=0, backoff=0, resume=0) may be written on "
               "re-serialisation when absent, and dropped when it carries the default")
    ctx.assume("shape specs are written from each class's docstring, fixture test and constructor; values outside "
               "the documented kind of a slot (e.g. retry=0, empty attribute text) are not generated")
    ctx.assume("protobuf payloads inside <proto> are compared as bytes only (field mapping is C10)")


def replay(ctx, case):
    prepare()
    env.reset_ids()
    c = S.build_case(case["shape"], case["mask"], case["vector"], case.get("phase", 0), case.get("skew", 1),
                     case.get("plan", 0))
    vs, _, _ = check_case(c)
    return vs
