"""C04 Encrypted transport: handshake succeeds, frames flow intact and in order.

Controlled-scheduler exploration (E3): the real network/segments/noise/coder/protocol layers and the library's
own handshake worker thread run under the harness scheduler against the Noise responder double.  For every
case of the alphabet (variant x config x authentic/corrupted reply x connect history x server burst x client
stanzas x chunking of the server byte stream) all interleavings with <= bound preemptions at lock / queue /
layer-call points are executed and the oracle below is evaluated at quiescence of every execution.
"""
import itertools

from vf import env
env.bootstrap()

from vf.harness import noise as H
from vf.explore import sched as S
from vf.explore import dfs
from vf.runner import shuffled

PROPERTY = "C04"
LEVEL = "model_checking"
MOD = "vf.props.c04_noise_transport"


def _cut_offsets(frame_spans, cuts):
    """cuts = [(frame_index, rel)], rel in 1,2,3,4,'mid',-1 -> absolute stream offsets (for frames already known)."""
    out = set()
    for fi, rel in cuts:
        if fi < len(frame_spans):
            a, b = frame_spans[fi]
            if rel == "mid":
                off = a + 3 + max(1, (b - a - 3) // 2)
            elif rel == -1:
                off = b - 1
            else:
                off = a + rel
            if a < off < b:
                out.add(off)
    return out


def run_case(case, prefix):
    variant = case["variant"]
    hist = case.get("history", "fresh")
    nsend = case.get("nsend", 1)
    burst = case.get("burst", 1)
    corrupt = case.get("corrupt", False)
    cuts = [tuple(c) for c in case.get("cuts", [])]
    w = H.World(variant=variant, edge=case.get("edge", False), corrupt=corrupt, passive=case.get("passive", False),
                burst=burst, with_success=True)
    import os as _os
    sc = S.Scheduler(prefix, trace_filter=H.trace_filter,
                     line_filter=H.line_filter if (case.get("lines") or _os.environ.get("C04_LINES")) else None)
    final_conn = 0 if hist in ("fresh", "close-after-end") else 1
    sent = [H.out_stanza(k) for k in range(nsend)]
    obs = {}

    def spans(i):
        # frame spans of everything the server wrote so far on connection i, in absolute stream offsets
        return w._spans[i]

    # record frame spans as the server writes
    w._spans = []
    w._written = []
    orig_on_connect = w.on_connect

    def on_connect(disp, host):
        orig_on_connect(disp, host)
        w._spans.append([])
        w._written.append(0)
    w.on_connect = on_connect
    orig_extend = w.on_client_bytes

    def on_client_bytes(disp, data):
        i = disp.index
        before = len(w.server_out[i])
        orig_extend(disp, data)
        added = bytes(w.server_out[i][before:])
        pos = w._written[i]
        p = 0
        while p < len(added):
            n = (added[p] << 16) | (added[p + 1] << 8) | added[p + 2]
            w._spans[i].append((pos + p, pos + p + 3 + n))
            p += 3 + n
        w._written[i] += len(added)
    w.on_client_bytes = on_client_bytes

    delivered = {}

    def deliver_loop(i, stop_after=None, use_cuts=True):
        """deliver server bytes of connection i chunk by chunk; stop_after = number of bytes, None = forever"""
        delivered.setdefault(i, 0)
        while True:
            if stop_after is not None and delivered[i] >= stop_after():
                return
            had = len(w.server_out[i]) > 0 or w.dispatchers[i].closed
            sc.wait_until(lambda: len(w.server_out[i]) > 0 or w.dispatchers[i].closed, "server bytes")
            if had:
                # the loop thread was back in select() between two socket events: others ran meanwhile for free
                sc.env_point("next socket event")
            if w.dispatchers[i].closed:
                return          # the client closed the socket: nothing more is read from it
            avail = len(w.server_out[i])
            pos = delivered[i]
            lim = pos + avail
            if stop_after is not None:
                lim = min(lim, stop_after())
            nxt = lim
            if use_cuts:
                for c in sorted(_cut_offsets(w._spans[i], cuts)):
                    if pos < c < lim:
                        nxt = c
                        break
            w.log.append(("deliver", i, pos, nxt)); w.deliver(i, nxt - pos)
            delivered[i] = nxt

    def hello_len(i):
        return w._spans[i][0][1] if w._spans[i] else 0

    def net():
        w.connect()
        w.dispatchers[0].fire_connected()
        if hist == "fresh":
            deliver_loop(0)
            return
        if hist == "close-before-hello":
            # the server's answer never reaches the client: connection cut, then reconnect
            pass
        elif hist == "close-mid-hello":
            sc.wait_until(lambda: len(w.server_out[0]) > 0, "server bytes")
            w.deliver(0, max(1, hello_len(0) // 2))
        elif hist == "close-after-hello":
            sc.wait_until(lambda: len(w.server_out[0]) > 0, "server bytes")
            w.deliver(0, hello_len(0))
        elif hist == "close-after-transport":
            # complete handshake and the server's first frames, then cut and reconnect
            deliver_loop(0, stop_after=lambda: w._written[0] if w.responders[0].phase == "transport" else 1 << 30,
                         use_cuts=False)
        elif hist == "close-mid-bigframe":
            # established session; the connection is cut in the middle of a long server frame
            deliver_loop(0, stop_after=lambda: w._written[0] if w.responders[0].phase == "transport" else 1 << 30,
                         use_cuts=False)
            from yowsup.structs.protocoltreenode import ProtocolTreeNode as _N
            w.server_send(0, _N("ack", {"id": "big", "class": "message", "from": "4922@s.whatsapp.net", "t": "1600000999"},
                                None, bytes(bytearray((i * 7) & 0xFF for i in range(1500)))))
            w.sent_by_server[0].pop()       # never completely delivered
            w.deliver(0, 200)
        # the close is a later socket event: the loop thread was waiting in select() until it arrived
        sc.env_point("socket closed by peer")
        w.dispatchers[0].handle_close()
        w.pump_detached()
        if case.get("flip_passive"):
            # the next login is requested with the other passive flag (yowsup itself does this after a key upload)
            from yowsup.layers.auth.layer_authentication import YowAuthenticationProtocolLayer as _A
            w.stack.setProp(_A.PROP_PASSIVE, not bool(case.get("passive", False)))
        w.connect()
        w.dispatchers[1].fire_connected()
        deliver_loop(1)

    def app():
        def ready():
            if w.conn() != final_conn:
                return False
            if corrupt:
                return any(type(e).__name__ == "FailureProtocolEntity" for e in w.app.received)
            return w.state() == "transport" and len(w.responders) > final_conn and w.responders[final_conn].phase == "transport"
        sc.wait_until(ready, "session up")
        if corrupt:
            return
        for n in sent:
            w.stack.send(H.NodeEntity(n))

    error = None
    try:
        status = sc.run_phase([("net", net), ("app", app)], timeout=600.0)
    except (S.HarnessStuck, S.ReplayDivergence) as e:
        status = "error"
        error = e
    blocked = [(t.name, t.wait_desc) for t in sc.blocked()]
    pts = S.summarize_points(sc)
    log = list(sc.log)
    sc.shutdown()
    if error is not None:
        raise error

    v = []
    fc = final_conn
    r = w.responders[fc] if len(w.responders) > fc else None

    def bad(sig, what, detail=None):
        v.append(("C04:" + sig, what, dict(case), detail))

    for ent in log:
        # (after a failed server authentication the statement only asks for the failure report, see below)
        if ent[0] == "thread-exception" and not corrupt:
            bad("thread-exception:%s:%s" % (ent[1], ent[2]), "exception escaped in thread %s: %s %s" % (ent[1], ent[2], ent[3]), ent)
    blocked_names = [b[0] for b in blocked]
    if r is None:
        bad("no-final-connection", "the reconnect never reached the dispatcher", {"events": w.events})
        return pts, v, ("noconn",)
    for i, rr in enumerate(w.responders):
        if rr.errors:
            bad("responder-error", "server side could not process the client's byte stream on connection %d: %s" % (i, rr.errors[0]), rr.errors)
    if not corrupt:
        if "app" in blocked_names:
            bad("session-never-up", "encrypted session was not established (history=%s variant=%s): application still waiting; blocked=%s"
                % (hist, variant, blocked), {"state": w.state(), "responder": r.phase, "blocked": blocked,
                                              "app_received": [type(e).__name__ for e in w.app.received]})
        else:
            if w.state() != "transport" or r.phase != "transport":
                bad("not-transport", "final protocol state %s / server %s" % (w.state(), r.phase))
            # worker of the final attempt must be finished
            cp = r.client_payload
            if cp is None:
                bad("no-client-payload", "server never received the client payload")
            else:
                ua = cp.user_agent
                want_passive = bool(case.get("passive", False))
                if case.get("flip_passive") and fc > 0:
                    want_passive = not want_passive
                exp = (int(w.config.phone), want_passive, w.config.pushname, "262", "07", "fd-1")
                got = (cp.username, cp.passive, cp.push_name, ua.mcc, ua.mnc, ua.phone_id)
                if got != exp:
                    bad("client-payload", "client payload %r differs from configured account %r" % (got, exp))
                if r.client_static != bytes(H.CLIENT_STATIC.public.data):
                    bad("client-static", "client authenticated with a different static key")
            if w.edge_info is not None and r.edge_info != w.edge_info:
                bad("edge-info", "edge routing info not presented")
            if w.edge_info is None and r.edge_info is not None:
                bad("edge-info", "edge routing info presented although not configured")
            # server key persistence
            srv = bytes(H.SERVER_STATIC.public.data)
            changed = variant in ("XX", "XXfallback")
            if changed and not w.profile.writes:
                bad("server-key-not-stored", "changed server key was never written to the profile")
            if any(x != srv for x in w.profile.writes):
                bad("server-key-wrong", "a key other than the server's was written to the profile", w.profile.writes)
            cur = w.config.server_static_public
            if cur is None or bytes(cur.data) != srv:
                bad("server-key-config", "config does not hold the server's key after login")
            # client -> server stanzas
            try:
                got_nodes = [H.node_key(n) for n in w.decoded_client_stanzas(fc)]
            except Exception as e:
                got_nodes = None
                bad("client-frame-undecodable", "server could not decode a client frame: %r" % (e,))
            if got_nodes is not None and got_nodes != [H.node_key(n) for n in sent]:
                bad("client-stanzas", "stanzas arriving at the server differ from those sent (order/multiplicity/content)",
                    {"got": [g[0] for g in got_nodes], "sent": [n.tag for n in sent]})
            # server -> client stanzas: everything sent on the final connection, in order, exactly once; of a
            # connection that was cut, an in-order prefix (what was still queued when it was cut is lost with it)
            got_in = []
            for e in w.app.received:
                try:
                    got_in.append(H.node_key(e.toProtocolTreeNode()))
                except Exception:
                    got_in.append(("?", type(e).__name__))
            fin = [H.node_key(n) for n in w.sent_by_server[fc]]
            ok = False
            if len(got_in) >= len(fin) and got_in[len(got_in) - len(fin):] == fin:
                early = got_in[:len(got_in) - len(fin)]
                olds = [H.node_key(n) for i in range(fc) for n in w.sent_by_server[i]]
                ok = early == olds[:len(early)] and (fc > 0 or not early)
            if not ok:
                bad("server-stanzas", "stanzas delivered to the application differ from those the server sent",
                    {"got": [g[0] for g in got_in], "sent_final": [n[0] for n in fin]})
    else:
        names = [type(e).__name__ for e in w.app.received]
        if "app" in blocked_names or "FailureProtocolEntity" not in names:
            bad("failure-not-reported", "failed server authentication was not reported upward as a login failure",
                {"blocked": blocked, "received": names, "state": w.state()})
        elif names.count("FailureProtocolEntity") != 1:
            bad("failure-duplicated", "login failure reported %d times" % names.count("FailureProtocolEntity"))
        if H.YowNoiseLayer.EVENT_HANDSHAKE_FAILED not in w.app.events and "app" not in blocked_names:
            bad("failure-event-missing", "handshake_failed event did not reach the top")
        if any(b[0].startswith("WANoise") for b in blocked):
            bad("failure-worker-hangs", "handshake worker still blocked after a failed handshake", blocked)
    # a handshake worker of a connection that was cut must not stay parked for ever
    stale = [b for b in blocked if b[0].startswith("WANoise")]
    if stale and not corrupt and "app" not in blocked_names:
        bad("stale-worker-blocked", "a handshake worker is still blocked although the session it belongs to is gone or complete: %s" % stale, blocked)
    # generic: nobody may sit on a layer lock at quiescence
    held = [k for k, x in w.locks().items() if x]
    if held:
        bad("lock-held", "locks still held at quiescence: %s" % held, {"blocked": blocked})
    obs = (w.state(), r.phase, tuple(type(e).__name__ for e in w.app.received), len(w.profile.writes),
           tuple(sorted(blocked_names)), len(r.received))
    return pts, v, obs


def cases_for(tier):
    quick = tier == "quick"
    cases = []
    base_cuts = [[], [[0, 2]], [[0, -1]], [[1, -1], [2, 1]]]
    if not quick:
        base_cuts += [[[0, 1]], [[0, 3]], [[0, "mid"]], [[1, 2]], [[0, 2], [1, 3]], [[0, 4]], [[1, "mid"]], [[2, 3]],
                      [[0, 1], [0, 2], [0, 3]], [[0, -1], [1, 1], [1, 4]], [[1, 1], [2, "mid"], [2, -1]]]
    variants = ("XX", "IK", "XXfallback")
    for var in variants:
        for edge in (False, True):
            for cuts in base_cuts:
                if edge and cuts not in ([], [[0, "mid"]]):
                    continue
                if quick and var == "XXfallback" and cuts:
                    continue
                cases.append({"variant": var, "edge": edge, "cuts": cuts, "burst": 2, "nsend": 2, "history": "fresh",
                              "passive": edge})
        for burst, nsend in ((0, 1),) if quick else ((0, 0), (0, 1), (1, 0), (0, 2), (2, 1)):
            cases.append({"variant": var, "cuts": [], "burst": burst, "nsend": nsend, "history": "fresh"})
        cases.append({"variant": var, "corrupt": True, "cuts": [], "burst": 0, "nsend": 0, "history": "fresh"})
        if not quick:
            cases.append({"variant": var, "corrupt": True, "cuts": [[0, "mid"]], "burst": 0, "nsend": 0, "history": "fresh"})
        for hist in ("close-before-hello", "close-mid-hello", "close-after-hello", "close-after-transport", "close-mid-bigframe"):
            if quick and (var, hist) not in (("XX", "close-before-hello"), ("XX", "close-after-hello"), ("XX", "close-after-transport"),
                                             ("IK", "close-before-hello"), ("IK", "close-mid-bigframe"),
                                             ("XXfallback", "close-mid-hello")):
                continue
            cases.append({"variant": var, "cuts": [], "burst": 1, "nsend": 1, "history": hist,
                          "flip_passive": hist in ("close-after-transport", "close-before-hello")})
            if not quick:
                cases.append({"variant": var, "cuts": [[0, 2]], "burst": 2, "nsend": 2, "history": hist, "edge": True})
    return cases


def _core2(c):
    """thorough: cases explored completely at preemption bound 2.  Sizes measured (DESIGN 9.3): a fresh login is
    ~0.1M executions per case, a cut-off history ~1M; all three variants for the fresh logins, XX cut off before the server hello for the histories."""
    if c.get("edge") or c.get("passive") or c.get("cuts"):
        return False
    if c.get("history", "fresh") == "fresh":
        if c.get("corrupt"):
            return True
        return (c.get("burst"), c.get("nsend")) in ((0, 0), (0, 1), (1, 0))
    return c["variant"] == "XX" and c["history"] == "close-before-hello"


def run(ctx):
    cases = shuffled(cases_for(ctx.tier), ctx.seed, "c04")
    if ctx.quick:
        phases = [{"name": "bound1", "cases": cases, "bound": 1, "free_bound": 1, "cap": 80000}]
    else:
        # line-granularity scheduling points inside layers/__init__.py, noise/layer.py and the segments layer
        # (races between two statements that involve no call), on the cut-off histories, at bound 1
        lc = []
        for c in cases:
            if c.get("history") in ("close-before-hello", "close-mid-hello", "close-after-hello") and not c.get("cuts") and not c.get("edge"):
                d = dict(c)
                d["lines"] = True
                lc.append(d)
        phases = [
            {"name": "bound1", "cases": cases, "bound": 1, "free_bound": 2},
            {"name": "lines-bound1", "cases": lc, "bound": 1, "free_bound": 1},
            {"name": "bound2-core", "cases": [c for c in cases if _core2(c)], "bound": 2, "free_bound": 1},
        ]
    # within a phase, level 0 holds the default (0-preemption) schedules, so the simplest counterexamples come first;
    # a case that violated is not expanded further, the others are explored up to the bound
    st, phase_summ = dfs.explore_phases(ctx, MOD, "run_case", phases)
    # determinism: the same schedule observed twice must give identical observations
    p1 = run_case(cases[0], (0, {}))
    p2 = run_case(cases[0], (0, {}))
    if p1 != p2:
        raise RuntimeError("nondeterministic replay of the default schedule")
    for c in cases[:3]:
        ctx.sample(c)
    ctx.coverage.update({
        "phases": phase_summ,
        "states": st.points,
        "transitions": st.points,
        "traces_validated_against_impl": st.executions,
        "executions": st.executions,
        "cases": len(cases),
        "preemption_bound_completed_all_cases": 1 if not st.capped else None,
        "by_preemptions": {str(k): n for k, n in sorted(st.by_preemptions.items())},
        "executions_per_case": {str(k): n for k, n in st.per_case.items()},
        "max_scheduling_points_per_execution": st.max_points,
        "distinct_outcomes": len(st.observations),
        "exhaustive": not st.capped,
        "explanation": "states/transitions = scheduling points visited (stateless search: each execution is a path); "
                       "every execution runs the real layers and consonance's handshake against the responder double",
    })
    ctx.assume("scheduling points: CLock/CQueue operations, thread spawn/exit, PY_START of functions in yowsup/layers/** "
               "and consonance protocol/transport/streams (entity and codec modules excluded)")
    ctx.assume("Noise responder double (dissononce) and the dispatcher double are trusted; consonance randint shim")


def replay(ctx, case):
    case = dict(case)
    pf = dfs.schedule_from_case(case)
    case.pop("schedule", None)
    pts, v, obs = run_case(case, pf)
    return v
