"""C15 Media cipher: lossless round trip, tamper rejection, byte-compatibility with WhatsApp's layout.

Bounded-exhaustive exploration of the real MediaCipher (generic encrypt/decrypt and the 8 per-kind
wrappers) against vf.ref.mediacipher (own HKDF, always-padded AES-CBC, 10-byte HMAC over iv||body).

Base case = (kind, key, pattern, length).  For every base case:
  * library round trip, byte comparison with the reference blob, reference opens the library blob,
    library opens the reference blob, wrappers agree with the generic calls;
  * tamper set applied to the reference blob (the blob a WhatsApp peer would send; identical to the
    library blob whenever those agree) and, when the library blob differs, to the library blob too:
    xor of one byte with each mask, every truncation, extensions, wrong key, wrong kind.
    Every tampered input must make decrypt raise.
Lengths 0..80 get the full tamper set (every byte position, every truncation length) for every
(kind, key, pattern); all 255 xor masks are used while the body is <= 32 bytes (quick tier: for one
key per length, the other keys get three masks), the masks 0x01/0x80/0xff beyond.
Larger lengths get, for every kind and one (pattern, key) per length (key rotating with the length),
the boundary tamper set (first/last blocks, tag, strided interior positions, the last 42 truncations
and a few deep ones, extensions, block reordering); the remaining base cases of a large length get
the light set (one flip per region, truncation by 1/10/16/26, one extension, one wrong key, one wrong
kind).  MAC-then-decrypt has no control flow that depends on position, key or content beyond those.

Sequence part (both tiers): all sequences of 2 and 3 calls on ONE MediaCipher object over
{encrypt, decrypt valid, decrypt wrong-kind blob, decrypt tampered blob} x 4 kinds x 2 keys x lengths
{0, 15, 16, 17, 1000}, through the generic calls and through the per-kind wrappers; every step is compared
with the reference, so a result that depends on what the object did before is a violation (C15:sequence:*).
"""
import hashlib
import itertools

from vf import env
env.bootstrap()

from yowsup.layers.protocol_media.mediacipher import MediaCipher
from vf.ref import mediacipher as rm
from vf.runner import shuffled

PROPERTY = "C15"
LEVEL = "exploration"

KEYS = [
    bytes(32),
    bytes([0xFF]) * 32,
    bytes(range(32)),
    hashlib.sha256(b"vf/c15/key3").digest(),
]
PATTERNS = ("zeros", "ones", "x10", "ramp")      # simplest first
_RAMP = bytes(range(256))
MASKS3 = (0x01, 0x80, 0xFF)
FULL_TAMPER_MAX = 80


def make_plain(pattern, n):
    if pattern == "zeros":
        return bytes(n)
    if pattern == "ones":
        return b"\x01" * n          # unpadded aligned data ends in a valid 1-byte padding
    if pattern == "x10":
        return b"\x10" * n          # unpadded aligned data ends in a valid 16-byte padding
    if pattern == "ramp":
        return (_RAMP * (n // 256 + 1))[:n]
    raise ValueError(pattern)


def cls_of(n):
    return "block-aligned" if n % 16 == 0 else "unaligned"


def _exc(e):
    return "%s: %s" % (type(e).__name__, str(e)[:120])


def tamper_variants(blob, level):
    """Yield (region, description, tampered_bytes); deterministic, simplest first.
    level: 'full' (every position / truncation), 'boundary' (block and tag boundaries, strided interior),
    'full3' (as full but only masks 0x01/0x80/0xff), 'light' (one flip per region, the four characteristic
    truncations, one extension)."""
    L = len(blob)
    body_len = max(0, L - rm.MAC_LEN)
    full = level in ("full", "full3")
    if level == "light":
        for i in sorted(set(p for p in (0, body_len - 1, body_len, L - 1) if 0 <= p < L)):
            t = bytearray(blob)
            t[i] ^= 0x01
            yield ("tag" if i >= body_len else "body"), "xor byte %d of %d with 0x01" % (i, L), bytes(t)
        for k in sorted(set(k for k in (L - 1, L - 10, L - 16, L - 26) if 0 <= k < L), reverse=True):
            yield "truncation", "keep first %d of %d bytes" % (k, L), blob[:k]
        yield "extension", "append 0x00", blob + b"\x00"
        return
    if full:
        positions = range(L)
    else:
        pos = set(range(0, min(L, 33)))
        pos.update(range(max(0, body_len - 33), L))
        step = max(1, body_len // 8)
        pos.update(range(0, body_len, step))
        for b in range(0, body_len, max(16, (body_len // 4) // 16 * 16 or 16)):
            pos.update(p for p in (b - 1, b, b + 15, b + 16) if 0 <= p < L)
        positions = sorted(pos)
    masks = range(1, 256) if (level == "full" and body_len <= 32) else MASKS3
    for i in positions:
        region = "tag" if i >= body_len else "body"
        for m in masks:
            t = bytearray(blob)
            t[i] ^= m
            yield region, "xor byte %d of %d with 0x%02x" % (i, L, m), bytes(t)
    if full:
        keeps = range(L - 1, -1, -1)
    else:
        ks = set(range(max(0, L - 42), L))
        ks.update(k for k in (0, 1, 9, 10, 11, 16, 26, 32, 42, body_len // 2, body_len // 2 // 16 * 16 + 10,
                              body_len - 16, body_len) if 0 <= k < L)
        keeps = sorted(ks, reverse=True)
    for k in keeps:
        yield "truncation", "keep first %d of %d bytes" % (k, L), blob[:k]
    for k in (1, 16, 26, 10):
        if k <= L:
            yield "truncation-front", "drop first %d of %d bytes" % (k, L), blob[k:]
    tag = blob[body_len:]
    yield "extension", "append 0x00", blob + b"\x00"
    yield "extension", "append 16 zero bytes", blob + bytes(16)
    yield "extension", "append a copy of the tag", blob + tag
    yield "extension", "prepend 0x00", b"\x00" + blob
    yield "extension", "insert a zero block before the tag", blob[:body_len] + bytes(16) + tag
    if body_len >= 32:
        yield "reorder", "swap the first two body blocks", blob[16:32] + blob[:16] + blob[32:]
        yield "reorder", "drop the last body block, keep the tag", blob[:body_len - 16] + tag
        yield "reorder", "duplicate the last body block", blob[:body_len] + blob[body_len - 16:body_len] + tag


def check_case(item):
    idx, kind, ki, pattern, n, level = item
    key = KEYS[ki]
    p = make_plain(pattern, n)
    info = rm.INFO[kind]
    cls = cls_of(n)
    case = {"kind": kind, "key": ki, "pattern": pattern, "length": n, "tamper": level}
    vs = []
    calls = 0
    tampered = 0
    mc = MediaCipher()
    ref_ct = rm.encrypt(p, key, kind)
    assert rm.decrypt(ref_ct, key, kind) == p
    o_rt = o_eq = o_refopen = o_libopen = "-"

    ct = None
    try:
        calls += 1
        ct = mc.encrypt(p, key, info)
    except Exception as e:
        vs.append(("C15:encrypt-raises:" + cls, "encrypt raised for a %d-byte %s plaintext: %s" % (n, kind, _exc(e)),
                   case, _exc(e)))
        o_rt = "encrypt-raises"
    if ct is not None and not isinstance(ct, bytes):
        vs.append(("C15:encrypt-type", "encrypt returned %s, not bytes" % type(ct).__name__, case, None))
        ct = bytes(ct)
    if ct is not None:
        try:
            calls += 1
            back = mc.decrypt(ct, key, info)
        except Exception as e:
            o_rt = "raises"
            vs.append(("C15:roundtrip-raises:" + cls,
                       "decrypt(encrypt(p)) raised for a %d-byte (%s) plaintext: %s" % (n, cls, _exc(e)),
                       case, {"exception": _exc(e), "library_blob_len": len(ct), "reference_blob_len": len(ref_ct)}))
        else:
            if back == p:
                o_rt = "ok"
            else:
                o_rt = "wrong"
                vs.append(("C15:roundtrip-wrong-plaintext:" + cls,
                           "decrypt(encrypt(p)) returned %d bytes for a %d-byte (%s, pattern %s) plaintext"
                           % (len(back), n, cls, pattern),
                           case, {"returned_len": len(back), "expected_len": n, "returned_head": bytes(back[:24]),
                                  "is_prefix_of_original": p.startswith(bytes(back))}))
        if ct == ref_ct:
            o_eq = "eq"
        else:
            body, rbody = ct[:-rm.MAC_LEN], ref_ct[:-rm.MAC_LEN]
            if len(ct) != len(ref_ct):
                how = "length"
            elif body != rbody:
                how = "body"
            else:
                how = "tag"
            o_eq = "ne-" + how
            vs.append(("C15:ciphertext-differs-from-reference:" + cls,
                       "encrypt output for a %d-byte (%s) %s plaintext differs from the WhatsApp layout in %s "
                       "(library %d bytes, reference %d bytes)" % (n, cls, kind, how, len(ct), len(ref_ct)),
                       case, {"differs_in": how, "library_len": len(ct), "reference_len": len(ref_ct),
                              "library_is_reference_minus_padding_block":
                                  len(ref_ct) - len(ct) == 16 and ct[:-rm.MAC_LEN] == ref_ct[:len(ct) - rm.MAC_LEN],
                              "library_head": ct[:24], "reference_head": ref_ct[:24]}))
        try:
            rb = rm.decrypt(ct, key, kind)
        except rm.RefError as e:
            o_refopen = "rejects"
            vs.append(("C15:reference-rejects-library-ciphertext:" + cls,
                       "a WhatsApp-conformant decryptor rejects what the library encrypted (%d-byte %s plaintext): %s"
                       % (n, cls, e), case, str(e)))
        else:
            if rb == p:
                o_refopen = "ok"
            else:
                o_refopen = "wrong"
                vs.append(("C15:reference-decrypts-library-ciphertext-differently:" + cls,
                           "a WhatsApp-conformant decryptor gets %d bytes from the library's encryption of %d bytes"
                           % (len(rb), n), case, {"returned_len": len(rb), "expected_len": n}))
        # wrapper: encrypt_<kind> must equal the generic call with the kind's info string
        try:
            calls += 1
            w = getattr(mc, "encrypt_" + kind)(p, key)
            if w != ct:
                vs.append(("C15:wrapper-differs:encrypt_" + kind,
                           "encrypt_%s differs from encrypt(..., %r)" % (kind, info), case, None))
        except Exception as e:
            vs.append(("C15:wrapper-differs:encrypt_" + kind, "encrypt_%s raised %s" % (kind, _exc(e)), case, _exc(e)))

    # library opens what a WhatsApp peer would send
    try:
        calls += 1
        lb = mc.decrypt(ref_ct, key, info)
    except Exception as e:
        o_libopen = "rejects"
        vs.append(("C15:library-rejects-reference-ciphertext:" + cls,
                   "decrypt raised on a valid WhatsApp blob of a %d-byte %s plaintext: %s" % (n, kind, _exc(e)),
                   case, _exc(e)))
    else:
        if lb == p:
            o_libopen = "ok"
        else:
            o_libopen = "wrong"
            vs.append(("C15:library-decrypts-reference-ciphertext-differently:" + cls,
                       "decrypt of a valid WhatsApp blob of %d bytes returned %d bytes" % (n, len(lb)),
                       case, {"returned_len": len(lb), "expected_len": n}))
    try:
        calls += 1
        wb = getattr(mc, "decrypt_" + kind)(ref_ct, key)
        if wb != p:
            vs.append(("C15:wrapper-differs:decrypt_" + kind,
                       "decrypt_%s returned different bytes than the plaintext of a valid %s blob" % (kind, kind),
                       case, {"returned_len": len(wb), "expected_len": n}))
    except Exception as e:
        vs.append(("C15:wrapper-differs:decrypt_" + kind,
                   "decrypt_%s raised on a valid %s blob: %s" % (kind, kind, _exc(e)), case, _exc(e)))

    # ---- tampering: every variant must raise -------------------------------------------------
    accepted = 0
    targets = [("reference", ref_ct)]
    if ct is not None and ct != ref_ct:
        targets.append(("library", ct))

    def must_raise(fn, sig, what):
        nonlocal calls, tampered, accepted
        calls += 1
        tampered += 1
        try:
            r = fn()
        except Exception:
            return
        accepted += 1
        r = bytes(r)
        vs.append((sig, "%s: decrypt returned %d bytes (%s) instead of raising"
                   % (what, len(r), "the original plaintext" if r == p else "DIFFERENT plaintext"),
                   case, {"returned_len": len(r), "same_as_original": r == p, "returned_head": r[:24]}))

    for tname, blob in targets:
        for region, desc, t in tamper_variants(blob, level):
            if t == blob:
                continue
            must_raise(lambda: mc.decrypt(t, key, info), "C15:tamper-accepted:" + region,
                       "%s blob of a %d-byte plaintext, %s" % (tname, n, desc))
        for kj, other in enumerate(KEYS):
            if kj != ki and (level != "light" or kj == (ki + 1) % len(KEYS)):
                must_raise(lambda: mc.decrypt(blob, other, info), "C15:wrong-key-accepted",
                           "%s blob decrypted with key #%d instead of #%d" % (tname, kj, ki))
        for bit in ((255,) if level == "light" else (0, 255)):
            k2 = bytearray(key)
            k2[bit // 8] ^= 1 << (bit % 8)
            must_raise(lambda: mc.decrypt(blob, bytes(k2), info), "C15:wrong-key-accepted",
                       "%s blob decrypted with bit %d of the key flipped" % (tname, bit))
        for oi, other_kind in enumerate(rm.KINDS):
            if other_kind != kind and (level != "light" or oi == (rm.KINDS.index(kind) + 1) % 4):
                must_raise(lambda: mc.decrypt(blob, key, rm.INFO[other_kind]), "C15:wrong-kind-accepted",
                           "%s %s blob decrypted as %s" % (tname, kind, other_kind))
                must_raise(lambda: getattr(mc, "decrypt_" + other_kind)(blob, key),
                           "C15:wrong-kind-accepted:decrypt_" + other_kind,
                           "%s %s blob given to decrypt_%s" % (tname, kind, other_kind))
    outcome = (cls, o_rt, o_eq, o_refopen, o_libopen, accepted > 0)
    return idx, vs, calls, tampered, outcome


# ------------------------------------------------------------------------------------------------------
# Operation sequences on ONE MediaCipher object: the result of a call must not depend on earlier calls.
#
# step = (op, kind, key index, plaintext length)
#   op "enc"        encrypt the plaintext as <kind>                -> must equal the reference blob
#      "dec"        decrypt the valid reference <kind> blob          -> must return the plaintext
#      "wk:<src>"   decrypt the valid <src> blob (src != kind) as <kind>   -> must raise
#      "tam"        decrypt the <kind> blob with its last tag byte flipped  -> must raise
# Every sequence is run on a fresh object, once through the generic encrypt/decrypt(…, info) calls and
# once through the per-kind wrapper methods (the way yowsup's media download/upload code uses the class).
# A step whose result deviates from the reference is re-run alone on a fresh object: the same deviation there
# is a stateless defect (reported by the stateless part above under its own signature), a different result
# means the object's history changed the outcome -> C15:sequence:*.

SEQ_KEYS = (0, 3)
SEQ_LENGTHS = (0, 15, 16, 17, 1000)
SEQ_LENGTHS_DEEP = (0, 16, 17)
SEQ_PATTERN = "ramp"
_seq_cache = {}


def seq_alphabet(lengths):
    steps = []
    for n in lengths:
        for ki in SEQ_KEYS:
            for kind in rm.KINDS:
                steps.append(("enc", kind, ki, n))
                steps.append(("dec", kind, ki, n))
                for src in rm.KINDS:
                    if src != kind:
                        steps.append(("wk:" + src, kind, ki, n))
                steps.append(("tam", kind, ki, n))
    return steps


def _seq_material(kind, ki, n):
    k = (kind, ki, n)
    r = _seq_cache.get(k)
    if r is None:
        p = make_plain(SEQ_PATTERN, n)
        blob = rm.encrypt(p, KEYS[ki], kind)
        bad = blob[:-1] + bytes([blob[-1] ^ 0x01])
        r = _seq_cache[k] = (p, blob, bad)
    return r


def seq_call(mc, mode, step):
    """Run one step on `mc`; -> ("ret", bytes) | ("raise", text)."""
    op, kind, ki, n = step
    key = KEYS[ki]
    p, blob, bad = _seq_material(kind, ki, n)
    if op == "enc":
        arg, fn = p, "encrypt"
    elif op == "dec":
        arg, fn = blob, "decrypt"
    elif op == "tam":
        arg, fn = bad, "decrypt"
    else:
        arg, fn = _seq_material(op[3:], ki, n)[1], "decrypt"
    try:
        if mode == "generic":
            r = getattr(mc, fn)(arg, key, rm.INFO[kind])
        else:
            r = getattr(mc, fn + "_" + kind)(arg, key)
    except Exception as e:
        return ("raise", _exc(e))
    return ("ret", bytes(r))


def seq_expected(step):
    op, kind, ki, n = step
    p, blob, bad = _seq_material(kind, ki, n)
    if op == "enc":
        return ("ret", blob)
    if op == "dec":
        return ("ret", p)
    return ("raise", None)


def seq_conforms(got, exp):
    return got[0] == exp[0] and (exp[0] == "raise" or got[1] == exp[1])


_SEQ_SIG = {"enc": "encrypt-differs", "dec": "valid-blob", "tam": "tamper-accepted", "wk": "wrong-kind-accepted"}


def run_sequence(mode, seq, vs, alone_cache):
    """-> number of real-code calls.  Appends at most one violation (first deviating step)."""
    mc = MediaCipher()
    calls = 0
    for i, step in enumerate(seq):
        got = seq_call(mc, mode, step)
        calls += 1
        exp = seq_expected(step)
        if seq_conforms(got, exp):
            continue
        alone = alone_cache.get((mode, step))
        if alone is None:
            alone = alone_cache[(mode, step)] = seq_call(MediaCipher(), mode, step)
            calls += 1
        if alone == got or (alone[0] == "raise" and got[0] == "raise"):
            return calls        # same deviation without any history: stateless defect, not a sequence defect
        op, kind, ki, n = step
        base = _SEQ_SIG[op[:2] if op.startswith("wk") else op]
        if op == "dec":
            base += "-rejected" if got[0] == "raise" else "-wrong-plaintext"
        elif op == "enc" and got[0] == "raise":
            base = "encrypt-raises"
        earlier = seq[:i]
        if not earlier:
            rel = "first-call"
        elif any(e[2] == ki and e[1] != kind for e in earlier):
            rel = "same-key-other-kind"
        elif any(e[2] == ki for e in earlier):
            rel = "same-key-same-kind"
        else:
            rel = "other-key"
        what = "%s after earlier %s calls on one MediaCipher (%s API): step %d %s %s key#%d len %d %s" % (
            base, rel, mode, i + 1, op, kind, ki, n,
            "raised " + got[1] if got[0] == "raise" else "returned %d bytes" % len(got[1]))
        if op == "enc" and got[0] == "ret":
            others = [k for k in rm.KINDS if k != kind and got[1] == _seq_material(k, ki, n)[1]]
            if others:
                what += " (= the %s layout)" % others[0]
        vs.append(("C15:sequence:%s:%s" % (base, rel), what,
                   {"sequence": [list(st) for st in seq[:i + 1]], "mode": mode},
                   {"got": got, "expected": exp[0] if exp[0] == "raise" else {"ret_len": len(exp[1]), "head": exp[1][:24]},
                    "same_call_on_a_fresh_object": alone[0] if alone[0] == "raise" else {"ret_len": len(alone[1])}}))
        return calls
    return calls


def check_sequences(item):
    """item = (idx, mode, lengths, depth, first step index): all sequences of `depth` steps over
    seq_alphabet(lengths) that start with the given first step (shorter sequences are their prefixes)."""
    idx, mode, lengths, depth, first = item
    alpha = seq_alphabet(lengths)
    vs = []
    calls = nseq = kindchange = 0
    alone_cache = {}
    a = alpha[first]
    for rest in itertools.product(alpha, repeat=depth - 1):
        seq = (a,) + rest
        calls += run_sequence(mode, seq, vs, alone_cache)
        nseq += 1
        if any(seq[j][2] == seq[j + 1][2] and seq[j][1] != seq[j + 1][1] for j in range(depth - 1)):
            kindchange += 1
    # one violation per signature is enough from a chunk; keep the shortest sequence
    best = {}
    for v in vs:
        if v[0] not in best or len(v[2]["sequence"]) < len(best[v[0]][2]["sequence"]):
            best[v[0]] = v
    return idx, list(best.values()), calls, nseq, kindchange, len(vs)


def build_sequence_items(quick):
    items = []
    for mode in ("generic", "wrapper"):
        for n in SEQ_LENGTHS:                                   # one length per sequence, 3 steps
            for first in range(len(seq_alphabet((n,)))):
                items.append((mode, (n,), 3, first))
        for first in range(len(seq_alphabet(SEQ_LENGTHS))):     # length varies per step, 2 steps
            items.append((mode, SEQ_LENGTHS, 2, first))
    if not quick:
        for first in range(len(seq_alphabet(SEQ_LENGTHS_DEEP))):  # length varies per step, 3 steps
            items.append(("generic", SEQ_LENGTHS_DEEP, 3, first))
    return [(i,) + it for i, it in enumerate(items)]


def lengths_for(quick):
    small = list(range(0, FULL_TAMPER_MAX + 1))
    if quick:
        ns = set(range(6, 65))
        ns.update(2 ** k for k in range(6, 13))
        ns.update((100, 255, 257, 1000, 3000, 4095))
    else:
        ns = set(range(6, 4097))
    big = sorted(set(16 * n + d for n in ns for d in (-1, 0, 1)) - set(small))
    return small, big


def known_answer(ctx):
    """WhatsApp-produced sample shipped with the repo (key, jpeg, blob): anchors the reference itself."""
    import base64
    try:
        from yowsup.layers.protocol_media.test_mediacipher import MediaCipherTest
        key, plain, blob = [base64.b64decode(x) for x in MediaCipherTest.IMAGE]
    except Exception as e:      # sample not available: nothing to anchor against
        ctx.note("known-answer sample unavailable: %s" % _exc(e))
        return 0
    case = {"known_answer": "test_mediacipher.IMAGE"}
    if rm.encrypt(plain, key, "image") != blob or rm.decrypt(blob, key, "image") != plain:
        raise AssertionError("reference implementation does not reproduce the WhatsApp sample blob")
    mc = MediaCipher()
    try:
        if mc.encrypt_image(plain, key) != blob:
            ctx.violation("C15:known-answer:encrypt", "encrypt_image does not reproduce the WhatsApp sample blob", case)
        if mc.decrypt_image(blob, key) != plain:
            ctx.violation("C15:known-answer:decrypt", "decrypt_image does not open the WhatsApp sample blob", case)
    except Exception as e:
        ctx.violation("C15:known-answer:raises", "WhatsApp sample blob: %s" % _exc(e), case, _exc(e))
    return 2


def build_items(quick):
    small, big = lengths_for(quick)
    items = []
    # simplest first: short lengths, zero key, simple patterns
    for n in small:
        for pattern in PATTERNS:
            for ki in range(len(KEYS)):
                for kind in rm.KINDS:
                    # quick tier: all 255 masks for one key per length (rotating), 3 masks for the other keys
                    items.append((kind, ki, pattern, n, "full" if (not quick or ki == n % len(KEYS)) else "full3"))
    for j, n in enumerate(big):
        for pattern in PATTERNS:
            for ki in range(len(KEYS)):
                for kind in rm.KINDS:
                    # the boundary tamper set costs ~350 MACs over the whole blob: one (pattern, key) per length,
                    # rotating the key with the length, all four kinds; the other base cases get the light set
                    heavy = pattern == "ramp" and ki == j % len(KEYS)
                    items.append((kind, ki, pattern, n, "boundary" if heavy else "light"))
    return [(i,) + it for i, it in enumerate(items)], small, big


# ---------------------------------------------------------------------------
# key shapes: a media key is 32 arbitrary bytes; keys whose first / last byte is ASCII white space, a base64 or hex
# character, NUL, DEL or a high byte, and keys that are entirely printable text, are keys like any other
SHAPE_EDGE_BYTES = (0x00, 0x09, 0x0A, 0x0B, 0x0C, 0x0D, 0x20, 0x2B, 0x2F, 0x30, 0x3D, 0x41, 0x61, 0x7F, 0x80, 0xA0, 0xFF)


def shape_keys():
    body = hashlib.sha256(b"vf/c15/shape").digest()
    out = []
    for b in SHAPE_EDGE_BYTES:
        out.append(("first=%02x" % b, bytes([b]) + body[1:]))
        out.append(("last=%02x" % b, body[:31] + bytes([b])))
        out.append(("both=%02x" % b, bytes([b]) + body[1:31] + bytes([b])))
    out.append(("all-spaces", b" " * 32))
    out.append(("printable-base64-like", b"QUJDREVGR0hJSktMTU5PUFFSU1RVVldY"))
    out.append(("printable-hex-like", b"00112233445566778899aabbccddeeff"))
    out.append(("newline-terminated-text", b"0123456789abcdef0123456789abcde\n"))
    return out


def check_key_shapes(kind):
    vs = []
    calls = 0
    info = rm.INFO[kind]
    keys = shape_keys()
    mc = MediaCipher()
    blobs = {}
    for name, key in keys:
        for n in (0, 1, 16, 33):
            p = make_plain("ramp", n)
            case = {"key_shape": name, "kind": kind, "length": n}
            ref_ct = rm.encrypt(p, key, kind)
            try:
                calls += 2
                ct = bytes(mc.encrypt(p, key, info))
                back = mc.decrypt(ref_ct, key, info)
            except Exception as e:
                vs.append(("C15:key-shape:raises", "key %s: %s" % (name, _exc(e)), case, _exc(e)))
                continue
            if ct != ref_ct:
                vs.append(("C15:key-shape:ciphertext-differs-from-reference", "with a media key of shape %s the ciphertext differs from "
                           "the reference cipher's" % name, case, None))
            if back != p:
                vs.append(("C15:key-shape:reference-blob-decrypts-differently", "key shape %s: the reference blob decrypts to other data" % name, case, None))
            if n == 16:
                blobs[name] = (key, ref_ct, p)
    # every other shaped key is a wrong key for a blob
    names = [k for k in blobs]
    for a in names:
        key_a, blob, p = blobs[a]
        for b in names:
            key_b = blobs[b][0]
            if key_b == key_a:
                continue
            calls += 1
            try:
                r = mc.decrypt(blob, key_b, info)
            except Exception:
                continue
            vs.append(("C15:key-shape:wrong-key-accepted", "blob made with key %s was decrypted with key %s without an error" % (a, b),
                       {"key_shape": a, "other_key_shape": b, "kind": kind}, {"same_plaintext": r == p}))
            break
    return kind, vs, calls


def run(ctx):
    items, small, big = build_items(ctx.quick)
    ka = known_answer(ctx)
    order = shuffled(items, ctx.seed, "c15")
    results = ctx.pmap(check_case, order, chunksize=16)
    results.sort(key=lambda r: r[0])          # report in canonical (simplest-first) order whatever the visiting order
    calls = tampered = 0
    outcomes = {}
    nontrivial = set()
    aligned = unaligned = 0
    for (idx, vs, c, t, outcome) in results:
        calls += c
        tampered += t
        outcomes[outcome] = outcomes.get(outcome, 0) + 1
        it = items[idx]
        n = it[4]
        if n % 16 == 0:
            aligned += 1
        else:
            unaligned += 1
        if n > 0 and outcome[1] not in ("-", "encrypt-raises") and t > 0:
            nontrivial.add(it[1:5])
        ctx.add_violations(vs)
    shape_calls = 0
    for kind, vs, c in ctx.pmap(check_key_shapes, list(rm.KINDS), chunksize=1):
        shape_calls += c
        ctx.add_violations(sorted(vs, key=lambda v: v[0]))
    calls += shape_calls
    ctx.coverage["key_shape_calls"] = shape_calls
    sitems = build_sequence_items(ctx.quick)
    sres = ctx.pmap(check_sequences, shuffled(sitems, ctx.seed, "c15seq"), chunksize=2)
    sres.sort(key=lambda r: r[0])
    seq_calls = nseq = seq_kindchange = seq_bad = 0
    for (idx, vs, c, ns, kc, nbad) in sres:
        seq_calls += c
        nseq += ns
        seq_kindchange += kc
        seq_bad += nbad
        ctx.add_violations(sorted(vs, key=lambda v: (len(v[2]["sequence"]), v[0])))
    ctx.violation_count += max(0, seq_bad - sum(len(r[1]) for r in sres))
    calls += seq_calls
    ctx.sample({"kind": "image", "key": 0, "pattern": "zeros", "length": 0, "tamper": "full"})
    ctx.sample({"sequence": [["enc", "image", 0, 16], ["wk:image", "audio", 0, 16], ["dec", "image", 0, 16]],
                "mode": "wrapper", "note": "one MediaCipher object, every step compared with the reference"})
    ctx.sample({"kind": items[-1][1], "key": items[-1][2], "pattern": items[-1][3], "length": items[-1][4],
                "tamper": items[-1][5]})
    ctx.sample({"outcome_vectors(class, roundtrip, vs_reference, reference_opens, library_opens_reference, tamper_accepted)":
                [list(k) + [v] for k, v in sorted(outcomes.items(), key=repr)]})
    ctx.coverage.update({
        "evaluations": calls + ka,
        "distinct_nontrivial": len(nontrivial) + seq_kindchange,
        "rule": "distinct (kind, key, pattern, length) base cases with length > 0 for which the real encrypt returned "
                "and round trip, byte comparison with the reference, both cross-decrypts and >= 1 tampered decrypt ran; "
                "plus distinct (mode, operation sequence) runs on one object in which two consecutive steps use the "
                "same key with different kinds",
        "sequences": nseq,
        "sequence_calls": seq_calls,
        "sequences_same_key_kind_change": seq_kindchange,
        "sequence_alphabet": "ops {enc, dec valid, dec wrong-kind x3 sources, dec tampered} x 4 kinds x keys #0,#3; "
                             "3 steps at each length of %s; 2 steps with the length varying per step%s; generic and wrapper calls"
                             % (list(SEQ_LENGTHS), "" if ctx.quick else "; 3 steps with the length varying per step over %s (generic)" % list(SEQ_LENGTHS_DEEP)),
        "exhaustive": True,
        "base_cases": len(items),
        "base_cases_block_aligned": aligned,
        "base_cases_unaligned": unaligned,
        "lengths_full_tamper": "0..%d" % FULL_TAMPER_MAX,
        "lengths_boundary_tamper": len(big),
        "base_cases_by_tamper_level": {lv: sum(1 for it in items if it[5] == lv) for lv in ("full", "full3", "boundary", "light")},
        "max_length": max(big),
        "tampered_decrypts": tampered,
        "kinds": list(rm.KINDS), "keys": len(KEYS), "patterns": list(PATTERNS),
        "distinct_outcomes": len(outcomes),
        "bound": "lengths 0..80 with every byte position x masks (255 masks when body <= 32 bytes%s, else 0x01/0x80/0xff) "
                 "and every truncation; lengths 16n-1,16n,16n+1 for %s with the boundary/light tamper sets"
                 % ("" if not ctx.quick else " for one key per length", "n in 6..64, powers of two up to 4096 and {100,255,257,1000,3000,4095}" if ctx.quick else "every n in 6..4096"),
    })
    ctx.assume("cryptography's AES-CBC and hashlib/hmac are correct (shared primitive layer of library and reference)")
    ctx.assume("the four info strings and the 16/32/32 split of the HKDF output are WhatsApp's; anchored by the "
               "WhatsApp-produced sample blob in the repo's test_mediacipher.py which the reference reproduces byte for byte")


def replay(ctx, case):
    if "known_answer" in case:
        known_answer(ctx)
        return []
    if "key_shape" in case:
        return check_key_shapes(case["kind"])[1]
    if "sequence" in case:
        vs = []
        run_sequence(case["mode"], tuple(tuple(st) for st in case["sequence"]), vs, {})
        return vs
    idx, vs, c, t, outcome = check_case((0, case["kind"], case["key"], case["pattern"], case["length"],
                                         case.get("tamper", "full" if case["length"] <= FULL_TAMPER_MAX else "boundary")))
    return vs
