"""C02 Wire-format conformance against an independent implementation of the format.

Three parts (DESIGN 3/C02):

 1. dictionary: the library's TokenDictionary is compared entry by entry, in both directions
    (getToken / getIndex / legacy getToken(237+i)), with the frozen reference table vf/ref/tokens.json.
 2. library -> reference: for every tree of C01's grammar the bytes produced by the real WriteEncoder
    must be a valid frame for the reference decoder (vf/ref/codec.py) and decode to the same tree.
 3. reference -> library: the reference encoder is a nondeterministic program (8/16-bit list header,
    8/20/31-bit length, literal instead of token, packed/raw, JID with/without user part, content as
    bytes / packed / token / JID string, deflated frame).  For every tree of a core grammar ALL choice
    vectors with at most k deviations from the canonical spelling are enumerated (k = 1 quick, 2 thorough)
    and the real ReadDecoder must return the tree (string valued content compared as its Latin-1 bytes).
    Every reference frame is also decoded by the reference decoder first (self-consistency of the
    trusted base; a failure there is a harness error, not a verdict).
"""
import json
import hashlib
import itertools

from vf import env
env.bootstrap()

from yowsup.layers.coder.encoder import WriteEncoder
from yowsup.layers.coder.decoder import ReadDecoder
from yowsup.layers.coder.tokendictionary import TokenDictionary

from vf.ref import codec as ref
from vf.runner import shuffled
from vf.props import c01_codec_roundtrip as c01
from vf.props.c01_codec_roundtrip import expand, well_formed, to_node, strict_diff, at, wrap, MIB, _short

PROPERTY = "C02"
LEVEL = "exploration"

K2_MAX_ALTERNATIVES = 400      # trees with more single deviations than this are enumerated to k=1 only (stated in evidence)


# =============================================================================================
# part 1: dictionary
# =============================================================================================

def check_dictionary():
    """-> (violations, comparisons)"""
    table = ref.load_tokens()
    vs, n = [], 0

    def bad(sig, what, case, detail):
        vs.append(("C02:dictionary:%s" % sig, what, dict(case, part="dictionary"), detail))

    td = TokenDictionary()
    n += 2
    if len(td.dictionary) != len(table.primary):
        bad("size-primary", "primary dictionary has %d entries, reference has %d" % (len(td.dictionary), len(table.primary)),
            {}, None)
    if len(td.secondaryDictionary) != len(table.secondary):
        bad("size-secondary", "secondary dictionary has %d entries, reference has %d" % (
            len(td.secondaryDictionary), len(table.secondary)), {}, None)
    if td.FLAG_DEFLATE != ref.FLAG_DEFLATE or td.FLAG_SEGMENTED != ref.FLAG_SEGMENTED:
        bad("flags", "flag constants differ from the format", {}, {"deflate": td.FLAG_DEFLATE, "segmented": td.FLAG_SEGMENTED})
    for i, want in enumerate(table.primary):
        n += 2
        try:
            got = td.getToken(i)
        except Exception as e:
            got = "raised %r" % e
        if got != want:
            bad("primary-entry", "getToken(%d) = %r, reference table has %r" % (i, got, want), {"index": i, "secondary": False},
                {"observed": got, "expected": want})
        if want != "":
            try:
                idx = td.getIndex(want)
            except Exception as e:
                idx = "raised %r" % e
            if idx != (i, False):
                bad("primary-index", "getIndex(%r) = %r, reference says (%d, False)" % (want, idx, i),
                    {"index": i, "secondary": False}, {"observed": idx, "expected": [i, False]})
    for i, want in enumerate(table.secondary):
        n += 3
        try:
            got = td.getToken(i, True)
        except Exception as e:
            got = "raised %r" % e
        if got != want:
            bad("secondary-entry", "getToken(%d, True) = %r, reference table has %r" % (i, got, want),
                {"index": i, "secondary": True}, {"observed": got, "expected": want})
        try:
            idx = td.getIndex(want)
        except Exception as e:
            idx = "raised %r" % e
        if idx != (i, True):
            bad("secondary-index", "getIndex(%r) = %r, reference says (%d, True)" % (want, idx, i),
                {"index": i, "secondary": True}, {"observed": idx, "expected": [i, True]})
        if 237 + i < 236 + len(table.secondary):     # the legacy single-argument addressing only reaches these
            try:
                got = td.getToken(237 + i)
            except Exception as e:
                got = "raised %r" % e
            if got != want:
                bad("legacy-entry", "getToken(%d) = %r, reference table has %r" % (237 + i, got, want),
                    {"index": i, "secondary": True, "legacy": True}, {"observed": got, "expected": want})
    # strings outside the table have no index (the encoder relies on it to fall back to literal spellings)
    for s in ("", "Iq", "iq ", "no-such-token", "12345678", "\xff"):
        if s == "":
            continue
        n += 1
        try:
            idx = td.getIndex(s)
        except Exception as e:
            idx = "raised %r" % e
        if idx is not None:
            bad("phantom-index", "getIndex(%r) = %r for a string that is not in the reference table" % (s, idx),
                {"string": s}, {"observed": idx, "expected": None})
    return vs, n


# =============================================================================================
# part 2: library bytes -> reference decoder
# =============================================================================================

_enc = []


def lib_encoder():
    if not _enc:
        _enc.append(WriteEncoder(TokenDictionary()))
        _enc.append(ReadDecoder(TokenDictionary()))
    return _enc[0]


def lib_decoder():
    lib_encoder()
    return _enc[1]


def plain_diff(got, want, path="/"):
    """difference between two plain trees (reference decoder output vs expected)"""
    if got[0] != want[0]:
        return "%s: tag %s != %s" % (path, _short(got[0]), _short(want[0]))
    path = "%s%s" % (path, _short(want[0], 20))
    if len(got[1]) != len(dict(got[1])):
        return "%s: duplicate attribute keys on the wire" % path
    if dict(got[1]) != dict(want[1]):
        return "%s: attributes differ (%d vs %d entries)" % (path, len(got[1]), len(want[1]))
    if got[2] != want[2]:
        return "%s: content differs: %s vs %s" % (path, _short(got[2]), _short(want[2]))
    if len(got[3]) != len(want[3]):
        return "%s: %d children, expected %d" % (path, len(got[3]), len(want[3]))
    for i, (g, w) in enumerate(zip(got[3], want[3])):
        if g is w:
            continue
        d = plain_diff(g, w, "%s[%d]/" % (path, i))
        if d:
            return d
    return None


def check_lib_to_ref(case):
    tree = expand(case["tree"])
    if not well_formed(tree):
        raise RuntimeError("grammar produced a tree outside the quantifier")
    cls = case["cls"]
    rcase = {"part": "lib-to-ref", "cls": cls, "tree": case["tree"]}
    forms = {}
    try:
        out = lib_encoder().protocolTreeNodeToBytes(to_node(tree))
        wire = bytes(out)
    except Exception as e:
        return [("C02:lib-to-ref:encode-raises-%s:%s" % (type(e).__name__, cls),
                 "library encoder raised on a %s tree: %r" % (cls, e), rcase, repr(e))], forms, "encode-raises"
    try:
        got = ref.decode(wire, forms=forms)
    except ref.FormatError as e:
        return [("C02:lib-to-ref:invalid-frame:%s" % cls,
                 "bytes emitted for a %s tree are not a valid frame for the reference decoder: %s" % (cls, e), rcase,
                 {"observed": str(e), "wire_len": len(wire), "wire_head": wire[:64]})], forms, "invalid-frame"
    d = plain_diff(got, tree)
    if d:
        return [("C02:lib-to-ref:different-tree:%s" % cls,
                 "reference decoder reads a different tree from the bytes emitted for a %s tree: %s" % (cls, d), rcase,
                 {"observed": d, "wire_len": len(wire), "wire_head": wire[:64]})], forms, "different-tree"
    return [], forms, "ok"


def check_pairs_lib_to_ref(item):
    """string b written after string a by ONE library encoder (same stanza / next stanza / after a stanza that failed to
    encode): the reference decoder must read the tree that was given."""
    ia, mode = item
    a = c01.PAIR_STRINGS[ia]
    vs = []
    n = 0
    for b in c01.PAIR_STRINGS:
        rcase = {"part": "pairs", "string_pair": [a, b], "mode": mode}
        enc = WriteEncoder(TokenDictionary())
        if mode == "same-stanza":
            trees = [("iq", (("x", a), ("y", b)), None, ())]
        elif mode == "next-stanza":
            trees = [("iq", (("x", a),), None, ()), ("iq", (("y", b),), None, ())]
        else:
            trees = [None, ("iq", (("y", b),), None, ())]
        for t in trees:
            n += 1
            if t is None:
                try:
                    enc.protocolTreeNodeToBytes(to_node(("iq", (("x", a),), None, ())).__class__("iq", {"x": a, "z": 5}))
                except Exception:
                    pass
                continue
            if not well_formed(t):
                continue
            try:
                wire = bytes(enc.protocolTreeNodeToBytes(to_node(t)))
            except Exception as e:
                break            # C01 reports encoder failures
            try:
                got = ref.decode(wire)
            except ref.FormatError as e:
                vs.append(("C02:pairs:invalid-frame", "%s: %r then %r: bytes are not a valid frame for the reference decoder: %s" % (mode, a, b, e), rcase, str(e)))
                break
            d = plain_diff(got, t)
            if d:
                vs.append(("C02:pairs:different-tree", "%s: %r then %r: reference decoder reads a different tree: %s" % (mode, a, b, d), rcase, d))
                break
        if vs:
            break
    return vs, n


def run_lib_to_ref_chunk(chunk):
    vs, n, forms_total, nontrivial, outcomes = [], 0, {}, [], set()
    for case in chunk:
        v, forms, outcome = check_lib_to_ref(case)
        vs.extend(v)
        n += 1
        for f in forms:
            forms_total[f] = forms_total.get(f, 0) + 1
        if any(f in forms for f in c01.NONTRIVIAL_FORMS):
            nontrivial.append(c01.case_key(case))
        outcomes.add(outcome)
    return vs, n, forms_total, nontrivial, sorted(outcomes)


# =============================================================================================
# part 3: reference encoder choice vectors -> library decoder
# =============================================================================================

def dev_label(kind, canonical, chosen):
    """e.g. value:token->raw, tag/user:nibble->hex, content:len8->len20, top:list8->list16, frame:plain->deflate"""
    return "%s:%s->%s" % (kind.split(":", 1)[0], canonical, chosen)


FAMILY_CLASSES = ("string-len31", "content-string-form", "content-len31-then-sibling")


def failure_class(taken, tree):
    """Stable name of the input class of a failing reference frame: the first construct (in stream order) that
    belongs to a family of spellings that fails as a whole, else the set of deviation kinds."""
    labels = []
    content_len31 = False
    for point, kind, canonical, chosen, alt in taken:
        if kind.endswith(":length") and chosen == "len31":
            if kind == "content:length":
                content_len31 = True
            else:
                return "string-len31"
        if kind == "content:form":
            return "content-string-form"
        labels.append(dev_label(kind, canonical, chosen))
    if _content_not_last(tree, MIB) or (content_len31 and _content_not_last(tree, 65536)):
        return "content-len31-then-sibling"
    return "+".join(sorted(set(labels))) or "canonical"


def _content_not_last(tree, limit, _last=True):
    """is there a node with content of >= limit bytes that is followed by further bytes in the frame?"""
    tag, attrs, content, kids = tree
    if content is not None and len(content) >= limit and not _last:
        return True
    for i, c in enumerate(kids):
        if _content_not_last(c, limit, _last and i == len(kids) - 1):
            return True
    return False


def lib_decode_outcome(frame, tree):
    try:
        got = lib_decoder().getProtocolTreeNode(bytearray(frame))
    except Exception as e:
        return "raises-%s" % type(e).__name__, "%s: %s" % (type(e).__name__, str(e)[:200])
    d = strict_diff(got, tree, lenient_content=True)
    if d:
        return "different-tree", d
    return "ok", None


def check_vectors(item):
    """All choice vectors with <= k deviations for one tree."""
    case, k = item
    tree = expand(case["tree"])
    if not well_formed(tree):
        raise RuntimeError("grammar produced a tree outside the quantifier")
    table = ref.load_tokens()
    npoints, nalts = ref.count_choice_points(tree, table)
    capped = False
    if k > 1 and nalts > K2_MAX_ALTERNATIVES:
        k, capped = 1, True
    vs = []
    vectors = deviating = 0
    devkinds = {}
    outcomes = set()
    frames = set()
    canonical_failed = False
    for frame, taken in ref.choice_vectors(tree, k, table):
        vectors += 1
        # trusted base first: the reference decoder must read its own encoder's frame back
        try:
            back = ref.decode(frame, table)
        except ref.FormatError as e:
            raise RuntimeError("reference codec inconsistent: %s on %s with %s" % (e, json.dumps(case)[:200], taken))
        if plain_diff(back, tree):
            raise RuntimeError("reference codec inconsistent: %s on %s with %s" % (plain_diff(back, tree), json.dumps(case)[:200], taken))
        if taken:
            deviating += 1
            frames.add(hashlib.sha1(frame).digest()[:8])
        for _, kind, canonical, chosen, alt in taken:
            l = dev_label(kind, canonical, chosen)
            devkinds[l] = devkinds.get(l, 0) + 1
        outcome, detail = lib_decode_outcome(frame, tree)
        outcomes.add(outcome)
        if outcome != "ok":
            cls = failure_class(taken, tree)
            if not taken:
                canonical_failed = True
            elif canonical_failed and cls not in FAMILY_CLASSES:
                cls = "canonical"        # the tree fails in its canonical spelling already: not about the deviation
            spelling = ", ".join(dev_label(kd, c, ch) for _, kd, c, ch, _a in taken) or "canonical"
            vs.append(("C02:ref-to-lib:%s" % cls,
                       "library decoder fails on a valid frame (%s; spelling: %s): %s" % (cls, spelling, detail),
                       {"part": "ref-to-lib", "tree": case["tree"],
                        "deviations": {str(p): a for p, _k, _c, _ch, a in taken}, "spelling": spelling},
                       {"observed": detail, "expected": "the encoded tree", "frame_len": len(frame), "frame_head": frame[:64]}))
    return vs, vectors, deviating, len(frames), devkinds, sorted(outcomes), capped, k


# =============================================================================================
# core grammar for part 3
# =============================================================================================

def core_cases(quick):
    table = ref.load_tokens()
    tokens = table.usable()
    tok2 = [t for t in tokens if ref.classify(t) == "token2"]
    cases = []
    seen = set()

    def add(tree, big=False):
        key = json.dumps(tree, sort_keys=True)
        if key not in seen:
            seen.add(key)
            cases.append({"cls": "core", "tree": tree, "big": big})

    strings = ["iq", tok2[0], tok2[256 + 7], tok2[512 + 86], tok2[768 + 255], "1", "0",
               ["nib", 1, 0], ["nib", 2, 0], ["nib", 3, 0], ["nib", 5, 1], ["nib", 127, 0], ["nib", 128, 0], ["nib", 253, 0],
               ["nib", 254, 1], ["nib", 255, 0],
               ["hex", 1, 0], ["hex", 2, 0], ["hex", 5, 1], ["hex", 127, 0], ["hex", 128, 0], ["hex", 253, 1], ["hex", 254, 0],
               ["hex", 255, 0],
               ["raw", 1, 0], ["raw", 2, 0], ["raw", 3, 1], ["raw", 255, 0], ["raw", 256, 0], ["raw", 257, 2], "x\x00y",
               "4915112345678@s.whatsapp.net", "4915112345678-1600000000@g.us", "status@broadcast", "alice@example.org",
               "a@b@c", ["jid", ["hex", 7, 0], tok2[3]], "1@2", ["jid", ["nib", 254, 0], "g.us"], ["jid", ["nib", 255, 0], "g.us"],
               "@abc", "a@@b",
               # every packed alphabet character in the last (odd and even) position
               "123.", "12.", "123-", "12-", "1.-", ".", "-", "..", "1F", "12F", "FF", "F", "AF9", "9E"]
    for ch in "0123456789":
        strings += ["77" + ch, "777" + ch]
    for ch in "0123456789ABCDEF":
        strings += ["EE" + ch, "EEE" + ch]
    contents = [["lit", b"1234567890".hex()], ["lit", b"result".hex()],
                ["lit", ""], ["lit", "00"], ["lit", "f8"], ["r", 40], ["r", 255], ["r", 256], ["r", 257], ["lit", b"123".hex()], ["lit", b"12-3.4".hex()], ["lit", b"ABCDEF".hex()],
                ["lit", b"ABC".hex()], ["lit", b"DEADBEEF1".hex()], ["lit", b"image".hex()],
                ["lit", tok2[40].encode().hex()], ["lit", b"1".hex()], ["lit", b"4915112345678@s.whatsapp.net".hex()],
                ["lit", b"status@broadcast".hex()], ["lit", b"a@b".hex()], ["lit", ("7" * 254).encode().hex()],
                ["lit", ("7" * 255).encode().hex()], ["lit", ("8" * 256).encode().hex()], ["lit", b"caf\xe9".hex()],
                ["lit", b"@x".hex()]]
    for c in contents:
        add({"t": "enc", "a": [["v", "2"]], "c": c})
        add(wrap({"t": "body", "c": c}, 3))
    for s in strings:
        for pos in c01.POS:
            add(at(pos, s))
    for s in strings[:7] + strings[31:36]:
        add(wrap(at("value", s), 3))

    for n in (65535, 65536, MIB - 1, MIB):
        add({"t": "media", "a": [["type", "image"]], "c": ["r", n]}, big=True)
        add({"t": "message", "k": [{"t": "media", "c": ["r", n]}, {"t": "after"}]}, big=True)

    for n in (0, 1, 2, 3, 127, 128):
        add({"t": "iq", "a": ["gen", n]}, big=n > 100)
        add({"t": "iq", "a": ["gen", n], "c": ["r", 3]}, big=n > 100)
        add({"t": "iq", "a": ["gen", n], "k": [{"t": "item"}]}, big=n > 100)
    for m in (1, 2, 3, 255, 256):
        add({"t": "list", "k": [{"rep": m, "node": {"t": "item"}}]}, big=m > 100)
        add({"t": "iq", "k": [{"t": "list", "k": [{"rep": m, "node": {"t": "item"}}]}, {"t": "after"}]}, big=m > 100)

    leaves = c01.LEAVES[:6]
    for L in (0, 1, 2):
        for seq in itertools.product(leaves, repeat=L):
            add(dict(c01.ROOTS[0], k=list(seq)))
    mids = [{"t": "group", "a": [["n", "%d" % i]], "k": list(seq)} for i, seq in enumerate(itertools.product(leaves[1:4], repeat=2))]
    for mid in mids:
        add({"t": "message", "k": [mid, {"t": "tail"}]})
        add({"t": "message", "k": [{"t": "zq"}, mid]})
    return cases


def token_cases():
    """every dictionary token once, in attribute value position (k=1: its literal and JID spellings)"""
    table = ref.load_tokens()
    return [{"cls": "token", "tree": at("value", t), "big": False} for t in table.usable()]


# =============================================================================================
# run / replay
# =============================================================================================

def run_vectors_chunk(chunk):
    out = []
    for item in chunk:
        out.append(check_vectors(item))
    return out


def run(ctx):
    quick = ctx.quick
    k = 1 if quick else 2

    # ---- part 1 --------------------------------------------------------------------------------
    vs, dict_cmp = check_dictionary()
    ctx.add_violations(vs)

    # ---- part 2 --------------------------------------------------------------------------------
    cases = c01.gen_cases(quick)
    big = [c for c in cases if c["big"]]
    small = [c for c in cases if not c["big"]]
    work = [[c] for c in shuffled(big, ctx.seed, "c02-big")] + c01.chunks(shuffled(small, ctx.seed, "c02-small"), 200)
    l2r = 0
    forms_total = {}
    nontrivial = set()
    l2r_outcomes = set()
    late = []
    for i, (v, n, forms, nt, oc) in enumerate(ctx.pimap(run_lib_to_ref_chunk, work)):
        if i < len(big):
            late.extend(v)           # heavy cases are scheduled first but reported last (smallest counterexample first)
        else:
            ctx.add_violations(v)
        l2r += n
        for f, c in forms.items():
            forms_total[f] = forms_total.get(f, 0) + c
        nontrivial.update(nt)
        l2r_outcomes.update(oc)
    ctx.add_violations(late)
    for v, n in ctx.pimap(check_pairs_lib_to_ref, c01.pair_items(), 4):
        l2r += n
        ctx.add_violations(v)
    ctx.sample({"part": "lib-to-ref", "tree": small[0]["tree"]})

    # ---- part 3 --------------------------------------------------------------------------------
    core = core_cases(quick)
    extra = token_cases()
    if not quick:
        # thorough: additionally every small depth-1 tree of C01's quick grammar at k=1
        seen = set(json.dumps(c["tree"], sort_keys=True) for c in core + extra)
        for c in c01.gen_cases(True):
            key = json.dumps(c["tree"], sort_keys=True)
            if not c["big"] and key not in seen and c["cls"] not in ("shape:children", "shape:attrs"):
                seen.add(key)
                extra.append(c)
    items = [(c, k) for c in core] + [(c, k if c["cls"] == "token" else 1) for c in extra]
    bigi = [i for i in items if i[0]["big"]]
    smalli = [i for i in items if not i[0]["big"]]
    work = [[i] for i in shuffled(bigi, ctx.seed, "c02v-big")] + c01.chunks(shuffled(smalli, ctx.seed, "c02v"), 8 if not quick else 16)
    vectors = deviating = frames = 0
    devkinds = {}
    r2l_outcomes = set()
    capped_trees = 0
    late = []
    for i, res in enumerate(ctx.pimap(run_vectors_chunk, work)):
        for v, nv, nd, nf, dk, oc, capped, kk in res:
            if i < len(bigi):
                late.extend(v)
            else:
                ctx.add_violations(v)
            vectors += nv
            deviating += nd
            frames += nf
            for l, c in dk.items():
                devkinds[l] = devkinds.get(l, 0) + c
            r2l_outcomes.update(oc)
            capped_trees += 1 if capped else 0
    ctx.add_violations(late)
    ctx.sample({"part": "ref-to-lib", "tree": core[0]["tree"], "k": k,
                "choice_points": ref.count_choice_points(expand(core[0]["tree"]))})
    ctx.sample({"part": "ref-to-lib", "tree": core[len(core) // 2]["tree"], "k": k,
                "choice_points": ref.count_choice_points(expand(core[len(core) // 2]["tree"]))})

    ctx.coverage.update({
        "evaluations": dict_cmp + l2r + vectors,
        "distinct_nontrivial": frames + len(nontrivial),
        "rule": "distinct reference frames with >= 1 deviation from the canonical spelling that were decoded by the library "
                "(distinct by sha1 within a tree; frames of different trees differ because the reference decoder reads each back "
                "to its tree) + distinct C01 trees whose library encoding uses a double-byte token, JID, packing, 20/31-bit "
                "length or 16-bit list header and was decoded by the reference decoder",
        "exhaustive": True,
        "dictionary_comparisons": dict_cmp,
        "lib_to_ref_trees": l2r,
        "lib_to_ref_trees_using_wire_form": forms_total,
        "ref_to_lib_core_trees": len(core),
        "ref_to_lib_extra_trees_k1": len(extra),
        "ref_to_lib_vectors": vectors,
        "ref_to_lib_vectors_with_deviation": deviating,
        "deviation_bound_k": k,
        "deviation_kinds": devkinds,
        "trees_limited_to_k1_by_size": capped_trees,
        "distinct_outcomes": len(l2r_outcomes) + len(r2l_outcomes),
        "outcome_kinds": {"lib_to_ref": sorted(l2r_outcomes), "ref_to_lib": sorted(r2l_outcomes)},
        "bound": "dictionary: all 236+1024 entries both directions; lib->ref: every C01 %s-tier tree; ref->lib: all choice vectors "
                 "with <=%d deviations for %d core trees (trees with more than %d single deviations: k=1), and with <=1 deviation "
                 "for %d further trees (the 1257 one-token trees among them with <=%d)" % (ctx.tier, k, len(core), K2_MAX_ALTERNATIVES, len(extra), k),
    })
    ctx.assume("the reference token table is a frozen snapshot of the pinned commit guarded by size/uniqueness/anchor/digest "
               "checks; an error already present in the table at the pinned commit cannot be detected")
    ctx.assume("the reference codec (vf/ref/codec.py) implements the format; every reference frame is read back by the "
               "reference decoder before it is given to the library")
    ctx.assume("permitted peer choices are those listed in the property statement; packed strings may be up to 254 characters "
               "(7-bit byte count), the pad nibble of an odd packed string is 15")


def replay(ctx, case):
    part = case.get("part")
    if part == "dictionary":
        return check_dictionary()[0]
    if part == "pairs":
        return check_pairs_lib_to_ref((c01.PAIR_STRINGS.index(case["string_pair"][0]), case["mode"]))[0]
    if part == "lib-to-ref":
        return check_lib_to_ref({"cls": case["cls"], "tree": case["tree"]})[0]
    tree = expand(case["tree"])
    table = ref.load_tokens()
    ch = ref.Scripted({int(p): a for p, a in case["deviations"].items()})
    frame = ref.encode(tree, ch, table)
    outcome, detail = lib_decode_outcome(frame, tree)
    if outcome == "ok":
        return []
    cls = failure_class(ch.taken, tree)
    return [("C02:ref-to-lib:%s" % cls, "library decoder fails on a valid frame (%s): %s" % (cls, detail), case,
             {"observed": detail, "frame_len": len(frame), "frame_head": frame[:64]})]
