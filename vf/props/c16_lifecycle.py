"""C16 Connection lifecycle: login, failure, stream error, keep-alive and reconnect.

Explicit-state BFS over connection-event histories on the REAL default stack
    network(dispatcher double) / segments / noise / coder / logger / axolotl control+send+receive /
    all protocol layers / an application subclass of YowInterfaceLayer
with the library's own handshake worker and keep-alive threads under the controlled scheduler (E3, default
schedule: every event is applied and run to quiescence; interleavings are C04/C11's subject).  The application's
main thread behaves like the demos: `connect` (which blocks while the connection is up, as both real dispatchers'
connect() do, delivering everything the server sent from inside it) followed by the stack's loop turn that runs
deferred events.  A state is the event history; build(hist) replays it on fresh real objects; the lifecycle
monitor (reference automaton) is evaluated on the observation log of every state.
"""
import os
import shutil
import tempfile
import queue as _queue

from vf import env
env.bootstrap()

from vf.harness import noise as H
from vf.explore import sched as S
from vf.explore.bfs import bfs
from vf.doubles.noise_server import NoiseResponder
from vf.runner import shuffled

import yowsup.common.tools as T
import yowsup.axolotl.manager as M
import yowsup.layers.network.layer as NetL
from yowsup.layers import YowLayerEvent, YowParallelLayer
from yowsup.layers.network.layer import YowNetworkLayer
from yowsup.layers.auth.layer_authentication import YowAuthenticationProtocolLayer
from yowsup.layers.interface.interface import YowInterfaceLayer
from yowsup.layers.protocol_iq.layer import YowIqProtocolLayer
from yowsup.layers.noise.layer import YowNoiseLayer
from yowsup.layers.logger.layer import YowLoggerLayer
from yowsup.stacks.yowstack import YowStack, YowStackBuilder
from yowsup.structs.protocoltreenode import ProtocolTreeNode
from yowsup.config.v1.config import Config
from yowsup.axolotl.store.sqlite.liteaxolotlstore import LiteAxolotlStore
from consonance.structs.publickey import PublicKey as CPublicKey

PROPERTY = "C16"
LEVEL = "model_checking"

PHONE = "4915100000001"
_TEMPLATE = {}


def _store_template():
    """A key store whose one-time prekeys are all uploaded already, so that a login is a plain login."""
    if "db" not in _TEMPLATE:
        d = tempfile.mkdtemp(prefix="c16tpl-", dir=env.scratch_root())
        import atexit
        atexit.register(lambda: shutil.rmtree(d, ignore_errors=True))
        path = os.path.join(d, "axolotl.db")
        M.AxolotlManager.COUNT_GEN_PREKEYS = 12
        st = LiteAxolotlStore(path)
        mgr = M.AxolotlManager(st, PHONE)
        keys = mgr.level_prekeys(force=True)
        mgr.set_prekeys_as_sent(keys)
        mgr.generate_signed_prekey()
        st.identityKeyStore.dbConn.commit()
        st.identityKeyStore.dbConn.close()
        _TEMPLATE["db"] = path
    return _TEMPLATE["db"]


class App(YowInterfaceLayer):
    """The application: records what it is given."""

    def __init__(self):
        YowInterfaceLayer.__init__(self)
        self.log = []

    def receive(self, entity):
        self.log.append(("entity", entity.getTag(), type(entity).__name__))
        YowInterfaceLayer.receive(self, entity)

    def onEvent(self, ev):
        self.log.append(("event", ev.getName().rsplit(".", 1)[-1]))
        return YowInterfaceLayer.onEvent(self, ev)


class BlockingDispatcher(H.DispatcherDouble):
    """connect() does not return while the connection is up (asyncore.loop / the socket read loop run inside the
    real dispatchers' connect); everything the server sent is handed to the stack from inside it."""

    def connect(self, host):
        w = self.world
        self.connectionCallbacks.onConnecting()
        w.on_connect(self, host)
        w.obs.append(("tcp-connect", self.index))
        w.connects_this_event += 1
        if w.connects_this_event > 6:
            # a client that answers every refused connect with another connect would never come to rest
            w.obs.append(("reconnect-storm", self.index))
            self.closed = True
            return
        if w.connect_mode == "refused" or w.net_down:
            w.obs.append(("tcp-refused", self.index))
            self.closed = True
            self.connectionCallbacks.onConnectionError(IOError("connection refused"))
            return
        self._connected = True
        self.connectionCallbacks.onConnected()
        sc = w.sc
        i = self.index
        while self._connected:
            sc.wait_until(lambda: (not self._connected) or len(w.server_out[i]) > 0 or w.peer_close.get(i), "socket")
            if not self._connected:
                break
            if len(w.server_out[i]) > 0:
                try:
                    w.deliver(i, len(w.server_out[i]))
                except S.SchedAbort:
                    raise
                except Exception as e:
                    # asyncore: handle_error -> handle_close
                    w.obs.append(("handler-exception", type(e).__name__, str(e)[:120]))
                    if self._connected:
                        self.handle_close()
                continue
            if w.peer_close.get(i):
                self.handle_close()

    def sendData(self, data):
        if self._connected:
            self.world.on_client_bytes(self, bytes(data))
        else:
            self.world.obs.append(("write-while-down", self.index, len(data)))

    def handle_close(self):
        if self._connected:
            self.world.obs.append(("tcp-closed", self.index))
        H.DispatcherDouble.handle_close(self)

    def disconnect(self):
        self.world.obs.append(("disconnect-called", self.index))
        self.handle_close()


class LWorld(H.World):
    """H.World with the full default stack and the blocking dispatcher."""

    def __init__(self, reconnect=True, variant="IK"):
        H.install_controlled_primitives()
        env.fix_clock()
        env.reset_ids()
        env.shim_consonance(0)
        self.variant = variant
        self.corrupt = False
        self.burst = 0
        self.with_success = False
        self.dispatchers = []
        self.responders = []
        self.server_out = []
        self.client_bytes = []
        self.dropped_writes = []
        self.sent_by_server = []
        self.events = []
        self.obs = []
        self.peer_close = {}
        self.connect_mode = "ok"
        self.net_down = False
        self.connects_this_event = 0
        self.cmd_connect = False
        self.stop = False
        from yowsup.layers.coder.encoder import WriteEncoder
        from yowsup.layers.coder.decoder import ReadDecoder
        from yowsup.layers.coder.tokendictionary import TokenDictionary
        self.writer = WriteEncoder(TokenDictionary())
        self.reader = ReadDecoder(TokenDictionary())
        self.edge_info = None
        self.root = tempfile.mkdtemp(prefix="c16-", dir=env.scratch_root())
        os.makedirs(os.path.join(self.root, PHONE))
        shutil.copy(_store_template(), os.path.join(self.root, PHONE, "axolotl.db"))
        root = self.root
        T.user_config_dir = lambda name=None, *a, **k: root
        cfg = Config(phone=PHONE, cc="49", pushname="vf", mcc="262", mnc="07", fdid="fd-1",
                     client_static_keypair=H._ckeypair(H.CLIENT_STATIC),
                     server_static_public=CPublicKey(bytes(H.SERVER_STATIC.public.data)))
        self.config = cfg
        from yowsup.profile.profile import YowProfile
        self.profile = YowProfile(PHONE, cfg)
        self.profile.writes = []
        self.profile.write_config = lambda c: self.profile.writes.append(1)
        BlockingDispatcher.world = self
        H.DispatcherDouble.world = self
        NetL.AsyncoreConnectionDispatcher = BlockingDispatcher
        NetL.SocketConnectionDispatcher = BlockingDispatcher
        self.queue = _queue.Queue()
        stack_cls = type("LStack", (YowStack,), {"_YowStack__detachedQueue": self.queue})
        props = {"profile": self.profile, YowIqProtocolLayer.PROP_PING_INTERVAL: 1,
                 YowInterfaceLayer.PROP_RECONNECT_ON_STREAM_ERR: reconnect}
        if reconnect is None:
            del props[YowInterfaceLayer.PROP_RECONNECT_ON_STREAM_ERR]      # library default
        layers = YowStackBuilder.getDefaultLayers() + (App,)
        self.stack = stack_cls(layers, reversed=False, props=props)
        self.stack.setProp(YowNetworkLayer.PROP_ENDPOINT, ("e1.whatsapp.net", 443))
        self.net = self.stack.getLayer(0)
        self.seg = self.stack.getLayer(1)
        self.noise = self.stack.getLayer(2)
        self.app = self.stack.getLayer(len(layers) - 1)
        self.iq = None
        for idx in range(len(layers)):
            lay = self.stack.getLayer(idx)
            if isinstance(lay, YowParallelLayer):
                for sl in lay.sublayers:
                    if isinstance(sl, YowIqProtocolLayer):
                        self.iq = sl
        # observe events that travel downward (auth, authed, disconnect) at the logger layer, a pass-through
        logger_layer = self.stack.getLayer(4)
        assert isinstance(logger_layer, YowLoggerLayer)
        orig = logger_layer.onEvent

        def on_event(ev):
            self.obs.append(("down-event", ev.getName().rsplit(".", 1)[-1]))
            return orig(ev)
        logger_layer.onEvent = on_event

    def on_client_bytes(self, disp, data):
        i = disp.index
        self.client_bytes[i].extend(data)
        r = self.responders[i]
        was = r.phase
        for fr in r.feed(data):
            self.server_out[i].extend(fr)
        if was != "transport" and r.phase == "transport":
            self.obs.append(("login-presented", i))

    def close(self):
        shutil.rmtree(self.root, ignore_errors=True)


EVENTS = [("connect", "ok"), ("connect", "refused"), ("success",), ("failure",), ("stream_error", "conflict"),
          ("stream_error", "ack"), ("stream_error", "xml-not-well-formed"), ("peer_close",), ("disconnect_req",),
          ("tick",), ("pong",), ("send",), ("late_socket_error",), ("disconnect_then_send",),
          ("disconnect_then_connect",), ("net_down",), ("net_up",)]


class St(object):
    pass


def build(hist, reconnect=True):
    w = LWorld(reconnect=reconnect)
    sc = S.Scheduler((0, {}))
    w.sc = sc
    s = St()
    s.w, s.sc = w, sc
    s.error = None
    s.model = {"pings_out": [], "authed": False}
    s.applied = []

    def main():
        while True:
            sc.wait_until(lambda: w.cmd_connect or w.stop or not w.queue.empty(), "idle")
            if w.stop:
                return
            if w.cmd_connect:
                w.cmd_connect = False
                w.obs.append(("app-connect",))
                w.stack.broadcastEvent(YowLayerEvent(YowNetworkLayer.EVENT_STATE_CONNECT))
            # one turn of stack.loop(): run deferred callbacks (a reconnect from one of them blocks in here)
            while True:
                try:
                    cb = w.queue.get(False)
                except _queue.Empty:
                    break
                cb()
    try:
        sc.run_phase([("main", main)], timeout=600)
        for ev in hist:
            apply_event(s, ev)
            s.applied.append(ev)
            w.obs.append(("--", tuple(ev)))
    except (S.HarnessStuck, S.ReplayDivergence) as e:
        s.error = e
    return s


def current(w):
    return len(w.dispatchers) - 1


def is_up(w):
    return bool(w.dispatchers) and w.dispatchers[-1]._connected


def apply_event(s, ev):
    w, sc = s.w, s.sc
    kind = ev[0]
    i = current(w)
    w.connects_this_event = 0

    def server_stanza(node):
        w.server_send(i, node)

    if kind == "connect":
        w.connect_mode = ev[1]
        w.cmd_connect = True
        sc.run_phase([], timeout=600)
    elif kind == "success":
        server_stanza(H.SUCCESS)
        sc.run_phase([], timeout=600)
    elif kind == "failure":
        server_stanza(ProtocolTreeNode("failure", {"reason": "401"}))
        sc.run_phase([], timeout=600)
    elif kind == "stream_error":
        children = [ProtocolTreeNode(ev[1])]
        if ev[1] == "conflict":
            children.append(ProtocolTreeNode("text", data=b"Replaced by new connection"))
        server_stanza(ProtocolTreeNode("stream:error", {}, children))
        sc.run_phase([], timeout=600)
    elif kind == "peer_close":
        w.peer_close[i] = True
        sc.run_phase([], timeout=600)
    elif kind == "disconnect_req":
        sc.run_phase([("appthread", lambda: w.app.disconnect())], timeout=600)
    elif kind == "tick":
        sc.tick(1)
        sc.run_phase([], timeout=600)
    elif kind == "pong":
        ids = outstanding_pings(w, i)
        if ids:
            server_stanza(ProtocolTreeNode("iq", {"type": "result", "id": ids[0], "from": "s.whatsapp.net"}))
        sc.run_phase([], timeout=600)
    elif kind == "net_down":
        w.net_down = True        # from now on connection attempts fail (established connections are not affected)
    elif kind == "net_up":
        w.net_down = False
    elif kind == "late_socket_error":
        # a second error report of a dispatcher whose connection is already down (e.g. the reader and a writer
        # of the socket dispatcher both hit the closed socket)
        d = w.dispatchers[i]
        sc.run_phase([("iothread", lambda: d.connectionCallbacks.onConnectionError(IOError("socket closed")))], timeout=600)
    elif kind == "disconnect_then_send":
        def dts():
            w.app.disconnect()
            try:
                w.app.toLower(H.NodeEntity(H.out_stanza(1, "y")))
                w.obs.append(("app-send", "ok"))
            except Exception as e:
                w.obs.append(("app-send", "raised", type(e).__name__))
        sc.run_phase([("appthread", dts)], timeout=600)
    elif kind == "disconnect_then_connect":
        # the application (from its own thread) drops the connection and asks for a new one right away
        def dtc():
            w.app.disconnect()
            w.connect_mode = "ok"
            w.obs.append(("app-connect",))
            w.app.connect()
        sc.run_phase([("appthread", dtc)], timeout=600)
    elif kind == "send":
        def snd():
            try:
                w.app.toLower(H.NodeEntity(H.out_stanza(len(w.obs) % 4, "x")))
                w.obs.append(("app-send", "ok"))
            except Exception as e:
                w.obs.append(("app-send", "raised", type(e).__name__))
        sc.run_phase([("appthread", snd)], timeout=600)


def client_stanzas(w, i):
    out = []
    if i < 0 or i >= len(w.responders):
        return out
    for fr in w.responders[i].received:
        try:
            out.append(w.reader.getProtocolTreeNode(bytearray(fr)))
        except Exception:
            out.append(None)
    return out


def outstanding_pings(w, i):
    """ids of pings the client sent on connection i that the server has not answered"""
    sent = [n["id"] for n in client_stanzas(w, i) if n is not None and n.tag == "iq" and n["xmlns"] == "w:p"]
    answered = [n["id"] for n in w.sent_by_server[i] if n.tag == "iq" and n["type"] == "result"] if i < len(w.sent_by_server) else []
    return [x for x in sent if x not in answered]


def ping_thread_alive(s):
    return any(t.name == "YowPingThread" and not t.done for t in s.sc.threads)


def enabled(s, hist):
    w = s.w
    up = is_up(w)
    i = current(w)
    r = w.responders[i] if i >= 0 else None
    transport = up and r is not None and r.phase == "transport"
    out = []
    for ev in EVENTS:
        k = ev[0]
        if k == "connect" and up:
            continue
        if k in ("success", "failure", "stream_error", "pong") and not transport:
            continue
        if k == "success" and any(n.tag == "success" for n in w.sent_by_server[i]):
            continue
        if k == "pong" and not outstanding_pings(w, i):
            continue
        if k in ("peer_close", "disconnect_req", "disconnect_then_send", "disconnect_then_connect") and not up:
            continue
        if k == "late_socket_error" and (up or i < 0):
            continue
        if k == "net_down" and (w.net_down or not up):
            continue
        if k == "net_up" and not w.net_down:
            continue
        if k == "tick" and not (up and ping_thread_alive(s)):
            continue
        out.append(ev)
    return out


def _layer_state(w):
    """every plain-data attribute of the transport layers (network, segments, noise), whatever its name: histories are
    merged only if these layers hold no state that tells them apart (a cached flag, a remembered length, ...)"""
    from vf.explore.bfs import simple_state
    out = []
    for lay in (w.net, getattr(w, "seg", None), w.noise):
        if lay is not None:
            out.append(simple_state(lay, skip=("_disconnect_reason",)))
    return tuple(out)


def canon(s):
    w = s.w
    i = current(w)
    r = w.responders[i] if i >= 0 else None
    return (w.net.state, w.net.connected, w.noise._wa_noiseprotocol.state, w.app.reconnect, len(w.iq._pingQueue),
            ping_thread_alive(s), w.queue.qsize(), is_up(w), r.phase if r is not None else None,
            len(outstanding_pings(w, i)) if i >= 0 else 0,
            bool(i >= 0 and any(n.tag == "success" for n in w.sent_by_server[i])),
            tuple(sorted((t.name, t.wait_desc) for t in s.sc.blocked())), s.error is not None, w.net_down,
            _layer_state(w))


def check(s, hist, reconnect=True):
    """The lifecycle monitor: replays the observation log against the reference automaton."""
    w = s.w
    v = []
    case = {"history": [list(e) for e in hist], "reconnect": reconnect}

    # histories in which the application reconnects from its own thread while the deferred 'disconnected' event of
    # the old connection is still queued share one root cause (recorded finding): tag their signatures
    tag = ":app-thread-reconnect" if any(e[0] == "disconnect_then_connect" for e in hist) else ""

    def bad(sig, what, detail=None):
        v.append(("C16:" + sig + tag, what, case, detail))
    if s.error is not None:
        bad("stuck:%s" % type(s.error).__name__, "execution did not reach quiescence: %s" % s.error)
        return v
    for t in s.sc.threads:
        if t.exc is not None:
            bad("thread-exception:%s:%s" % (t.name, type(t.exc).__name__), "exception escaped thread %s: %r" % (t.name, t.exc), getattr(t, "exc_tb", "")[-600:])
    # split the observation log per applied event
    segs = [[]]
    for o in w.obs:
        if o[0] == "--":
            segs.append([])
        else:
            segs[-1].append(o)
    app = w.app.log
    # ---- M4: connected / disconnected announcements at the application alternate
    state = "down"
    for e in app:
        if e[0] != "event":
            continue
        if e[1] == "connected":
            if state == "up":
                bad("connected-twice", "the application was told 'connected' twice without a 'disconnected' in between")
            state = "up"
        elif e[1] == "disconnected":
            if state == "down":
                # allowed only for an attempt that never came up (connect error)
                if not any(o[0] == "tcp-refused" for o in w.obs):
                    bad("disconnected-without-connected", "the application was told 'disconnected' for a connection never announced as up")
            state = "down"
    ups = sum(1 for o in w.obs if o[0] == "tcp-connect") - sum(1 for o in w.obs if o[0] == "tcp-refused")
    announced_up = sum(1 for e in app if e == ("event", "connected"))
    announced_down = sum(1 for e in app if e == ("event", "disconnected"))
    closed = sum(1 for o in w.obs if o[0] == "tcp-closed")
    if announced_up != ups:
        bad("connected-announcements", "%d connections came up but the application saw %d 'connected' events" % (ups, announced_up))
    refused = sum(1 for o in w.obs if o[0] == "tcp-refused")
    if not (closed <= announced_down <= closed + refused):
        bad("disconnected-announcements", "%d established connections went down but the application saw %d 'disconnected' events" % (closed, announced_down),
            {"app": app[-12:]})
    if is_up(w) != (state == "up"):
        bad("announced-state-differs", "application believes the connection is %s, it is %s" % (state, "up" if is_up(w) else "down"))
    # ---- M1: one login attempt per connection that came up
    auths = sum(1 for o in w.obs if o == ("down-event", "auth"))
    if auths != ups:
        bad("auth-count", "%d connections came up, %d login attempts were triggered" % (ups, auths))
    for i, r in enumerate(w.responders):
        if r.errors:
            bad("login-garbled", "server could not process the client's byte stream on connection %d: %s" % (i, r.errors[0]))
    # every connection that stayed up long enough presented exactly one login
    for i, d in enumerate(w.dispatchers):
        r = w.responders[i]
        if d._connected and r.phase != "transport" and not r.errors and not (w.connect_mode == "refused"):
            bad("login-missing", "connection %d is up but the client never completed its login handshake (server side phase %s)" % (i, r.phase))
    # ---- M2: success -> authed exactly once
    n_success = sum(1 for sb in w.sent_by_server for n in sb if n.tag == "success")
    authed = sum(1 for o in w.obs if o == ("down-event", "authed"))
    ent_success = sum(1 for e in app if e[0] == "entity" and e[1] == "success")
    delivered_success = n_success
    if authed != delivered_success or ent_success != delivered_success:
        # a success stanza still undelivered because the connection was cut first does not count
        pending = sum(1 for i2, b in enumerate(w.server_out) if len(b) > 0)
        if not pending:
            bad("authed-count", "%d success replies, %d 'authed' announcements, %d success entities at the application" % (n_success, authed, ent_success))
    # ---- M3: failure / stream error reach the application and close the connection
    for k, ev in enumerate(hist):
        seg = segs[k] if k < len(segs) else []
        if ev[0] in ("failure", "stream_error"):
            stag = "failure" if ev[0] == "failure" else "stream:error"
            if not any(o[0] == "disconnect-called" for o in seg):
                bad("%s-not-closed" % ev[0], "after <%s> the connection was not closed by the client" % stag, {"segment": seg})
    n_fail = sum(1 for e in hist if e[0] == "failure")
    n_serr = sum(1 for e in hist if e[0] == "stream_error")
    if sum(1 for e in app if e[0] == "entity" and e[1] == "failure") != n_fail:
        bad("failure-not-delivered", "login failure did not reach the application exactly once")
    if sum(1 for e in app if e[0] == "entity" and e[1] == "stream:error") != n_serr:
        bad("stream-error-not-delivered", "stream error did not reach the application exactly once")
    # ---- M5: nothing written to a connection that is down
    if any(o[0] == "write-while-down" for o in w.obs):
        bad("write-while-down", "bytes were written to a connection that is down", [o for o in w.obs if o[0] == "write-while-down"][:3])
    # ---- M6: transport state reset / fresh login per connection is covered by login-missing + login-garbled
    if not is_up(w) and w.queue.qsize() == 0 and w.noise._wa_noiseprotocol.state != "init":
        bad("noise-not-reset", "connection is down but the noise session is in state %s" % w.noise._wa_noiseprotocol.state)
    # ---- M7: automatic reconnect iff stream error other than conflict and option on
    for k, ev in enumerate(hist):
        if ev[0] != "stream_error":
            continue
        seg = segs[k] if k < len(segs) else []
        reconnected = any(o[0] == "tcp-connect" for o in seg)
        expect = (reconnect is not False) and ev[1] != "conflict"
        if reconnected != expect:
            bad("reconnect-%s" % ("missing" if expect else "unexpected"),
                "after stream error '%s' with reconnect option %s the client %s" % (ev[1], reconnect, "reconnected" if reconnected else "did not reconnect"),
                {"segment": seg})
    for k, ev in enumerate(hist):
        if ev[0] in ("failure", "peer_close", "disconnect_req", "disconnect_then_send", "late_socket_error") or (ev[0] == "connect" and ev[1] == "refused"):
            seg = segs[k] if k < len(segs) else []
            # a reconnect pending from an earlier stream error whose close had not completed does not exist: every event is run to quiescence
            if any(o[0] == "tcp-connect" for o in seg) and ev[0] != "connect":
                bad("reconnect-unexpected:%s" % ev[0], "the client reconnected by itself after %s" % ev[0], {"segment": seg})
    if any(o[0] == "reconnect-storm" for o in w.obs):
        bad("reconnect-storm", "the client kept reconnecting by itself after refused connection attempts")
    for k, ev in enumerate(hist):
        if ev[0] == "stream_error":
            seg = segs[k] if k < len(segs) else []
            n = sum(1 for o in seg if o[0] == "tcp-connect")
            if n > 1:
                bad("reconnect-repeated", "one stream error led to %d automatic connection attempts" % n, {"segment": seg})
    # ---- M8: keep-alive
    model_out = 0
    authed_now = False
    for k, ev in enumerate(hist):
        seg = segs[k] if k < len(segs) else []
        if ev[0] == "success":
            authed_now = True
            model_out = 0
        if any(o[0] in ("tcp-closed",) for o in seg):
            if ev[0] != "tick":
                authed_now = False
                model_out = 0
        if ev[0] == "pong":
            model_out = 0
        if ev[0] == "tick" and authed_now:
            closed_here = any(o[0] == "disconnect-called" for o in seg)
            if model_out >= 1:
                if not closed_here:
                    bad("keepalive-no-timeout", "a ping was still unanswered when the next was due, the connection was not closed", {"segment": seg})
                authed_now = False
                model_out = 0
            else:
                if closed_here:
                    bad("keepalive-spurious-timeout", "the keep-alive closed the connection although every ping had been answered", {"segment": seg})
                model_out = 1
    return v


def explore(args):
    first, depth, reconnect = args
    built = []

    def b(hist):
        s = build(hist, reconnect)
        built.append(s)
        while len(built) > 3:
            old = built.pop(0)
            old.w.stop = True
            try:
                old.sc.shutdown()
            except Exception:
                pass
            old.w.close()
        return s
    res = bfs(b, enabled, canon, lambda s, h: check(s, h, reconnect), max_depth=depth, initial=[first])
    for s in built:
        s.w.stop = True
        try:
            s.sc.shutdown()
        except Exception:
            pass
        s.w.close()
    return res.states, res.transitions, res.max_depth, res.violations, res.sample_hists[:2]


def run(ctx):
    depth = 6 if ctx.quick else 9
    jobs = []
    for rc in (True, False, None):
        for first in (("connect", "ok"), ("connect", "refused")):
            jobs.append((first, depth if first[1] == "ok" else depth - 1, rc))
    jobs = shuffled(jobs, ctx.seed, "c16")
    states = transitions = 0
    maxd = 0
    for st, tr, md, viol, samples in ctx.pimap(explore, jobs):
        states += st
        transitions += tr
        maxd = max(maxd, md)
        ctx.add_violations(viol)
        for h in samples:
            ctx.sample({"history": h})
    ctx.sample({"history": [["connect", "ok"], ["success"], ["tick"], ["tick"]]})
    # conformance of the dispatcher double: the real network layer over the real asyncore dispatcher and a scripted
    # loopback peer must show the callback discipline the double implements (see vf/harness/netconf.py)
    from vf.harness import netconf
    conf_scripts = 0
    if netconf.loopback_available():
        scr = netconf.scripts(2 if ctx.quick else 3)
        conf_scripts = len(scr)
        for viol in ctx.pimap(netconf.run_one, [(sc_, "asyncore") for sc_ in scr]):
            ctx.add_violations(viol)
    else:
        ctx.assume("loopback sockets unavailable: dispatcher conformance scripts skipped")
    # interleaving part: an application thread disconnects while the loop thread keeps running (vf/props/c16_race.py)
    from vf.props import c16_race
    from vf.explore import dfs
    rbound = 1 if ctx.quick else 2
    rst, rphases = dfs.explore_phases(ctx, c16_race.MOD, "run_race", c16_race.phases_for(ctx.tier), chunksize=2)
    ctx.coverage.update({
        "race_executions": rst.executions,
        "race_preemption_bound": rbound,
        "race_phases": rphases,
        "race_distinct_outcomes": len(rst.observations),
    })
    ctx.coverage.update({
        "states": states,
        "transitions": transitions,
        "traces_validated_against_impl": transitions + len(jobs) + rst.executions,
        "max_depth": maxd + 1,
        "dispatcher_conformance_scripts": conf_scripts,
        "exhaustive": True,
        "bound": "all histories of <= %d events after the first connect over %d event kinds x reconnect option {on, off, default}" % (depth, len(EVENTS)),
        "explanation": "every transition rebuilds the real default stack and replays the history under the controlled scheduler "
                       "(handshake worker and keep-alive threads adopted, default schedule, each event run to quiescence)",
    })
    ctx.assume("dispatcher double follows the real dispatchers' discipline: connect() blocks while the connection is up, "
               "disconnect() reports onDisconnected synchronously; a handler exception closes the connection (asyncore handle_error)")
    ctx.assume("key store pre-provisioned with all one-time prekeys uploaded, so logins are plain (C14 covers the upload flow)")


def replay(ctx, case):
    if "burst" in case and "history" not in case:
        from vf.props import c16_race
        from vf.explore import dfs
        case = dict(case)
        pf = dfs.schedule_from_case(case)
        case.pop("schedule", None)
        return c16_race.run_race(case, pf)[1]
    if "dispatcher_script" in case:
        from vf.harness import netconf
        return netconf.run_one((tuple(case["dispatcher_script"]), case.get("dispatcher", "asyncore")))
    hist = [tuple(e) for e in case["history"]]
    s = build(hist, case.get("reconnect", True))
    try:
        return check(s, hist, case.get("reconnect", True))
    finally:
        s.w.stop = True
        try:
            s.sc.shutdown()
        except Exception:
            pass
        s.w.close()
