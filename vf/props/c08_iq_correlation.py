"""C08 Request/response correlation: each reply reaches its request's callback exactly once.

Engine: E2 explicit-state BFS (vf/explore/bfs.py).  A state is an event history; build(hist) constructs a fresh REAL
stack (vf/harness/iqstack.py: BottomProbe, the three encryption layers with a real AxolotlManager on a scratch sqlite
store, all protocol layers, and a YowInterfaceLayer subclass as the application) and replays the events on it.

Events
  ("req", kind)                 application request through the real YowInterfaceLayer._sendIq with fresh success /
                                error callbacks, or (library-internal kinds) the stimulus that makes a library layer
                                issue its own request:
                                  keys_send   text message to a contact without session   -> getKeysFor (send layer)
                                  keys_recv   <enc type=msg> from a sender without session -> getKeysFor (receive layer)
                                  keys_ctl    <notification type=encrypt><identity/>      -> getKeysFor (control layer)
                                  setkeys     <notification type=encrypt><count/>         -> flush_keys (control layer)
                                  groupinfo   text message to a group without sender key  -> group-info iq (send layer);
                                              its result makes the send layer fetch the participant's keys: a derived
                                              internal request of kind keys_group
  ("reply", i, "result"|"error"[, "retry"])
                                well-formed reply stanza (same id) for the i-th outstanding request; with "retry" the
                                application's error callback re-sends the ORIGINAL request object (same id) - the
                                re-entrant use of the registries
  ("dup", j)                    the already consumed reply of the j-th answered request (by issue rank) once more
  ("unknown", "result"|"error") reply with an id that was never issued
  ("noise", "ping"|"message"|"notification"|"ping-same-id")   non-reply stanzas; ping-same-id is a server ping
                                (iq type=get) that carries the id of our oldest outstanding request

Oracle (class Model, a dict reference model that never looks at the library's registries to decide what to expect):
after EVERY event the observed callbacks / application entities / stanzas at the bottom / continuations of the internal
requests are compared with the model, and every real iqRegistry is compared with the model's unanswered ids: an
outstanding application request must be in App.iqRegistry and may additionally be in the registry of the protocol
layer that transports it (and nowhere else); an internal request must be in the registry of the issuing encryption
layer; no registry may hold anything else; dup / unknown / noise events must leave every registry unchanged.
A reply consumed by the send layer is still forwarded upward by the receive layer: "nothing reaches the application
and no callback runs" is checked for it like for every unknown-id iq.

canon(state): per layer the sorted multiset of registry keys as (kind, issue rank) [unknown keys verbatim], per request
(kind, status, success callbacks, error callbacks), length of the application's ordinary-path log, sessions created,
pending-message / sent-queue lengths of the encryption layers.  Merged states have equal futures because (1) ids are
fresh counters, reset per build, and every handler of the stack branches on an id only through membership in a
registry and on the stanza type - never on the id's value; (2) the reply / stimulus stanzas of a request depend only
on (kind, rank, id), and the rank is in the tuple; (3) everything else the handlers read (sessions, sender keys,
queues) is per peer / per group, peers and groups are allotted per rank, and their presence is in the tuple.
"""
from vf import env
env.bootstrap()

from yowsup.structs import ProtocolTreeNode
from yowsup.layers.protocol_messages.protocolentities import TextMessageProtocolEntity
from yowsup.layers.axolotl.protocolentities import ResultGetKeysIqProtocolEntity
from yowsup.layers.protocol_messages.proto.e2e_pb2 import Message as PbMessage

from vf.explore.bfs import bfs
from vf.harness import iqstack as H
from vf.ref import shapes

PROPERTY = "C08"
LEVEL = "model_checking"

# ---------------------------------------------------------------------------------------------------------
# request kinds.  owner / registry columns are Appendix A of DESIGN.md (hand-written table, not read from the code)
#   kind: (outgoing shape, transporting protocol layer, layer keeps a registry entry today? [informational only],
#          result shape, error shape)
# ---------------------------------------------------------------------------------------------------------
APP_KINDS = {}
for _row in (
    ("ping",           "PingIq",                "YowIqProtocolLayer",         True,  "ResultIq",                    "ErrorIq"),
    ("lastseen",       "LastseenIq",            "YowPresenceProtocolLayer",   True,  "ResultLastseenIq",            "ErrorIq"),
    ("get_picture",    "GetPictureIq",          "YowProfilesProtocolLayer",   True,  "ResultGetPictureIq",          "ErrorIq"),
    ("set_picture",    "SetPictureIq",          "YowProfilesProtocolLayer",   True,  "ResultGetPictureIq",          "ErrorIq"),
    ("get_status",     "GetStatusesIq",         "YowProfilesProtocolLayer",   True,  "ResultStatusesIq",            "ErrorIq"),
    ("set_status",     "SetStatusIq",           "YowProfilesProtocolLayer",   True,  "ResultIq",                    "ErrorIq"),
    ("get_privacy",    "GetPrivacyIq",          "YowProfilesProtocolLayer",   True,  "ResultPrivacyIq",             "ErrorIq"),
    ("set_privacy",    "SetPrivacyIq",          "YowProfilesProtocolLayer",   True,  "ResultPrivacyIq",             "ErrorIq"),
    ("g_create",       "CreateGroupsIq",        "YowGroupsProtocolLayer",     True,  "SuccessCreateGroupsIq",       "ErrorIq"),
    ("g_info",         "InfoGroupsIq",          "YowGroupsProtocolLayer",     True,  "InfoGroupsResultIq",          "ErrorIq"),
    ("g_leave",        "LeaveGroupsIq",         "YowGroupsProtocolLayer",     True,  "SuccessLeaveGroupsIq",        "ErrorIq"),
    ("g_list",         "ListGroupsIq",          "YowGroupsProtocolLayer",     True,  "ListGroupsResultIq",          "ErrorIq"),
    ("g_subject",      "SubjectGroupsIq",       "YowGroupsProtocolLayer",     True,  "ResultIq",                    "ErrorIq"),
    ("g_participants", "ParticipantsGroupsIq",  "YowGroupsProtocolLayer",     True,  "ListParticipantsResultIq",    "ErrorIq"),
    ("g_add",          "AddParticipantsIq",     "YowGroupsProtocolLayer",     True,  "SuccessAddParticipantsIq",    "FailureAddParticipantsIq"),
    ("g_promote",      "PromoteParticipantsIq", "YowGroupsProtocolLayer",     True,  "ResultIq",                    "ErrorIq"),
    ("g_demote",       "DemoteParticipantsIq",  "YowGroupsProtocolLayer",     True,  "ResultIq",                    "ErrorIq"),
    ("g_remove",       "RemoveParticipantsIq",  "YowGroupsProtocolLayer",     True,  "SuccessRemoveParticipantsIq", "ErrorIq"),
    ("sync",           "GetSyncIq",             "YowContactsIqProtocolLayer", False, "ResultSyncIq",                "ErrorIq"),
    ("upload",         "RequestUploadIq",       "YowMediaProtocolLayer",      True,  "ResultRequestUploadIq",       "ErrorIq"),
):
    APP_KINDS[_row[0]] = _row[1:]

# library-internal kinds: registry that holds the request
INTERNAL = {
    "keys_send": "AxolotlSendLayer",
    "keys_recv": "AxolotlReceivelayer",
    "keys_ctl": "AxolotlControlLayer",
    "setkeys": "AxolotlControlLayer",
    "groupinfo": "AxolotlSendLayer",
    "keys_group": "AxolotlSendLayer",       # derived: issued by the library when the group-info result arrives
}
REQUESTABLE_INTERNAL = ["keys_send", "keys_ctl", "setkeys", "groupinfo", "keys_recv"]

# order chosen so that neighbours in a window are related (same layer / same xmlns / app + internal twin)
ENC_ORDER = ["ping", "sync", "keys_send", "lastseen", "g_info", "groupinfo", "g_list", "g_participants", "setkeys",
             "get_picture", "set_picture", "keys_ctl", "get_status", "set_status", "upload", "get_privacy",
             "set_privacy", "keys_recv", "g_create", "g_leave", "g_subject", "g_add", "g_promote", "g_demote",
             "g_remove"]
PLAIN_ORDER = [k for k in ENC_ORDER if k in APP_KINDS]
# every library-internal kind together with application kinds of each registry style (thorough tier)
MIX = ["keys_send", "keys_recv", "keys_ctl", "setkeys", "groupinfo", "g_info", "lastseen", "sync", "ping"]

UNKNOWN_ID = "77777"
MAX_OUTSTANDING = 3
INERT = ("dup", "unknown", "noise")


def peer_jid(rank):
    return "49170000%04d@s.whatsapp.net" % rank


def gpeer_jid(rank):
    return "49180000%04d@s.whatsapp.net" % rank


def group_jid(rank):
    return "%s-16000000%02d@g.us" % (H.OWN_PHONE, rank)


# ---------------------------------------------------------------------------------------------------------
# stanza builders (trusted base: the shape tables of C09 and, for key material, python-axolotl)
# ---------------------------------------------------------------------------------------------------------
def reply_node(kind, rank, rid, typ):
    """well-formed reply stanza of `typ` for request (kind, rank) with id rid; always a fresh object"""
    if typ == "error":
        shape = APP_KINDS[kind][4] if kind in APP_KINDS else "ErrorIq"
        node = shapes.build_case(shape, 0, rank % 3).node
    elif kind in APP_KINDS:
        node = shapes.build_case(APP_KINDS[kind][3], 0, rank % 3).node
    elif kind in ("keys_send", "keys_recv", "keys_ctl"):
        node = ResultGetKeysIqProtocolEntity(rid, {peer_jid(rank): H.peer_material()["bundle"]}).toProtocolTreeNode()
    elif kind == "keys_group":
        node = ResultGetKeysIqProtocolEntity(rid, {gpeer_jid(rank): H.peer_material()["bundle"]}).toProtocolTreeNode()
    elif kind == "setkeys":
        node = shapes.build_case("ResultIq", 0, rank % 3).node
    elif kind == "groupinfo":
        gj = group_jid(rank)
        node = ProtocolTreeNode("iq", {"type": "result", "from": gj}, [
            ProtocolTreeNode("group", {"subject": "grp", "creation": "1415389947", "creator": H.OWN_JID,
                                       "s_t": "1415389947", "id": gj.split("@")[0], "s_o": H.OWN_JID},
                             [ProtocolTreeNode("participant", {"jid": H.OWN_JID, "type": "admin"}),
                              ProtocolTreeNode("participant", {"jid": gpeer_jid(rank)})])])
    else:
        raise KeyError(kind)
    node.setAttribute("id", rid)
    return node


def text_proto(text):
    m = PbMessage()
    m.conversation = text
    return m.SerializeToString()


def noise_node(which, n, rid=None):
    if which == "ping-same-id":
        # ids are scoped by originator: a server-originated get may carry the id of one of OUR outstanding requests
        return ProtocolTreeNode("iq", {"type": "get", "xmlns": "urn:xmpp:ping", "id": rid, "from": "s.whatsapp.net"})
    if which == "ping":
        return ProtocolTreeNode("iq", {"type": "get", "xmlns": "urn:xmpp:ping", "id": "sp-%d" % n, "from": "s.whatsapp.net"})
    if which == "message":
        return ProtocolTreeNode("message", {"id": "nm-%d" % n, "from": "4915225256022@s.whatsapp.net", "t": "1415470561",
                                            "type": "text", "notify": "x"},
                                [ProtocolTreeNode("proto", {}, None, text_proto("noise %d" % n))])
    if which == "notification":
        return ProtocolTreeNode("notification", {"id": "nn-%d" % n, "from": "4915225256022@s.whatsapp.net",
                                                 "t": "1415470561", "type": "status", "notify": "x"},
                                [ProtocolTreeNode("set", {}, None, b"hello")])
    raise KeyError(which)


def unknown_node(typ):
    node = shapes.build_case("ResultIq" if typ == "result" else "ErrorIq", 0, 0).node
    node.setAttribute("id", UNKNOWN_ID)
    return node


def desc(node):
    """what the model compares of a stanza at the bottom"""
    if not isinstance(node, ProtocolTreeNode):
        return ("!" + type(node).__name__,)
    return (node.tag, node["type"], node["id"], node["to"], node["xmlns"], tuple(c.tag for c in node.getAllChildren()))


# ---------------------------------------------------------------------------------------------------------
# reference model
# ---------------------------------------------------------------------------------------------------------
class Req(object):
    __slots__ = ("rank", "kind", "rid", "status", "entity", "retry_of")

    def __init__(self, rank, kind, rid, entity=None, retry_of=None):
        self.rank, self.kind, self.rid, self.status, self.entity, self.retry_of = rank, kind, rid, "out", entity, retry_of

    @property
    def internal(self):
        return self.kind in INTERNAL


class Model(object):
    """id -> request bookkeeping written from the statement.  It learns a request's id from the request stanza that
    left the stack (the only place a server could learn it) and predicts, for every event, which callbacks /
    continuations must run and which ids are unanswered afterwards."""

    def __init__(self, encryption):
        self.encryption = encryption
        self.reqs = []
        self.answered = {}          # rank -> typ of the reply that was consumed
        self.noise_n = 0

    def outstanding(self):
        return [r for r in self.reqs if r.status == "out"]

    @property
    def consumed(self):
        """consumed replies as (rank, typ), by issue rank (NOT by consumption order: the order in which replies
        were consumed is not part of the canonical state, so events must not refer to it)"""
        return sorted(self.answered.items())

    def holders(self, r):
        """(registries that MUST hold the id of outstanding request r, registries that MAY hold it).  An application
        request must be in the application's registry and may be in the registry of the protocol layer that
        transports it (Appendix A says which layers keep one today; the statement does not care)."""
        if r.internal:
            return (INTERNAL[r.kind],), (INTERNAL[r.kind],)
        return ("App",), ("App", APP_KINDS[r.kind][1])

    def expected_registries(self):
        must, may = {}, {}
        for r in self.outstanding():
            a, b = self.holders(r)
            for h in a:
                must.setdefault(h, set()).add(r.rid)
            for h in b:
                may.setdefault(h, set()).add(r.rid)
        return must, may

    def enabled(self, kinds, budget):
        """events enabled in this state, simplest first"""
        out = []
        outst = self.outstanding()
        for i, r in enumerate(outst):
            out.append(("reply", i, "result"))
            out.append(("reply", i, "error"))
            if not r.internal and r.retry_of is None and len(outst) <= MAX_OUTSTANDING:
                out.append(("reply", i, "error", "retry"))
        if len(outst) < MAX_OUTSTANDING:
            for k in kinds:
                out.append(("req", k))
        live = set(r.rid for r in outst)
        for j, (rank, typ) in enumerate(self.consumed):
            if self.reqs[rank].rid not in live:
                out.append(("dup", j))
        out += [("unknown", "result"), ("unknown", "error"), ("noise", "ping"), ("noise", "message"),
                ("noise", "notification")]
        if outst:
            out.append(("noise", "ping-same-id"))
        return out


# ---------------------------------------------------------------------------------------------------------
# the world: real stack + model, one event at a time
# ---------------------------------------------------------------------------------------------------------
class World(object):
    def __init__(self, variant):
        self.variant = variant
        self.rig = H.Rig(variant == "enc")
        self.model = Model(variant == "enc")
        self.viol = []              # per event: list of violation tuples
        self.hist = []
        self.rig.app.on_retry = self._retry
        self._retry_rank = None
        self.obs_log = []

    # ---- executing one event on the real stack --------------------------------------------------------
    def _retry(self, orig):
        # runs INSIDE the application's error callback: same request object, same id, fresh callbacks
        self.rig.app.request(self._retry_rank, orig)

    def _marks(self):
        rig = self.rig
        return (len(rig.bottom.sent), len(rig.app.cb), len(rig.app.ordinary), len(rig.loglayer.errors),
                len(rig.sessions_created), rig.counts["set_prekeys_as_sent"])

    def _stimulus(self, kind, rank):
        """perform the request / the stimulus of an internal request on the real stack"""
        rig = self.rig
        if kind in APP_KINDS:
            case = shapes.build_case(APP_KINDS[kind][0], 0, rank % 3)
            if case.entity is None:
                raise case.error
            rig.app.request(rank, case.entity)
            return case.entity
        if kind == "keys_send":
            rig.app.send(TextMessageProtocolEntity("hello %d" % rank, to=peer_jid(rank)))
        elif kind == "groupinfo":
            rig.app.send(TextMessageProtocolEntity("hello group %d" % rank, to=group_jid(rank)))
        elif kind == "keys_ctl":
            rig.stack.receive(ProtocolTreeNode("notification", {"id": "ni-%d" % rank, "from": peer_jid(rank),
                                                                "t": "1419824928", "type": "encrypt"},
                                               [ProtocolTreeNode("identity")]))
        elif kind == "setkeys":
            rig.stack.receive(ProtocolTreeNode("notification", {"id": "nc-%d" % rank, "from": "s.whatsapp.net",
                                                                "t": "1419824928", "type": "encrypt"},
                                               [ProtocolTreeNode("count", {"value": "9"})]))
        elif kind == "keys_recv":
            rig.stack.receive(ProtocolTreeNode("message", {"id": "em-%d" % rank, "from": peer_jid(rank), "t": "1415470561",
                                                           "type": "text", "notify": "p"},
                                               [ProtocolTreeNode("enc", {"type": "msg", "v": "2"}, None,
                                                                 H.peer_material()["msg"])]))
        else:
            raise KeyError(kind)
        return None

    def step(self, ev):
        rig, model = self.rig, self.model
        m0 = self._marks()
        regs0 = [(label, set(reg.keys())) for label, reg in rig.registries()]
        raised = None
        entity = None
        what = ev[0]
        rank = len(model.reqs)
        target = None
        try:
            if what == "req":
                entity = self._stimulus(ev[1], rank)
            elif what == "reply":
                target = model.outstanding()[ev[1]]
                if len(ev) > 3 and ev[3] == "retry":
                    rig.app.retry_next = True
                    self._retry_rank = rank
                rig.stack.receive(reply_node(target.kind, self._base_rank(target), target.rid, ev[2]))
            elif what == "dup":
                drank, dtyp = model.consumed[ev[1]]
                target = model.reqs[drank]
                rig.stack.receive(reply_node(target.kind, self._base_rank(target), target.rid, dtyp))
            elif what == "unknown":
                rig.stack.receive(unknown_node(ev[1]))
            elif what == "noise":
                model.noise_n += 1
                same = model.outstanding()[0].rid if ev[1] == "ping-same-id" else None
                rig.stack.receive(noise_node(ev[1], model.noise_n, same))
            else:
                raise KeyError(what)
        except Exception as e:                  # exceptions escaping the stack are observations
            raised = e
        rig.app.retry_next = False
        m1 = self._marks()
        obs = {
            "bottom": rig.bottom.sent[m0[0]:m1[0]],
            "cb": rig.app.cb[m0[1]:m1[1]],
            "ordinary": rig.app.ordinary[m0[2]:m1[2]],
            "logerr": m1[3] - m0[3],
            "sessions": rig.sessions_created[m0[4]:m1[4]],
            "set_sent": m1[5] - m0[5],
            "raised": raised,
            "entity": entity,
            "regs_changed": [label for (label, before), (_, reg) in zip(regs0, rig.registries()) if before != set(reg.keys())],
        }
        self.hist.append(ev)
        self.obs_log.append((what, target.kind if target is not None else ev[1], ev[2] if what == "reply" else None,
                             tuple(c[1] for c in obs["cb"]), tuple(e.getTag() for e in obs["ordinary"]),
                             tuple(getattr(n, "tag", "?") for n in obs["bottom"]), len(obs["sessions"]), obs["logerr"],
                             obs["set_sent"], type(raised).__name__ if raised is not None else None))
        self.viol.append(self.judge(ev, obs, target))

    def _base_rank(self, r):
        """rank that determined the request's addressees (a retried request keeps those of the original)"""
        while r.retry_of is not None:
            r = self.model.reqs[r.retry_of]
        return r.rank

    # ---- the oracle ------------------------------------------------------------------------------------
    def judge(self, ev, obs, target):
        model = self.model
        vs = []
        case = {"variant": self.variant, "history": [list(e) for e in self.hist]}
        what = ev[0]
        if what == "req":
            kind = ev[1]
        elif what == "reply":
            kind = target.kind
        elif what == "dup":
            kind = "dup-" + target.kind
        else:
            kind = "%s-%s" % (what, ev[1])

        def bad(cls, text, detail=None, k=None):
            vs.append(("C08:%s:%s" % (k or kind, cls), "%s [%s stack, history %s]" % (text, self.variant, fmt_hist(self.hist)),
                       case, detail))

        bottom = [desc(n) for n in obs["bottom"]]
        exp_bottom = []           # list of predicates' descriptions; compared below
        exp_cb = []               # (rank, which)
        exp_ordinary = []         # (tag, id)
        exp_sessions = []
        exp_logerr = 0
        exp_set_sent = 0
        exp_raise = None
        new_req = None

        if what == "req":
            rank = len(model.reqs)
            iqs = [n for n in obs["bottom"] if isinstance(n, ProtocolTreeNode) and n.tag == "iq" and n["type"] in ("get", "set")]
            if obs["raised"] is not None:
                bad("raises:request:%s" % type(obs["raised"]).__name__, "issuing the request raised %r" % (obs["raised"],))
                return vs
            if len(iqs) != 1:
                bad("request-not-sent", "issuing a %s request put %d request stanzas on the wire (expected 1)" % (kind, len(iqs)),
                    {"bottom": bottom})
                return vs
            rid = iqs[0]["id"]
            new_req = Req(rank, kind, rid, obs["entity"])
            others = [d for n, d in zip(obs["bottom"], bottom) if n is not iqs[0]]
            if kind in APP_KINDS:
                ent = obs["entity"]
                if ent.getId() != rid or iqs[0]["type"] != ent.getType():
                    bad("request-altered", "request stanza id/type differ from the entity's", {"stanza": desc(iqs[0]), "entity_id": ent.getId()})
                exp_others = []
            elif kind in ("keys_ctl", "setkeys"):
                exp_others = [("ack", "ni-%d" % rank if kind == "keys_ctl" else "nc-%d" % rank)]
            else:
                exp_others = []
            if [(d[0], d[2]) for d in others] != exp_others:
                bad("request-side-effects", "unexpected stanzas next to the request", {"others": others, "expected": exp_others})
            if kind in INTERNAL:
                exp_xmlns = {"groupinfo": ("get", "w:g2"), "setkeys": ("set", "encrypt")}.get(kind, ("get", "encrypt"))
                if (iqs[0]["type"], iqs[0]["xmlns"]) != exp_xmlns:
                    bad("request-altered", "internal request is not the expected iq", {"stanza": desc(iqs[0]), "expected": exp_xmlns})
            if any(r.rid == rid for r in model.reqs):
                bad("id-reused", "request id %r was already used by an earlier request" % rid, {"ids": [r.rid for r in model.reqs]})
            if obs["cb"] or obs["ordinary"] or obs["sessions"] or obs["logerr"] or obs["set_sent"]:
                bad("request-side-effects", "issuing a request fired callbacks / delivered entities",
                    {"cb": [(c[0], c[1]) for c in obs["cb"]], "ordinary": [e.getTag() for e in obs["ordinary"]]})
            model.reqs.append(new_req)

        elif what == "reply":
            r, typ = target, ev[2]
            retry = len(ev) > 3 and ev[3] == "retry"
            r.status = "ok" if typ == "result" else "err"
            model.answered[r.rank] = typ
            if not r.internal:
                exp_cb = [(r.rank, "ok" if typ == "result" else "err")]
                if retry:
                    # the error callback re-sent the original request object: one new request stanza, same id
                    exp_bottom = [("iq", r.rid)]
                    model.reqs.append(Req(len(model.reqs), r.kind, r.rid, r.entity, retry_of=r.rank))
            else:
                base = self._base_rank(r)
                if r.kind == "keys_send":
                    if typ == "result":
                        exp_sessions = [peer_jid(base).split("@")[0]]
                        exp_bottom = [("message", None, peer_jid(base))]
                    else:
                        exp_logerr = 1
                elif r.kind == "keys_ctl":
                    if typ == "result":
                        exp_sessions = [peer_jid(base).split("@")[0]]
                elif r.kind == "keys_recv":
                    if typ == "result":
                        exp_sessions = [peer_jid(base).split("@")[0]]
                        exp_bottom = [("receipt", "em-%d" % base)]    # the pending message is processed: undecryptable -> retry receipt
                elif r.kind == "setkeys":
                    if typ == "result":
                        exp_set_sent = 1
                    else:
                        exp_raise = "Sent keys were not accepted"
                elif r.kind == "groupinfo":
                    if typ == "result":
                        exp_bottom = [("iq-keys", gpeer_jid(base))]
                elif r.kind == "keys_group":
                    if typ == "result":
                        exp_sessions = [gpeer_jid(base).split("@")[0]]
                        exp_bottom = [("message", None, group_jid(base))]

        elif what == "dup":
            r = target
            dtyp = model.consumed[ev[1]][1]
            if r.kind == "sync" and dtyp == "result":
                exp_ordinary = [("iq", r.rid)]        # Appendix A: an iq result with a <sync> child is a ResultSyncIq for the application
        elif what == "unknown":
            pass
        elif what == "noise":
            n = model.noise_n
            if ev[1] == "ping":
                exp_bottom = [("iq-pong", "sp-%d" % n)]
            elif ev[1] == "ping-same-id":
                exp_bottom = [("iq-pong", model.outstanding()[0].rid)]
            elif ev[1] == "message":
                exp_ordinary = [("message", "nm-%d" % n)]
            else:
                exp_ordinary = [("notification", "nn-%d" % n)]
                exp_bottom = [("ack", "nn-%d" % n)]

        # ---- a stanza that is no reply to an outstanding request must not touch any registry
        if what in INERT and obs["regs_changed"]:
            bad("consumes-registry-entry", "%s is not a reply to any outstanding request, yet it changed the registries of %s"
                % (fmt_ev(ev), obs["regs_changed"]),
                {"registries_after": [(l, sorted(map(str, d))) for l, d in self.rig.registries() if d or l in obs["regs_changed"]],
                 "stanzas_on_the_wire": [d[:3] for d in bottom], "expected_on_the_wire": exp_bottom})
            return vs

        # ---- exceptions
        if what != "req":
            if exp_raise is not None:
                if obs["raised"] is None or exp_raise not in str(obs["raised"]):
                    bad("error-path-not-run", "key upload error: the layer's error path (raise) did not run", repr(obs["raised"]))
            elif obs["raised"] is not None:
                import traceback
                tb = traceback.extract_tb(obs["raised"].__traceback__)
                where = "%s:%d" % (tb[-1].filename.split("/repo/")[-1], tb[-1].lineno) if tb else "?"
                bad("raises:%s" % type(obs["raised"]).__name__, "delivering %s raised %r at %s" % (fmt_ev(ev), obs["raised"], where),
                    {"where": ["%s:%d %s" % (f.filename.split("/repo/")[-1], f.lineno, f.name) for f in tb[-6:]]})

        # ---- callbacks of application requests
        if what != "req":
            got = [(c[0], c[1]) for c in obs["cb"]]
            if got != exp_cb:
                if what == "reply" and not target.internal:
                    want = exp_cb[0]
                    mine = [g for g in got if g[0] == target.rank]
                    foreign = [g for g in got if g[0] != target.rank]
                    if not mine:
                        bad("%s-reply-swallowed" % ev[2], "%s reply to a %s request: the application's %s callback never ran"
                            % (ev[2], kind, "success" if ev[2] == "result" else "error"),
                            {"callbacks": got, "app_registry_still_holds_id": target.rid in self.rig.app.iqRegistry,
                             "layer_registries_holding_id": [l for l, d in self.rig.registries() if target.rid in d]})
                        return vs           # everything else (retry, registries) is a consequence of this
                    elif len(mine) > 1 and all(g == want for g in mine):
                        bad("callback-twice", "the %s callback ran %d times for one reply" % (want[1], len(mine)), {"callbacks": got})
                    elif any(g != want for g in mine):
                        bad("wrong-callback", "%s reply invoked %s" % (ev[2], mine), {"callbacks": got})
                    if foreign:
                        bad("cross-talk", "reply to request #%d invoked callbacks of other requests %s" % (target.rank, foreign),
                            {"callbacks": got})
                else:
                    bad("spurious-callback", "%s invoked application callbacks %s" % (fmt_ev(ev), got), {"callbacks": got})
            for c in obs["cb"]:
                req = model.reqs[c[0]] if c[0] < len(model.reqs) else None
                if req is None:
                    continue
                if c[3] is not req.entity:
                    bad("wrong-request", "callback of request #%d received %r instead of the original request object" % (c[0], c[3]),
                        k=req.kind)
                rep = c[2]
                rep_id = getattr(rep, "getId", lambda: None)()
                rep_type = getattr(rep, "getType", lambda: None)()
                if rep_id != req.rid or rep_type != {"ok": "result", "err": "error"}[c[1]]:
                    bad("wrong-reply", "callback of request #%d (id %s) received reply id=%r type=%r" % (c[0], req.rid, rep_id, rep_type),
                        k=req.kind)

        # ---- ordinary path at the application
        got_ord = [(e.getTag(), getattr(e, "getId", lambda: None)()) for e in obs["ordinary"]]
        if what != "req" and got_ord != exp_ordinary:
            if what == "reply" and any(o == ("iq", target.rid) for o in got_ord):
                bad("reply-also-ordinary", "the reply was (also) delivered to the application's ordinary iq handler",
                    {"ordinary": got_ord, "callbacks": [(c[0], c[1]) for c in obs["cb"]]})
            elif what in ("dup", "unknown"):
                bad("not-ignored", "%s reached the application as %s (expected %s)" % (fmt_ev(ev), got_ord, exp_ordinary))
            elif what == "noise":
                bad("not-ordinary", "%s did not take its ordinary path: application got %s, expected %s" % (fmt_ev(ev), got_ord, exp_ordinary))
            else:
                bad("stray-entity", "%s delivered %s to the application" % (fmt_ev(ev), got_ord))

        # ---- bottom
        if what != "req":
            ok = len(bottom) == len(exp_bottom)
            if ok:
                for d, e in zip(bottom, exp_bottom):
                    if e[0] == "iq":
                        ok &= d[0] == "iq" and d[2] == e[1] and d[1] in ("get", "set")
                    elif e[0] == "iq-pong":
                        ok &= d[0] == "iq" and d[2] == e[1] and d[1] == "result"
                    elif e[0] == "iq-keys":
                        ok &= d[0] == "iq" and d[1] == "get" and d[4] == "encrypt"
                    elif e[0] == "message":
                        ok &= d[0] == "message" and d[3] == e[2] and "enc" in d[5]
                    else:
                        ok &= d[0] == e[0] and d[2] == e[1]
            if not ok:
                if what == "reply" and target.internal:
                    bad("continuation-wrong", "after the %s reply the layer's continuation put %s on the wire, expected %s"
                        % (ev[2], [d[:4] for d in bottom], exp_bottom))
                elif what == "noise":
                    bad("not-ordinary", "%s: stanzas on the wire %s, expected %s" % (fmt_ev(ev), [d[:3] for d in bottom], exp_bottom))
                elif what == "reply" and len(ev) > 3:
                    bad("retry-not-sent", "re-sending the original request from the error callback: wire has %s" % ([d[:3] for d in bottom],))
                else:
                    bad("stray-stanza", "%s put %s on the wire" % (fmt_ev(ev), [d[:4] for d in bottom]))
            # a derived internal request (group-info result -> key fetch)
            if what == "reply" and target.kind == "groupinfo" and ev[2] == "result" and ok:
                model.reqs.append(Req(len(model.reqs), "keys_group", bottom[0][2], None, retry_of=target.rank))

        # ---- continuations of internal requests
        if what != "req":
            if obs["sessions"] != exp_sessions:
                if what == "reply" and target.internal:
                    cls = "continuation-twice" if len(obs["sessions"]) > len(exp_sessions) and exp_sessions else \
                        ("result-reply-swallowed" if exp_sessions and not obs["sessions"] else "continuation-wrong")
                    bad(cls, "key fetch %s: sessions created %s, expected %s" % (ev[2], obs["sessions"], exp_sessions))
                else:
                    bad("spurious-callback", "%s ran a key-fetch continuation (sessions %s)" % (fmt_ev(ev), obs["sessions"]))
            if obs["logerr"] != exp_logerr:
                if what == "reply" and target.internal and exp_logerr:
                    bad("error-reply-swallowed" if obs["logerr"] == 0 else "callback-twice",
                        "key fetch error: the send layer's error path ran %d times" % obs["logerr"])
                else:
                    bad("spurious-callback", "%s ran the send layer's key-fetch error path" % fmt_ev(ev))
            if obs["set_sent"] != exp_set_sent:
                if what == "reply" and target.internal and exp_set_sent:
                    bad("result-reply-swallowed" if obs["set_sent"] == 0 else "callback-twice",
                        "key upload result: on_keys_flushed ran %d times" % obs["set_sent"])
                else:
                    bad("spurious-callback", "%s ran the key-upload continuation" % fmt_ev(ev))

        # ---- registries: exactly the unanswered ids, each only where it belongs
        must_reg, may_reg = model.expected_registries()
        idkind = {}
        for r in model.reqs:
            idkind[r.rid] = r.kind
        for label, reg in self.rig.registries():
            have = set(reg.keys())
            want = must_reg.get(label, set())
            for rid in sorted(have - may_reg.get(label, set()), key=str):
                outstanding_elsewhere = any(rid in s for s in may_reg.values())
                k = idkind.get(rid, "unknown-id")
                if outstanding_elsewhere:
                    bad("foreign-registry:%s" % label, "id %s of an outstanding %s request is registered in %s, which does not transport it"
                        % (rid, k, label), k=k)
                else:
                    bad("registry-leak:%s" % label, "%s.iqRegistry still holds id %s (%s) which is not outstanding" % (label, rid, k), k=k)
            for rid in sorted(want - have, key=str):
                if True:
                    bad("registry-missing:%s" % label, "outstanding id %s is not in %s.iqRegistry" % (rid, label), k=idkind.get(rid))
        return vs

    # ---- canonical tuple, read from the real objects -----------------------------------------------------
    def canon(self):
        model, rig = self.model, self.rig
        live = {}
        for r in model.reqs:
            if r.status == "out":
                live[r.rid] = (r.kind, r.rank)
        regs = []
        for label, reg in rig.registries():
            if reg:
                regs.append((label, tuple(sorted((live.get(k) or ("?", str(k))) for k in reg.keys()))))
        per_req = []
        for r in model.reqs:
            n_ok = sum(1 for c in rig.app.cb if c[0] == r.rank and c[1] == "ok")
            n_err = sum(1 for c in rig.app.cb if c[0] == r.rank and c[1] == "err")
            per_req.append((r.kind, r.status, n_ok, n_err, r.retry_of))
        enc = ()
        if rig.encryption:
            enc = (tuple(sorted(rig.sessions_created)), len(rig.send.sentQueue),
                   tuple(sorted(len(v) for v in rig.recv.pendingIncomingMessages.values())),
                   len(rig.send.skipEncJids), rig.counts["set_prekeys_as_sent"], len(rig.loglayer.errors))
        return (tuple(regs), tuple(per_req), len(rig.app.ordinary), enc)


def fmt_ev(ev):
    return "%s(%s)" % (ev[0], ",".join(str(x) for x in ev[1:]))


def fmt_hist(hist):
    return " ".join(fmt_ev(e) for e in hist)


# ---------------------------------------------------------------------------------------------------------
# exploration
# ---------------------------------------------------------------------------------------------------------
def build_world(variant, hist):
    w = World(variant)
    for ev in hist:
        w.step(tuple(ev))
        if w.viol[-1]:
            break                 # the model is only meaningful up to the first violation
    return w


def explore(job):
    """one BFS: (variant, kinds, initial history, max depth, first-events restriction)"""
    variant, kinds, initial, depth, mode = job
    kinds = list(kinds)
    stats = {"obs": set(), "kinds_seen": set(), "evclasses": set(), "deepest": []}

    def build(hist):
        return build_world(variant, hist)

    def enabled(w, hist):
        evs = w.model.enabled(kinds, depth - len(hist))
        if mode == "inert-first" and len(hist) == len(initial):
            evs = [e for e in evs if e[0] in INERT]
        return evs

    def canon(w):
        return w.canon()

    def check(w, hist):
        if hist:
            ev = hist[-1]
            stats["evclasses"].add((ev[0],) + tuple(ev[2:]) if ev[0] in ("reply",) else (ev[0],) + tuple(ev[1:2] if ev[0] != "dup" else ()))
            for r in w.model.reqs:
                stats["kinds_seen"].add((r.kind, r.status))
            if w.obs_log:
                stats["obs"].add(w.obs_log[-1])
            if len(hist) > len(stats["deepest"]) and not any(w.viol):
                stats["deepest"] = list(hist)
        out = []
        for vs in w.viol:
            out.extend(vs)
        return out

    import time
    t0 = time.process_time()
    # a clean part has a few hundred (depth 5) to a few ten thousand (depth 7) states; a tree whose registries leak
    # never merges states and would run for hours - bounded, and reported, instead
    res = bfs(build, enabled, canon, check, max_depth=depth, initial=[tuple(e) for e in initial],
              max_states=40000 if depth <= 5 else 400000)
    cpu = time.process_time() - t0
    H.close_all()
    if res.capped and not res.violations:
        res.violations.append(("C08:state-space-exceeds-bound", "the reachable states of one part (%s stack, kinds %s) exceed the bound that a clean "
                               "tree stays far below: histories no longer merge, something accumulates in the registries or layers" % (variant, kinds),
                               {"variant": variant, "history": [list(e) for e in initial], "kinds": kinds}, {"states": res.states}))
    return {"job": (variant, kinds, [list(e) for e in initial], depth, mode), "states": res.states,
            "transitions": res.transitions, "cpu_s": cpu, "max_depth": res.max_depth + len(initial), "violations": res.violations,
            "kinds_seen": sorted(stats["kinds_seen"]), "evclasses": sorted(stats["evclasses"], key=str),
            "sample": [stats["deepest"]] if stats["deepest"] else [], "obs": sorted(stats["obs"], key=str)}


def windows(order, size, stride):
    out = []
    n = len(order)
    i = 0
    while True:
        w = [order[(i + j) % n] for j in range(size)]
        out.append(w)
        i += stride
        if i >= n:
            break
    return out


def jobs_for(variant, kindsets, depth):
    """partition of all histories of <= depth events over the kind set, by their first two non-inert-prefixed events:
         ()            + only inert events first        (covers the root and histories that begin with noise)
         (req k)       + only inert events next
         (req k, e2)   e2 = any request or any reply to k
    every history over the kind set lies in exactly one part or merges (canonically equal state, at least as much
    depth left) into one."""
    jobs = []
    for ks in kindsets:
        ks = tuple(ks)
        jobs.append((variant, ks, (), depth, "inert-first"))
        for k in ks:
            jobs.append((variant, ks, (("req", k),), depth - 1, "inert-first"))
            seconds = [("req", k2) for k2 in ks] + [("reply", 0, "result"), ("reply", 0, "error")]
            if k in APP_KINDS:
                seconds.append(("reply", 0, "error", "retry"))
            for e2 in seconds:
                jobs.append((variant, ks, (("req", k), e2), depth - 2, "all"))
    return jobs


def _run_histories(ctx):
    from vf.runner import shuffled
    H.provision()
    H.peer_material()
    if ctx.quick:
        depth = 5
        plan = [("enc", windows(ENC_ORDER, 3, 3), depth), ("plain", windows(PLAIN_ORDER, 3, 3), depth)]
    else:
        # calibrated: ~5 500 cpu-s on an idle machine (a clean window of 3 kinds at depth 6 has ~90 k transitions)
        plan = [("plain", windows(PLAIN_ORDER, 3, 3), 6),
                ("enc", [w for w in windows(ENC_ORDER, 3, 3) if any(k in INTERNAL for k in w)], 6),
                ("plain", [[k] for k in PLAIN_ORDER], 7), ("enc", [[k] for k in ENC_ORDER], 7),
                ("enc", [MIX], 4), ("enc", [ENC_ORDER], 3), ("plain", [PLAIN_ORDER], 4)]
    jobs = []
    for variant, kindsets, depth in plan:
        jobs += jobs_for(variant, kindsets, depth)
    jobs = shuffled(jobs, ctx.seed, "c08")
    # expensive parts first for load balance (the seed permutes the order inside each cost class)
    jobs.sort(key=lambda j: (-(j[3] * 10 + min(len(j[1]), 3) * 12 + (5 if j[0] == "enc" else 0)),
                             len(j[2]) == 2 and j[2][1][0] != "req"))
    states = transitions = 0
    kinds_seen = set()
    evclasses = set()
    maxdepth = 0
    per_variant = {}
    found = []
    obsvec = set()
    stopped_early = False
    for res in ctx.pimap(explore, jobs):
        states += res["states"]
        transitions += res["transitions"]
        maxdepth = max(maxdepth, res["max_depth"])
        kinds_seen.update(tuple(x) for x in res["kinds_seen"])
        obsvec.update(res["obs"])
        evclasses.update(tuple(x) for x in res["evclasses"])
        pv = per_variant.setdefault("%s stack, %d kinds, depth <= %d" % (res["job"][0], len(res["job"][1]), res["job"][3] + len(res["job"][2])),
                                    {"states": 0, "transitions": 0, "jobs": 0, "cpu_s": 0.0})
        pv["cpu_s"] = round(pv["cpu_s"] + res["cpu_s"], 1)
        pv["states"] += res["states"]
        pv["transitions"] += res["transitions"]
        pv["jobs"] += 1
        found.extend(res["violations"])
        if res["violations"]:
            # the first part (in the fixed job order) that violates is enough: the remaining parts would only add
            # run time on a broken tree
            ctx.note("part %s violates: remaining parts not explored" % (res["job"][:2],))
            ctx.close()
            stopped_early = True
            break
        if res["sample"]:
            ctx.sample({"variant": res["job"][0], "kinds": res["job"][1], "history": [fmt_ev(e) for e in res["sample"][0]]})
    # report the smallest history per signature, independent of the visiting order
    found.sort(key=lambda v: (len(v[2]["history"]), sum(len(e) for e in v[2]["history"]), v[2]["variant"] != "plain",
                              str(v[2]["history"])))
    ctx.add_violations(found)
    all_kinds = set(APP_KINDS) | set(INTERNAL)
    answered = set(k for k, s in kinds_seen if s == "ok") & set(k for k, s in kinds_seen if s == "err")
    ctx.coverage.update({
        "states": states,
        "transitions": transitions,
        "traces_validated_against_impl": transitions + len(jobs),
        "exhaustive": not stopped_early,
        "max_depth": maxdepth,
        "distinct_outcomes": len(obsvec),
        "bfs_runs": len(jobs),
        "per_part": per_variant,
        "request_kinds": sorted(all_kinds),
        "kinds_with_result_and_error_reply_explored": sorted(answered),
        "kinds_never_answered_both_ways": sorted(all_kinds - answered),
        "event_classes": sorted("/".join(str(y) for y in x) for x in evclasses),
        "bound": "per run: <= %d outstanding requests; %s" % (MAX_OUTSTANDING, "; ".join(
            "%s stack, %d kind sets of %d kinds, depth <= %d" % (v, len(ks), len(ks[0]), d) for v, ks, d in plan)),
        "rule": "every transition is one event executed on a freshly built real stack (history replayed) and judged by the dict model",
        "excluded_kinds": {"delete picture": "IqProtocolEntity refuses type 'delete': no such request can be constructed",
                           "list pictures": "no reply entity is defined for it (handled as get picture)",
                           "privacy list (jabber:iq:privacy)": "no reply entity is defined"},
    })
    ctx.assume("reply / request stanzas come from the shape tables of C09 (vf/ref/shapes.py); key material from python-axolotl")
    ctx.assume("key material and message padding are random per process; no handler of the stack branches on their values")
    ctx.assume("the raise in AxolotlControlLayer.onSentKeysError is taken as that layer's error path (its effect on the stack is C12)")
    ctx.assume("module-level logger of yowsup.layers.axolotl.layer_send is rebound to a recorder; two AxolotlManager "
               "instance methods are wrapped by counters (collaborators, not code under test)")


# --------------------------------------------------------------------------- interleavings (E3)
# "For any interleaving of outstanding requests and incoming replies": the application thread issues requests through
# the interface layer's _sendIq while the network thread hands the replies up.  Real network/segments/noise/coder/
# protocol layers + an application subclass of YowInterfaceLayer under the controlled scheduler; the server answers
# every request the moment it decodes it.  Oracle: every request's callback exactly once, no registry entry left.
IL_MOD = "vf.props.c08_iq_correlation"


def run_interleaving(case, prefix):
    from vf.harness import noise as HN
    from vf.explore import sched as S
    from yowsup.layers.interface.interface import YowInterfaceLayer
    from yowsup.layers.protocol_iq.protocolentities import PingIqProtocolEntity
    from yowsup.layers.protocol_presence.protocolentities import LastseenIqProtocolEntity
    from yowsup.structs.protocoltreenode import ProtocolTreeNode

    class IApp(YowInterfaceLayer):
        def __init__(self):
            YowInterfaceLayer.__init__(self)
            self.received = []
            self.events = []

        def receive(self, entity):
            self.received.append(entity)
            YowInterfaceLayer.receive(self, entity)

        def onEvent(self, ev):
            self.events.append(ev.getName())
            return YowInterfaceLayer.onEvent(self, ev)

    kinds = case["kinds"]
    reply = case.get("reply", "result")
    w = HN.World(variant="IK", burst=0, with_success=True, app_cls=IApp)
    sc = S.Scheduler(prefix, trace_filter=HN.trace_filter, line_filter=HN.line_filter if case.get("lines") else None)
    calls = []
    answered = set()
    orig = w.on_client_bytes

    def on_client_bytes(disp, data):
        orig(disp, data)
        i = disp.index
        r = w.responders[i]
        if r.phase != "transport":
            return
        # answer every request that has been completely received, at once
        for fr in r.received:
            try:
                n = w.reader.getProtocolTreeNode(bytearray(fr))
            except Exception:
                continue
            if n is not None and n.tag == "iq" and n["type"] in ("get", "set") and n["id"] not in answered:
                answered.add(n["id"])
                if reply == "result":
                    if n["xmlns"] == "jabber:iq:last":
                        rn = ProtocolTreeNode("iq", {"type": "result", "id": n["id"], "from": n["to"] or "s.whatsapp.net"},
                                              [ProtocolTreeNode("query", {"seconds": "5"})])
                    else:
                        rn = ProtocolTreeNode("iq", {"type": "result", "id": n["id"], "from": "s.whatsapp.net"})
                else:
                    rn = ProtocolTreeNode("iq", {"type": "error", "id": n["id"], "from": "s.whatsapp.net"},
                                          [ProtocolTreeNode("error", {"code": "500", "text": "internal-server-error"})])
                w.server_send(i, rn)
    w.on_client_bytes = on_client_bytes

    def net():
        w.connect()
        w.dispatchers[0].fire_connected()
        while True:
            had = len(w.server_out[0]) > 0
            sc.wait_until(lambda: len(w.server_out[0]) > 0, "server bytes")
            if had:
                sc.env_point("next socket event")     # back in select() between two socket events
            w.deliver(0, len(w.server_out[0]))

    sc.run_phase([("net", net)], timeout=900.0)
    setup_points = len(sc.points)
    ok = w.state() == "transport" and w.responders[0].phase == "transport"
    ids = []

    def app():
        for i, k in enumerate(kinds):
            ent = PingIqProtocolEntity() if k == "ping" else LastseenIqProtocolEntity("4922@s.whatsapp.net")
            ids.append((i, k, ent.getId()))
            w.app._sendIq(ent, lambda res, req, k=k, i=i: calls.append((i, k, "success", req is not None)),
                          lambda res, req, k=k, i=i: calls.append((i, k, "error", req is not None)))
    error = None
    if ok:
        try:
            sc.run_phase([("app", app)], timeout=900.0)
        except (S.HarnessStuck, S.ReplayDivergence) as e:
            error = e
    blocked = [(t.name, t.wait_desc) for t in sc.blocked()]
    pts = [(1, 0, ce) if i < setup_points else (n, c, ce) for i, (n, c, ce) in enumerate(S.summarize_points(sc))]
    log = list(sc.log)
    sc.shutdown()
    if error is not None:
        raise error
    v = []

    def bad(sig, what, detail=None):
        v.append(("C08:interleaving:" + sig, what, dict(case), detail))
    if not ok:
        bad("setup-failed", "login did not complete")
        return pts, v, ("setup",)
    for ent in log:
        if ent[0] == "thread-exception":
            bad("thread-exception:%s" % ent[2], "exception escaped in thread %s: %s %s" % (ent[1], ent[2], ent[3]))
    want = "success" if reply == "result" else "error"
    for i, k, rid in ids:
        n = sum(1 for c in calls if c[0] == i and c[2] == want)
        other = sum(1 for c in calls if c[0] == i and c[2] != want)
        if n != 1 or other:
            bad("%s:%s-callback-count" % (k, want), "request #%d (%s) got %d %s callbacks and %d of the other kind (expected exactly one)" % (i, k, n, want, other),
                {"calls": calls, "registry": list(w.app.iqRegistry)})
    if w.app.iqRegistry:
        bad("registry-leak:App", "application registry still holds %s after every request was answered" % list(w.app.iqRegistry))
    for lay in w.par.sublayers:
        if getattr(lay, "iqRegistry", None):
            bad("registry-leak:%s" % type(lay).__name__, "layer registry still holds %s" % list(lay.iqRegistry))
    if [b for b in blocked if b[0] not in ("net",)]:
        bad("deadlock", "threads left blocked: %s" % blocked)
    obs = (tuple(calls), tuple(sorted(b[0] for b in blocked)))
    return pts, v, obs


def run(ctx):
    _run_histories(ctx)
    from vf.explore import dfs
    cases = [{"kinds": ["ping"], "reply": "result"}, {"kinds": ["lastseen"], "reply": "result"},
             {"kinds": ["ping"], "reply": "error"}, {"kinds": ["lastseen", "ping"], "reply": "result"}]
    if not ctx.quick:
        cases += [{"kinds": ["lastseen"], "reply": "error"}, {"kinds": ["ping", "ping", "lastseen"], "reply": "result"},
                  {"kinds": ["ping"], "reply": "result", "lines": True}, {"kinds": ["lastseen"], "reply": "error", "lines": True}]
    bound = 1 if ctx.quick else 2
    st = dfs.explore(ctx, IL_MOD, "run_interleaving", cases, bound, cap=200000 if ctx.quick else 2000000, chunksize=4, free_bound=2)
    ctx.note("interleavings: preemption bound %d: executions=%d capped=%s" % (bound, st.executions, st.capped))
    ctx.coverage["interleaving_executions"] = st.executions
    ctx.coverage["interleaving_preemption_bound"] = bound
    ctx.coverage["traces_validated_against_impl"] = ctx.coverage.get("traces_validated_against_impl", 0) + st.executions
    if st.capped:
        ctx.coverage["exhaustive"] = False


def replay(ctx, case):
    if "kinds" in case and "history" not in case:
        from vf.explore import dfs
        case = dict(case)
        pf = dfs.schedule_from_case(case)
        case.pop("schedule", None)
        return run_interleaving(case, pf)[1]
    H.provision()
    w = build_world(case["variant"], [tuple(e) for e in case["history"]])
    out = []
    for vs in w.viol:
        out.extend(vs)
    H.close_all()
    return out
