"""C01 Stanza codec round trip: decode(encode(tree)) == tree.

Bounded-exhaustive enumeration of every stanza tree of a small-scope grammar
(DESIGN 3/C01).  Every tree is pushed through the REAL WriteEncoder and the
REAL ReadDecoder, and - when that path held - through a real YowCoderLayer
hosted in a real YowStack between two recording layers (send, then feed the
emitted bytes back into receive).  The result is compared with the input by a
strict structural equality of our own (tag, attribute dict, bytes content,
ordered children, exact types) - not ProtocolTreeNode.__eq__.

Trees are described by small JSON-able *specs* (long strings / payloads /
repeated children are generator expressions), so that a violating case can be
replayed from its replay file.

Well-formedness (the property's quantifier): non-empty Latin-1 strings not
ending in '@' and not one of the two reserved stream words (the same for the
components a JID string splits into, which are string positions on the wire);
content XOR children or neither; list sizes representable (<= 65535).
"""
import hashlib
import itertools
import json

from vf import env
env.bootstrap()

from yowsup.layers import YowLayer
from yowsup.stacks.yowstack import YowStack
from yowsup.structs import ProtocolTreeNode
from yowsup.layers.coder.layer import YowCoderLayer
from yowsup.layers.coder.encoder import WriteEncoder
from yowsup.layers.coder.decoder import ReadDecoder
from yowsup.layers.coder.tokendictionary import TokenDictionary

from vf.ref import codec as ref
from vf.runner import shuffled

PROPERTY = "C01"
LEVEL = "exploration"

MIB = 1 << 20
NEAR_16M = (1 << 24) - 64


# =============================================================================================
# specs -> plain trees
# =============================================================================================

_NIB0 = "1234567890"
_NIB1 = "7-3.0-9.5"
_HEX0 = "A1B2C3D4E5F60789"
_HEX1 = "FEDCBA"
_RAW0 = "ghijklmnopqrstuvwxyz"
_RAW1 = "".join(chr(c) for c in range(0x80, 0x100))
_RAW2 = " !\"#$%&'()*+,/:;<=>?[\\]^_`{|}~\x00\x01\x09\x0a\x7f"
_ALPHA = {("nib", 0): _NIB0, ("nib", 1): _NIB1, ("hex", 0): _HEX0, ("hex", 1): _HEX1,
          ("raw", 0): _RAW0, ("raw", 1): _RAW1, ("raw", 2): _RAW2}
_WANT = {"nib": "nibble", "hex": "hex", "raw": "raw"}
_str_cache = {}


def mkstr(spec):
    """string spec -> str.  spec = literal str | [kind, n, variant] | ["jid", userspec, serverspec]"""
    if isinstance(spec, str):
        return spec
    key = json.dumps(spec)
    hit = _str_cache.get(key)
    if hit is not None:
        return hit
    kind = spec[0]
    if kind == "jid":
        s = mkstr(spec[1]) + "@" + mkstr(spec[2])
    else:
        n, v = spec[1], spec[2]
        alpha = _ALPHA[(kind, v)]
        s = None
        # rotate the alphabet until the string is in its intended class (e.g. "1" is a dictionary token)
        for off in range(len(alpha)):
            reps = (n + off) // len(alpha) + 2
            cand = (alpha * reps)[off:off + n]
            if ref.classify(cand) == _WANT[kind]:
                s = cand
                break
        if s is None:
            raise RuntimeError("no string of class %s" % (spec,))
    if len(s) <= 70000:
        _str_cache[key] = s
    return s


_RAMP = bytes(range(256))


def mkbytes(spec):
    """bytes spec -> bytes|None.  spec = None | ["z"|"f"|"r", n] | ["lit", hex]"""
    if spec is None:
        return None
    kind = spec[0]
    if kind == "lit":
        return bytes.fromhex(spec[1])
    n = spec[1]
    if kind == "z":
        return bytes(n)
    if kind == "f":
        return b"\xff" * n
    if kind == "r":
        return (_RAMP * (n // 256 + 1))[:n]
    raise ValueError(spec)


def gen_attrs(n):
    out = []
    for i in range(n):
        m = i % 4
        if m == 0:
            v = "result"
        elif m == 1:
            v = "%d" % (100000 + i * 37)
        elif m == 2:
            v = "val-%d" % i
        else:
            v = "49151%06d@s.whatsapp.net" % i
        out.append(("a%d_" % i, v))
    return out


def expand(spec):
    """node spec -> plain tree (tag, attrs tuple, content, children tuple)"""
    tag = mkstr(spec["t"])
    a = spec.get("a") or []
    if a and a[0] == "gen":
        attrs = gen_attrs(a[1])
    else:
        attrs = [(mkstr(k), mkstr(v)) for k, v in a]
    content = mkbytes(spec.get("c"))
    kids = []
    for k in spec.get("k") or []:
        if "rep" in k:
            one = expand(k["node"])
            kids.extend([one] * k["rep"])
        else:
            kids.append(expand(k))
    return (tag, tuple(attrs), content, tuple(kids))


def well_formed(tree):
    tag, attrs, content, kids = tree
    if not ref.well_formed_string(tag):
        return False
    for k, v in attrs:
        if not (ref.well_formed_string(k) and ref.well_formed_string(v)):
            return False
    if len(dict(attrs)) != len(attrs):
        return False
    if content is not None and kids:
        return False
    if 1 + 2 * len(attrs) + (1 if (content is not None or kids) else 0) > 0xFFFF or len(kids) > 0xFFFF:
        return False
    seen = set()
    for c in kids:              # repeated children are the same object: check once
        if id(c) not in seen:
            seen.add(id(c))
            if not well_formed(c):
                return False
    return True


def to_node(tree):
    tag, attrs, content, kids = tree
    memo = {}
    children = []
    for c in kids:
        n = memo.get(id(c))
        if n is None:
            n = memo[id(c)] = to_node(c)
        children.append(n)
    return ProtocolTreeNode(tag, dict(attrs) if attrs else None, children or None, content)


def strict_diff(node, tree, path="/", lenient_content=False):
    """None when the real node equals the plain tree strictly, else a one-line description of the first difference."""
    if type(node) is not ProtocolTreeNode:
        return "%s: not a ProtocolTreeNode but %s" % (path, type(node).__name__)
    tag, attrs, content, kids = tree
    if type(node.tag) is not str or node.tag != tag:
        return "%s: tag %s != %s" % (path, _short(node.tag), _short(tag))
    path = "%s%s" % (path, _short(tag, 20))
    got = node.attributes
    if type(got) is not dict:
        return "%s: attributes is %s" % (path, type(got).__name__)
    want = dict(attrs)
    if got != want or any(type(k) is not str or type(v) is not str for k, v in got.items()):
        missing = [k for k in want if k not in got]
        extra = [k for k in got if k not in want]
        wrong = [k for k in want if k in got and got[k] != want[k]]
        return "%s: attributes differ (missing %s, unexpected %s, wrong value for %s; %d vs %d entries)" % (
            path, _short(missing[:2]), _short(extra[:2]), _short([(k, got[k], want[k]) for k in wrong[:1]]),
            len(got), len(want))
    data = node.data
    if lenient_content and data is not None and type(data) is not bytes:
        # C02: string valued content is compared as its Latin-1 bytes
        if type(data) is str:
            data = data.encode("latin-1")
        elif type(data) is list and all(type(x) is int for x in data):
            data = bytes(data)
    if content is None:
        if data is not None:
            return "%s: content %s where none expected" % (path, _short(data))
    else:
        if type(data) is not bytes:
            return "%s: content is %s, expected bytes[%d]" % (path, type(data).__name__, len(content))
        if data != content:
            return "%s: content differs: got %d bytes %s, expected %d bytes %s" % (
                path, len(data), _short(data), len(content), _short(content))
    ch = node.children
    if type(ch) is not list:
        return "%s: children is %s" % (path, type(ch).__name__)
    if len(ch) != len(kids):
        return "%s: %d children, expected %d" % (path, len(ch), len(kids))
    for i, (c, k) in enumerate(zip(ch, kids)):
        d = strict_diff(c, k, "%s[%d]/" % (path, i), lenient_content)
        if d:
            return d
    return None


def _short(o, n=40):
    r = repr(o)
    return r if len(r) <= n + 20 else "%s...(%d chars)" % (r[:n], len(r))


# =============================================================================================
# the code under test, two observation points
# =============================================================================================

class Top(YowLayer):
    def __init__(self):
        YowLayer.__init__(self)
        self.got = []

    def receive(self, data):
        self.got.append(data)


class Bottom(YowLayer):
    def __init__(self):
        YowLayer.__init__(self)
        self.sent = []

    def send(self, data):
        self.sent.append(data)


_rig = {}


def rig():
    """fresh-per-process real objects; the codec objects are stateless between frames"""
    if not _rig:
        _rig["enc"] = WriteEncoder(TokenDictionary())
        _rig["dec"] = ReadDecoder(TokenDictionary())
        stack = YowStack((Bottom, YowCoderLayer, Top), reversed=False)
        _rig["stack"] = stack
        _rig["bottom"], _rig["coder"], _rig["top"] = stack.getLayer(0), stack.getLayer(1), stack.getLayer(2)
    return _rig


def exc_name(e):
    return type(e).__name__


def roundtrip_direct(tree):
    """-> (outcome, detail, wire bytes|None).  outcome 'ok' or a failure kind."""
    r = rig()
    node = to_node(tree)
    try:
        out = r["enc"].protocolTreeNodeToBytes(node)
    except Exception as e:
        return "encode-raises-%s" % exc_name(e), "%s: %s" % (exc_name(e), str(e)[:200]), None
    try:
        wire = bytes(out)
    except Exception as e:
        return "encode-output-not-bytes", "%s: %s" % (exc_name(e), str(e)[:200]), None
    d = strict_diff(node, tree)
    if d:
        return "encode-mutates-input", d, wire
    try:
        got = r["dec"].getProtocolTreeNode(out)
    except Exception as e:
        return "decode-raises-%s" % exc_name(e), "%s: %s" % (exc_name(e), str(e)[:200]), wire
    d = strict_diff(got, tree)
    if d:
        return "mismatch", d, wire
    return "ok", None, wire


def roundtrip_layer(tree, wire_direct):
    r = rig()
    bottom, coder, top = r["bottom"], r["coder"], r["top"]
    del bottom.sent[:]
    del top.got[:]
    try:
        coder.send(to_node(tree))
    except Exception as e:
        _unlock(coder)
        return "layer-send-raises-%s" % exc_name(e), "%s: %s" % (exc_name(e), str(e)[:200])
    if len(bottom.sent) != 1 or type(bottom.sent[0]) not in (bytes, bytearray):
        return "layer-send-output", "coder layer wrote %s downward" % [type(x).__name__ for x in bottom.sent]
    frame = bytes(bottom.sent[0])
    if wire_direct is not None and frame != wire_direct:
        return "layer-send-differs", "bytes written by YowCoderLayer.send differ from WriteEncoder output"
    try:
        coder.receive(frame)
    except Exception as e:
        return "layer-receive-raises-%s" % exc_name(e), "%s: %s" % (exc_name(e), str(e)[:200])
    if len(top.got) != 1:
        return "layer-receive-count", "coder layer delivered %d stanzas upward for one frame" % len(top.got)
    d = strict_diff(top.got[0], tree)
    if len(bottom.sent) != 1:
        return "layer-receive-sends", "receive path wrote downward"
    del bottom.sent[:]
    del top.got[:]
    if d:
        return "layer-mismatch", d
    return "ok", None


def _unlock(layer):
    # YowLayer.toLower leaks its lock when the lower layer raises (separate property); keep the rig usable
    try:
        if layer.lock.locked():
            layer.lock.release()
    except Exception:
        pass


def check_case(case):
    """-> list of violation tuples, evaluations, forms dict, outcome"""
    tree = expand(case["tree"])
    if not well_formed(tree):
        raise RuntimeError("grammar produced a tree outside the quantifier: %s" % json.dumps(case)[:300])
    cls = case["cls"]
    vs = []
    outcome, detail, wire = roundtrip_direct(tree)
    evals = 1
    forms = {}
    if wire is not None:
        try:
            ref.decode(wire, forms=forms)      # coverage measurement only (which wire forms were exercised)
        except ref.FormatError:
            forms = {"undecodable-by-reference": 1}
    if outcome != "ok":
        vs.append(("C01:%s:%s" % (outcome, cls),
                   "encode->decode of a %s tree: %s (%s)" % (cls, outcome, detail),
                   {"cls": cls, "tree": case["tree"], "path": "direct"},
                   {"observed": detail, "expected": "decoded tree strictly equal to the encoded one",
                    "wire_len": None if wire is None else len(wire),
                    "wire_head": None if wire is None else wire[:48]}))
        return vs, evals, forms, outcome
    o2, d2 = roundtrip_layer(tree, wire)
    evals += 1
    if o2 != "ok":
        vs.append(("C01:%s:%s" % (o2, cls),
                   "YowCoderLayer send->receive of a %s tree: %s (%s)" % (cls, o2, d2),
                   {"cls": cls, "tree": case["tree"], "path": "layer"},
                   {"observed": d2, "expected": "stanza delivered upward strictly equal to the one sent"}))
        outcome = o2
    return vs, evals, forms, outcome


NONTRIVIAL_FORMS = ("token2", "jid", "nibble", "hex", "len20", "len31", "list16")


def case_key(case):
    return hashlib.sha1(json.dumps(case["tree"], sort_keys=True).encode()).digest()[:10]


def run_chunk(chunk):
    vs, evals = [], 0
    forms_total = {}
    keys_nontrivial, keys_all = [], []
    outcomes = set()
    per_cls = {}
    for case in chunk:
        v, e, forms, outcome = check_case(case)
        vs.extend(v)
        evals += e
        for f, n in forms.items():
            forms_total[f] = forms_total.get(f, 0) + 1       # number of trees whose wire form uses f
        k = case_key(case)
        keys_all.append(k)
        if any(f in forms for f in NONTRIVIAL_FORMS):
            keys_nontrivial.append(k)
        outcomes.add((case["cls"], outcome))
        per_cls[case["cls"]] = per_cls.get(case["cls"], 0) + 1
    return vs, evals, forms_total, keys_nontrivial, keys_all, sorted(outcomes), per_cls


# =============================================================================================
# the grammar
# =============================================================================================

def wrap(node, depth):
    """place `node` at depth 1 (top level), 2 (child) or 3 (grandchild); something always follows it"""
    if depth == 1:
        return node
    if depth == 2:
        return {"t": "iq", "a": [["id", "q-1"], ["type", "get"]], "k": [node, {"t": "after", "a": [["n", "1"]]}]}
    return {"t": "iq", "a": [["type", "set"]],
            "k": [{"t": "query", "a": [["xmlns", "w:g2"]], "k": [{"t": "first"}, node, {"t": "last", "c": ["lit", "00ff"]}]},
                  {"t": "tail"}]}


def at(pos, s):
    """a node with string s in position pos and something after it on the wire"""
    if pos == "tag":
        return {"t": s, "a": [["id", "x1"]]}
    if pos == "key":
        return {"t": "message", "a": [[s, "v1"], ["zz", "get"]]}
    if pos == "value":
        return {"t": "message", "a": [["id", s], ["zz", "get"]]}
    raise ValueError(pos)


POS = ("tag", "key", "value")

LEAVES = [
    {"t": "item"},
    {"t": "zq"},
    {"t": "participant", "a": [["jid", "4915112345678@s.whatsapp.net"]]},
    {"t": "enc", "a": [["v", "2"], ["type", "pkmsg"]], "c": ["r", 40]},
    {"t": "body", "c": ["lit", "68656c6c6f"]},
    {"t": "media", "a": [["mimetype", "image/jpeg"]], "c": ["r", 256]},
    {"t": "ABCDEF", "a": [["ABC", "DEF12"]]},
    {"t": "list", "c": ["lit", ""]},
    # thorough only below
    {"t": "w:g2", "a": [["t", "1600000000"], ["from", "4915112345678-1600000000@g.us"]]},
    {"t": "caf\xe9", "a": [["k\xff", "\x80\x81"]], "c": ["f", 3]},
    {"t": "1234567", "a": [["12345", "123-45.6"]]},
    {"t": "status@broadcast"},
    {"t": "x", "c": ["z", 255]},
    {"t": "@lead", "a": [["a@b@c", "@@z"]]},
    {"t": "notification", "a": ["gen", 5]},
    {"t": "picture", "c": ["lit", "f8f9fafbfcfdfeff00"]},
]

ROOTS = [
    {"t": "iq", "a": [["id", "1"], ["type", "result"]]},
    {"t": "message"},
    {"t": "stanza-root", "a": [["from", "status@broadcast"]]},
    {"t": "123", "a": ["gen", 3]},
]


def gen_cases(quick):
    """The full list of cases of the tier, simplest first.  Deterministic."""
    table = ref.load_tokens()
    tokens = table.usable()
    cases = []

    def add(cls, tree, big=False):
        cases.append({"cls": cls, "tree": tree, "big": big})

    depths = (1, 3) if quick else (1, 2, 3)

    # ---- 1. every dictionary token in every string position ---------------------------------
    for d in depths:
        for pos in POS:
            for t in tokens:
                add("string:%s:%s" % (ref.classify(t), pos), wrap(at(pos, t), d))

    # ---- 2. packable strings of every length 1..255 ------------------------------------------
    for d in depths:
        for kind in ("nib", "hex"):
            for v in (0, 1):
                for pos in POS:
                    for n in range(1, 256):
                        add("string:%s:%s" % (_WANT[kind], pos), wrap(at(pos, [kind, n, v]), d))

    # ---- 3. raw strings: every length 1..300, boundary lengths with other alphabets, big -----
    for d in depths:
        for pos in POS:
            for n in range(1, 301):
                add("string:raw:%s" % pos, wrap(at(pos, ["raw", n, 0]), d))
            for v in (1, 2):
                for n in (1, 2, 127, 128, 255, 256, 257):
                    add("string:raw:%s" % pos, wrap(at(pos, ["raw", n, v]), d))
    for pos in POS:
        for v in (0, 1):
            for n in (65535, 65536, MIB - 1):
                add("string:raw-20bit:%s" % pos, at(pos, ["raw", n, v]), big=True)
    for pos in POS:
        for v in (0, 1):
            for n in (MIB, MIB + 1):
                add("string>=1MiB", at(pos, ["raw", n, v]), big=True)
    if not quick:
        for pos in POS:
            add("string>=1MiB", wrap(at(pos, ["raw", MIB, 2]), 3), big=True)

    # ---- 4. every Latin-1 character, alone and embedded ------------------------------------
    for pos in POS:
        for c in range(256):
            ch = chr(c)
            if ch != "@":
                add("string:char:%s" % pos, at(pos, ch))
            add("string:char:%s" % pos, at(pos, "x" + ch + "y"))

    # ---- 5. JIDs -----------------------------------------------------------------------------
    tok2 = [t for t in tokens if ref.classify(t) == "token2"]
    users = ["491234567890", "4915112345678-1600000000", "12345", "ABCDEF0123", "DEADBEEF1", "alice", "status",
             tok2[0], tok2[-1], "1", "caf\xe9", ["nib", 127, 0], ["nib", 128, 0], ["nib", 255, 1],
             ["hex", 127, 0], ["hex", 128, 1], ["raw", 255, 0], ["raw", 256, 1]]
    servers = ["s.whatsapp.net", "g.us", "broadcast", tok2[1], tok2[300], "example.org", "a@b", "@x", "12345",
               "ABC", ["raw", 256, 0], "b@c@d"]
    for d in depths:
        for pos in POS:
            for u in users:
                for s in servers:
                    add("string:jid:%s" % pos, wrap(at(pos, ["jid", u, s]), d))
    for pos in (("value",) if quick else POS):
        for kind in ("nib", "hex"):
            for n in range(1, 256):
                add("string:jid:%s" % pos, at(pos, ["jid", [kind, n, 0], "s.whatsapp.net"]))
                if not quick:
                    add("string:jid:%s" % pos, at(pos, ["jid", [kind, n, 1], "g.us"]))
        for t in tokens:
            add("string:jid:%s" % pos, at(pos, ["jid", t, "s.whatsapp.net"]))
            add("string:jid:%s" % pos, at(pos, ["jid", "4915112345678", t]))
    for pos in POS:
        for s in ("@abc", "@s.whatsapp.net", "@1234", "@a@b", "a@@b", "a@b@c", "@@x", "1@2", "1@s.whatsapp.net@g.us"):
            add("string:at-forms:%s" % pos, at(pos, s))

    # ---- 6. strings that almost are tokens ---------------------------------------------------
    near = set()
    for t in tokens[:40] + tok2[:40]:
        for s in (t + " ", " " + t, t.upper(), t[:-1], t + t, t + "\x00"):
            if s and ref.classify(s) not in ("token1", "token2") and ref.well_formed_string(s):
                near.add(s)
    for pos in POS:
        for s in sorted(near):
            add("string:near-token:%s" % pos, at(pos, s))

    # ---- 7. representatives in all three positions at once (thorough: full triple product) ----
    reps = ["type", tok2[5], ["nib", 1, 0], ["nib", 2, 0], ["nib", 127, 1], ["nib", 128, 0], ["hex", 1, 0],
            ["hex", 6, 0], ["hex", 127, 0], ["hex", 128, 1], ["raw", 1, 0], ["raw", 255, 0], ["raw", 256, 0],
            ["raw", 3, 1], "4915112345678@s.whatsapp.net", "status@broadcast", "a@b@c", "@x", "x\x00y"]
    if not quick:
        reps += ["1", "0", tok2[-1], ["nib", 255, 0], ["hex", 255, 0], ["raw", 257, 2], ["raw", 65536, 0],
                 ["jid", ["hex", 5, 0], "g.us"], ["jid", "alice", "example.org"], "\xff", " "]
    trip = itertools.product(reps, repeat=3) if not quick else \
        [(a, b, c) for i, a in enumerate(reps) for j, b in enumerate(reps) for c in (reps[(i + j) % len(reps)],)]
    for a, b, c in trip:
        add("string:triple", {"t": a, "a": [[b, c], ["id", "x"]], "c": ["lit", "01"]})

    # ---- 8. content size classes x patterns ---------------------------------------------------
    for n in range(0, 301):
        add("content:len8" if n < 256 else "content:len20", {"t": "enc", "a": [["v", "2"]], "c": ["r", n]})
    for b in range(256):
        add("content:len8", {"t": "enc", "c": ["lit", "%02x" % b]})
    for lit in (b"1234567890", b"result", b"123@s.whatsapp.net", b"ABCDEF", b"\xf8\x01\x05", b"\x00", b"\xfc\x00"):
        add("content:len8", {"t": "body", "c": ["lit", lit.hex()]})
        add("content:len8", wrap({"t": "body", "c": ["lit", lit.hex()]}, 3))
    small_sizes = (0, 1, 255, 256, 257, 65535, 65536)
    for pat in ("z", "f", "r"):
        for n in small_sizes:
            cls = "content:len8" if n < 256 else "content:len20"
            add(cls, {"t": "media", "a": [["type", "image"]], "c": [pat, n]}, big=n > 1000)
            add(cls, wrap({"t": "media", "c": [pat, n]}, 2), big=n > 1000)
            if not quick:
                add(cls, wrap({"t": "media", "a": ["gen", 2], "c": [pat, n]}, 3), big=n > 1000)
        add("content:len20", {"t": "media", "a": [["type", "image"]], "c": [pat, MIB - 1]}, big=True)
        for n in (MIB, MIB + 1):
            add("content>=1MiB-last", {"t": "media", "a": [["type", "image"]], "c": [pat, n]}, big=True)
    if not quick:
        add("content>=1MiB-last", {"t": "media", "a": [["type", "video"]], "c": ["r", NEAR_16M]}, big=True)
        add("content>=1MiB-last", {"t": "message", "k": [{"t": "enc", "a": [["v", "2"]], "c": ["f", 3 * MIB + 7]}]},
            big=True)

    # ---- 9. attribute counts --------------------------------------------------------------------
    for n in (0, 1, 2, 3, 126, 127, 128, 129, 300) + (() if quick else (1000, 32766, 32767)):
        heavy = n >= 1000
        add("shape:attrs", {"t": "iq", "a": ["gen", n]}, big=heavy)
        if n < 32767:
            add("shape:attrs", {"t": "iq", "a": ["gen", n], "c": ["r", 5]}, big=heavy)
            add("shape:attrs", {"t": "iq", "a": ["gen", n], "k": [{"t": "item"}]}, big=heavy)
            add("shape:attrs", wrap({"t": "iq", "a": ["gen", n], "c": ["r", 5]}, 3), big=heavy)

    # ---- 10. child counts ---------------------------------------------------------------------
    kid_kinds = [{"t": "item"}, {"t": "user", "a": [["jid", "4915112345678@s.whatsapp.net"]], "c": ["lit", "0102"]}]
    if not quick:
        kid_kinds += [{"t": "g", "k": [{"t": "item"}]}, {"t": "enc", "c": ["r", 256]}]
    for m in (1, 2, 3, 254, 255, 256, 257, 300) + (() if quick else (1000, 65535)):
        heavy = m >= 1000
        for kid in kid_kinds:
            if m == 65535 and kid.get("c") == ["r", 256]:
                continue            # 65535 x 260 bytes would exceed the 16 MiB frame limit: outside the quantifier
            add("shape:children", {"t": "list", "k": [{"rep": m, "node": kid}]}, big=heavy)
            add("shape:children", {"t": "iq", "a": [["id", "1"]],
                                   "k": [{"t": "list", "k": [{"rep": m, "node": kid}]}, {"t": "after"}]}, big=heavy)
            if m <= 300:
                add("shape:children", {"t": "list", "k": [{"t": "first", "c": ["lit", "aa"]}, {"rep": m - 1, "node": kid}]}
                    if m > 1 else {"t": "list", "k": [{"t": "first", "c": ["lit", "aa"]}]})
    for m in (255, 256):
        add("shape:children", {"t": "iq", "k": [{"rep": 2, "node": {"t": "list", "k": [{"rep": m, "node": {"t": "item"}}]}}]})

    # ---- 11. full product of small shapes, depth <= 3 -------------------------------------------
    leaves = LEAVES[:8] if quick else LEAVES
    maxseq = 2 if quick else 3
    roots = ROOTS[:2] if quick else ROOTS
    for root in roots:
        for L in range(0, maxseq + 1):
            for seq in itertools.product(leaves, repeat=L):
                add("shape:product-d2", dict(root, k=list(seq)))
    mids = []
    base = LEAVES[:3] if quick else LEAVES[:6]
    for L in (1, 2):
        for seq in itertools.product(base, repeat=L):
            mids.append({"t": "group", "a": [["n", "%d" % len(mids)]], "k": list(seq)})
    mids.append({"t": "group", "c": ["r", 300]})
    for root in roots[:2]:
        for L in (1, 2):
            for seq in itertools.product(mids, repeat=L):
                add("shape:product-d3", dict(root, k=list(seq)))

    # ---- 12. position of a big node -------------------------------------------------------------
    def bignode(n, pat):
        return {"t": "enc", "a": [["v", "2"], ["type", "msg"]], "c": [pat, n]}

    small = {"t": "item", "a": [["i", "1"]]}
    sized = [(MIB - 1, "content:len20-position"), (MIB, None)] + ([] if quick else [(MIB + 1, None), (65536, "content:len20-position")])
    pats = ("r",) if quick else ("r", "z", "f")
    for n, fixed_cls in sized:
        for pat in pats:
            big = bignode(n, pat)
            for count in (2, 3):
                for i in range(count):
                    kids = [small] * count
                    kids[i] = big
                    last = i == count - 1
                    # depth 2: children of the root
                    add(fixed_cls or ("content>=1MiB-last" if last else "content>=1MiB-then-sibling"),
                        {"t": "message", "a": [["id", "m1"]], "k": kids}, big=True)
                    # depth 3: inside a middle node that is / is not itself last
                    for mid_last in (True, False):
                        outer = [{"t": "group", "k": kids}] + ([] if mid_last else [{"t": "tail"}])
                        if count == 3 or not quick:
                            add(fixed_cls or ("content>=1MiB-last" if (last and mid_last) else "content>=1MiB-then-sibling"),
                                {"t": "message", "k": outer}, big=True)
    if not quick:
        # two big nodes in one frame (pairing restricted to these four arrangements)
        for a, b in ((MIB, MIB), (MIB, MIB - 1), (MIB - 1, MIB), (MIB + 1, 2 * MIB)):
            add("content>=1MiB-last" if a < MIB else "content>=1MiB-then-sibling",
                {"t": "message", "k": [bignode(a, "r"), bignode(b, "f")]}, big=True)

    return cases


# =============================================================================================
# run / replay
# =============================================================================================

def chunks(seq, n):
    return [seq[i:i + n] for i in range(0, len(seq), n)]


# =============================================================================================
# sequences on ONE encoder / decoder instance: the layer keeps a single WriteEncoder and ReadDecoder for the life of
# the connection, so what an earlier string (or an earlier stanza) leaves behind in them is part of the input
# =============================================================================================
PAIR_STRINGS = [
    "1400000002", "1-2.3", "491234567890-1400000000", "7", "ABCDEF01", "A1B", "0F",
    "hello", "", "receipt", "4915112345678@s.whatsapp.net",
    "12ab-7", "Bob.example", "99999999999999999999x", "ABCDEFG", "1.2.3x", "-", ".", "12345678901234567890123456789012345678901234567890"
    "1234567890123456789012345678901234567890123456789012345678901234567890123456789012345",
]


def check_string_pairs(item):
    """(a, b): value b written after value a - in the same stanza, and in the next stanza of the same encoder - must
    encode exactly as it does on a fresh encoder, and decode back, on the same decoder, to itself."""
    ia, mode = item
    a = PAIR_STRINGS[ia]
    vs = []
    evals = 0
    for b in PAIR_STRINGS:
        case = {"string_pair": [a, b], "mode": mode}
        enc, dec = WriteEncoder(TokenDictionary()), ReadDecoder(TokenDictionary())
        if mode == "same-stanza":
            trees = [("iq", (("x", a), ("y", b)), None, ())]
        elif mode == "next-stanza":
            trees = [("iq", (("x", a),), None, ()), ("iq", (("y", b),), None, ())]
        else:   # the first stanza cannot be encoded at all (an int attribute after the string): the next one is unaffected
            trees = [None, ("iq", (("y", b),), None, ())]
        for t in trees:
            evals += 1
            if t is None:
                try:
                    enc.protocolTreeNodeToBytes(ProtocolTreeNode("iq", {"x": a, "z": 5}))
                except Exception:
                    pass
                continue
            if not well_formed(t):
                continue
            try:
                wire = bytes(enc.protocolTreeNodeToBytes(to_node(t)))
            except Exception as e:
                vs.append(("C01:pair:encode-raises", "%s after %r: %s" % (mode, a, exc_name(e)), case, str(e)[:200]))
                break
            try:
                fresh = bytes(WriteEncoder(TokenDictionary()).protocolTreeNodeToBytes(to_node(t)))
            except Exception as e:
                break        # not encodable even on a fresh encoder: the single-tree part reports that
            if wire != fresh and mode != "same-stanza":
                vs.append(("C01:pair:encoder-state", "a stanza encodes differently after an earlier one on the same encoder (%s: %r then %r)" % (mode, a, b),
                           case, {"wire": wire[:40], "fresh": fresh[:40]}))
                break
            try:
                got = dec.getProtocolTreeNode(bytearray(wire))
            except Exception as e:
                vs.append(("C01:pair:decode-raises", "%s: %r then %r: %s" % (mode, a, b, exc_name(e)), case, str(e)[:200]))
                break
            d = strict_diff(got, t)
            if d:
                vs.append(("C01:pair:mismatch", "value written after another value comes back changed (%s: %r then %r): %s" % (mode, a, b, d), case, d))
                break
        if vs:
            break
    return vs, evals


def pair_items():
    return [(i, m) for i in range(len(PAIR_STRINGS)) for m in ("same-stanza", "next-stanza", "after-failed-stanza")]


def run(ctx):
    cases = gen_cases(ctx.quick)
    big = [c for c in cases if c["big"]]
    small = [c for c in cases if not c["big"]]
    ctx.sample({"cls": small[0]["cls"], "tree": small[0]["tree"]})
    ctx.sample({"cls": small[len(small) // 2]["cls"], "tree": small[len(small) // 2]["tree"]})
    ctx.sample({"cls": big[0]["cls"], "tree": big[0]["tree"]})
    ctx.sample({"cls": big[-1]["cls"], "tree": big[-1]["tree"]})
    # seed permutes visiting order only; simplest-first order is kept for seed 0
    work = [[c] for c in shuffled(big, ctx.seed, "c01-big")] + chunks(shuffled(small, ctx.seed, "c01-small"), 150)

    evals = 0
    forms_total, per_cls = {}, {}
    nontrivial, allkeys, outcomes = set(), set(), set()
    late = []
    for i, (vs, e, forms, kn, ka, oc, pc) in enumerate(ctx.pimap(run_chunk, work)):
        if i < len(big):
            late.extend(vs)          # heavy cases are scheduled first but reported last (smallest counterexample first)
        else:
            ctx.add_violations(vs)
        evals += e
        for f, n in forms.items():
            forms_total[f] = forms_total.get(f, 0) + n
        for c, n in pc.items():
            per_cls[c] = per_cls.get(c, 0) + n
        nontrivial.update(kn)
        allkeys.update(ka)
        outcomes.update(tuple(o) for o in oc)

    ctx.add_violations(late)
    pair_evals = 0
    for vs, e in ctx.pimap(check_string_pairs, pair_items(), 4):
        pair_evals += e
        ctx.add_violations(vs)
    evals += pair_evals

    ctx.coverage.update({
        "evaluations": evals,
        "distinct_nontrivial": len(nontrivial),
        "rule": "distinct trees (sha1 of the tree spec) whose real encoding, as parsed by the reference decoder, uses at "
                "least one of: double-byte token, JID pair, nibble/hex packing, 20/31-bit length, 16-bit list header",
        "exhaustive": True,
        "cases": len(cases),
        "distinct_trees": len(allkeys),
        "trees_per_class": per_cls,
        "trees_using_wire_form": forms_total,
        "distinct_outcomes": len(outcomes),
        "outcome_kinds": sorted(set(o for _, o in outcomes)),
        "bound": ("quick: all string classes x 3 positions at depth 1 and 3, all size classes once, big-node positions at depth<=3, "
                  "product of 8 leaf shapes (sequences<=2) at depth<=3" if ctx.quick else
                  "thorough: string classes x 3 positions at depth 1..3, full triple product of %d representative strings, "
                  "size classes x patterns at depth 1..3, attribute counts up to 32767, child counts up to 65535, "
                  "product of 16 leaf shapes (sequences<=3) at depth<=3, big-node positions x 3 patterns, one 16 MiB-64 payload; "
                  "two >=1 MiB payloads in one frame restricted to 4 arrangements" % 30),
        "explanation": "each case = real WriteEncoder.protocolTreeNodeToBytes -> real ReadDecoder.getProtocolTreeNode, then "
                       "(if that held) real YowCoderLayer.send -> receive inside a real YowStack; strict own equality",
    })
    ctx.assume("well-formedness: the reserved stream words and strings ending in '@' are excluded also as JID components "
               "(user/server parts are string positions on the wire)")
    ctx.assume("payload byte patterns are zero / 0xFF / ramp; the codec does not inspect payload bytes")
    ctx.assume("class labels and wire-form coverage counters use the frozen reference token table (vf/ref/tokens.json); "
               "the verdict does not")


def replay(ctx, case):
    if "string_pair" in case:
        return check_string_pairs((PAIR_STRINGS.index(case["string_pair"][0]), case["mode"]))[0]
    vs, evals, forms, outcome = check_case({"cls": case["cls"], "tree": case["tree"]})
    return vs
