"""C18 Stack assembly and event propagation work for every composition.

Exhaustive enumeration (LEVEL exploration) of every stack shape up to a depth
bound whose elements are a recording layer or a parallel group of 1-4 recording
layers (distinct generated classes), each built through every construction
path the library offers:

  ctor    YowStack(tuple, reversed=False) | YowStack(tuple, reversed=True) |
          YowStackBuilder.push..build | builder with a junk layer pushed and
          popped before the first and after every real push
  elem    plain layers given as classes | as instances
  group   explicit YowParallelLayer(...) | implicit tuple

For every (shape, path) the REAL stack is probed and compared with the
independent list-walk model in vf/ref/stack_model.py:

  structure   getLayer(i) for every i, nothing beyond the top, instances kept
  interfaces  getLayerInterface(cls) for every class (via the stack, via
              another layer, own interface, absent class)
  data        stack.send from the top, stack.receive from the bottom: per
              layer the exact sequence of items it is handed (every recording
              layer forwards item + (own id,), so an item names its path)
  events      emitEvent / broadcastEvent from every layer and from the
              stack-level entry points, normal and detached, with the single
              consumer (onEvent returns True) at every layer or nowhere.
              Detached events: the class-level queue is emptied before every
              execution and the REAL YowStack.loop body is run one turn at a
              time (time.sleep in yowstack is replaced by a sleep that leaves
              the loop).

plus the default helpers (real layers, constructed only - nothing connects):
getProtocolLayers / getDefaultLayers for all 16 flag combinations (positional
and keyword), pushDefaultLayers, getDefaultStack for all 64 combinations of
(extra top layer, axolotl, 4 flags), and the YOWSUP_* tuples exported by
yowsup/stacks/__init__.py (there is no YowsupStack helper class in the pinned
tree).

Judgement calls (oracle kept no stronger than the statement):
 J1 stack order inside a parallel group = declaration order, in both
    directions (that is also the order in which data is offered).  A consumer
    inside a group stops the walk: earlier members must have seen the event,
    members declared after it MAY see it (same level; the implementation's
    `stopEvent or s.onEvent()` short-circuit skips them, which is the strict
    "until a layer consumes it" reading) - not a violation either way.
    Elements beyond the consumer's element must not see it.
 J2 members of the emitter's own group (emitter included) may see the event
    at most once (Appendix B; the statement does not demand that siblings are
    notified).  They are not above (below) the emitter, so their seeing or
    "consuming" the event does not end the walk: every layer strictly above
    (below) the group must still see it exactly once, in order, until one of
    THOSE layers consumes it.
 J3 detached: the emitter's direct neighbour element is notified inside the
    emitEvent call itself (by design: `if not upper.onEvent(ev): defer
    upper.emitEvent`); the stack-level entry points notify the end element and
    let it emit, so two elements are synchronous there.  Accepted.  Every
    layer beyond that must see the event only while the loop runs, and the
    walk must be complete after the loop turn that picks up the event (one
    deferred event = one hand-off to the loop; sig ...:multi-handoff
    otherwise) - "deferred events being delivered when the stack's loop runs".
 J4 data: per layer the order and multiplicity of the items it is handed is
    compared; the global interleaving between different layers is not.
 J5 default helpers: transport and encryption elements must be exactly the
    model's, in order; the protocol group is compared as a set without
    duplicates (members are parallel).  `axolotl` of getDefaultStack does not
    change the expectation (the statement: "the transport and encryption
    layers plus exactly the selected optional protocol modules").
"""
import importlib
import itertools

from vf import env
env.bootstrap()

from yowsup.layers import YowLayer, YowParallelLayer, YowLayerEvent, YowLayerInterface
from yowsup.stacks import yowstack as _ys
from yowsup.stacks.yowstack import YowStack, YowStackBuilder
import yowsup.stacks as _stacks_pkg
from vf.ref import stack_model as M

PROPERTY = "C18"
LEVEL = "exploration"

MAX_GROUP = 4
MAX_DEPTH = 6
N_CLASSES = MAX_GROUP * MAX_DEPTH

# ---------------------------------------------------------------------------
# recording layers

LOG = []            # (kind, layer id, payload)
CONSUMER = [None]   # id of the layer whose onEvent returns True
REG = {}            # layer id -> live instance of the stack under test


class RecIface(YowLayerInterface):
    pass


class RecBase(YowLayer):
    vf_id = None

    def __init__(self):
        YowLayer.__init__(self)
        self.interface = RecIface(self)
        REG[self.vf_id] = self

    def send(self, data):
        LOG.append(("s", self.vf_id, data))
        self.toLower(data + (self.vf_id,))

    def receive(self, data):
        LOG.append(("r", self.vf_id, data))
        self.toUpper(data + (self.vf_id,))

    def onEvent(self, ev):
        LOG.append(("e", self.vf_id, ev.getName()))
        return self.vf_id == CONSUMER[0]


CLASSES = [type("Rec%02d" % i, (RecBase,), {"vf_id": i}) for i in range(N_CLASSES)]
Junk = type("RecJunk", (RecBase,), {"vf_id": -1})
Extra = type("RecExtraTop", (RecBase,), {"vf_id": -2})


# ---------------------------------------------------------------------------
# the loop: run the real YowStack.loop body one turn at a time

class _LeaveLoop(Exception):
    pass


class _OneTurnTime(object):
    def __init__(self):
        import time as _t
        self._t = _t

    def sleep(self, s):
        raise _LeaveLoop()

    def __getattr__(self, name):
        return getattr(self._t, name)


_ys.time = _OneTurnTime()


def _queue():
    return YowStack._YowStack__detachedQueue


def drain_queue():
    """Class-level state: forget anything an earlier execution left behind."""
    q = _queue()
    n = 0
    while True:
        try:
            q.get(False)
            n += 1
        except Exception:
            return n


def loop_turn(stack):
    try:
        stack.loop()
    except _LeaveLoop:
        return
    raise RuntimeError("YowStack.loop returned")


# ---------------------------------------------------------------------------
# construction paths

CTORS = ("tuple", "tuple_rev", "builder", "builder_pop")
CANON = ("tuple", "cls", "explicit")


def paths_for(shape):
    singles = any(k == 0 for k in shape)
    groups = any(k > 0 for k in shape)
    out = []
    for ctor in CTORS:
        for elem in (("cls", "inst") if singles else ("cls",)):
            for grp in (("explicit", "implicit") if groups else ("explicit",)):
                out.append((ctor, elem, grp))
    return out


def build(shape, path):
    """Returns (stack, given) where given = the element objects handed to the library, bottom first."""
    ctor, elem, grp = path
    REG.clear()
    given = []
    n = 0
    for k in shape:
        if k == 0:
            c = CLASSES[n]
            n += 1
            given.append(c() if elem == "inst" else c)
        else:
            cl = tuple(CLASSES[n:n + k])
            n += k
            given.append(cl if grp == "implicit" else YowParallelLayer(cl))
    if ctor == "tuple":
        stack = YowStack(tuple(given), reversed=False)
    elif ctor == "tuple_rev":
        stack = YowStack(tuple(given[::-1]), reversed=True)
    else:
        b = YowStackBuilder()
        pop = ctor == "builder_pop"
        if pop:
            b.pop()                       # popping an empty builder is a no-op
            b.push(Junk).pop()
        for g in given:
            r = b.push(g)
            if r is not b:
                raise AssertionError("push does not return the builder")
            if pop:
                b.push(Junk)
                b.push(Junk)
                b.pop().pop()
        b.setProp("vf.prop", "vf.value")
        stack = b.build()
    return stack, given


# ---------------------------------------------------------------------------
# probes

def V(sig, what, shape, path, probe, detail):
    case = {"kind": "shape", "shape": list(shape), "path": list(path), "probe": probe}
    return ("C18:" + sig, what + " [shape=%s path=%s]" % (list(shape), "/".join(path)), case, detail)


def desc(e):
    return "stack" if e is None else "layer %d" % e


def check_structure(stack, shape, path, given):
    vs = []
    elems = M.layout(shape)
    probe = {"t": "structure"}
    for i, k in enumerate(shape):
        try:
            inst = stack.getLayer(i)
        except Exception as e:
            vs.append(V("structure:missing", "getLayer(%d) raised %s" % (i, type(e).__name__), shape, path, probe, repr(e)))
            return vs
        if k == 0:
            want = CLASSES[elems[i][0]]
            ok = type(inst) is want and REG.get(elems[i][0]) is inst
            if ok and path[1] == "inst" and inst is not given[i]:
                ok = False
        else:
            ok = type(inst) is YowParallelLayer and \
                [type(s) for s in inst.sublayers] == [CLASSES[l] for l in elems[i]] and \
                all(REG.get(l) is s for l, s in zip(elems[i], inst.sublayers))
            if ok and path[2] == "explicit" and inst is not given[i]:
                ok = False
        if not ok:
            vs.append(V("structure:wrong-layer", "position %d does not hold the given layer" % i, shape, path, probe,
                        {"position": i, "got": str(type(inst)), "expected_element": elems[i]}))
            return vs
        if inst.getStack() is not stack:
            vs.append(V("structure:no-stack", "layer at position %d does not know its stack" % i, shape, path, probe, None))
    try:
        extra = stack.getLayer(len(shape))
        vs.append(V("structure:extra-layer", "stack holds more layers than given", shape, path, probe, str(type(extra))))
    except IndexError:
        pass
    for lid, inst in REG.items():
        if lid >= 0 and inst.getStack() is not stack:
            vs.append(V("structure:no-stack", "layer %d does not know its stack" % lid, shape, path, probe, None))
            break
    if path[0].startswith("builder"):
        if stack.getProp("vf.prop") != "vf.value" or REG[0].getProp("vf.prop") != "vf.value":
            vs.append(V("structure:builder-prop", "property set on the builder is not visible in the stack", shape, path, probe, None))
    return vs


def check_interfaces(stack, shape, path):
    vs = []
    elems = M.layout(shape)
    n = M.n_layers(shape)
    via = REG[n - 1] if n > 1 else REG[0]
    for lid in range(n):
        probe = {"t": "interface", "layer": lid}
        try:
            got = stack.getLayerInterface(CLASSES[lid])
            got2 = via.getLayerInterface(CLASSES[lid])
            own = REG[lid].getLayerInterface()
        except Exception as e:
            vs.append(V("raises:getLayerInterface", "getLayerInterface raised %s" % type(e).__name__, shape, path, probe, repr(e)))
            break
        want = REG[M.interface_expect(elems, lid)].interface
        in_group = shape[M.element_of(elems, lid)] > 0
        kind = "group-member" if in_group else "plain"
        if got is not want:
            vs.append(V("interface:by-class:" + kind, "stack.getLayerInterface(class of layer %d) is not that layer's interface" % lid,
                        shape, path, probe, {"got": repr(got)}))
        if got2 is not want:
            vs.append(V("interface:via-layer:" + kind, "layer.getLayerInterface(class of layer %d) is not that layer's interface" % lid,
                        shape, path, probe, {"got": repr(got2)}))
        if own is not want:
            vs.append(V("interface:own", "getLayerInterface() of layer %d is not its own interface" % lid, shape, path, probe, None))
    try:
        absent = stack.getLayerInterface(Junk)
        if absent is not None:
            vs.append(V("interface:absent", "interface found for a class that is not in the stack", shape, path,
                        {"t": "interface", "layer": -1}, repr(absent)))
    except Exception as e:
        vs.append(V("raises:getLayerInterface", "getLayerInterface(absent class) raised %s" % type(e).__name__, shape, path,
                    {"t": "interface", "layer": -1}, repr(e)))
    return vs, n + 1


def probe_data(stack, shape, path, direction):
    elems = M.layout(shape)
    probe = {"t": "data", "dir": direction}
    drain_queue()
    del LOG[:]
    CONSUMER[0] = None
    try:
        if direction == "send":
            stack.send(())
        else:
            stack.receive(())
    except Exception as e:
        return [V("raises:data-%s" % direction, "stack.%s raised %s" % (direction, type(e).__name__), shape, path, probe, repr(e))], None
    want_kind = "s" if direction == "send" else "r"
    got = {}
    spurious = []
    for kind, lid, item in LOG:
        if kind == want_kind:
            got.setdefault(lid, []).append(item)
        else:
            spurious.append((kind, lid))
    del LOG[:]
    vs = []
    exp = M.data_expect(elems, direction)
    if spurious:
        vs.append(V("data-%s:spurious-calls" % direction, "data travelling one way caused calls of another kind",
                    shape, path, probe, spurious[:6]))
    if got != exp:
        bad = sorted(l for l in exp if got.get(l, []) != exp[l])
        l = bad[0] if bad else sorted(set(got) - set(exp))[0]
        g, x = got.get(l, []), exp.get(l, [])
        if len(g) < len(x) and g == x[:len(g)] or not g:
            cls = "missing-items"
        elif sorted(g) == sorted(x):
            cls = "order"
        elif len(g) > len(x):
            cls = "extra-items"
        else:
            cls = "wrong-items"
        vs.append(V("data-%s:%s" % (direction, cls),
                    "%s: layer %d was handed %d item(s) on %s, the model says %d" % (cls, l, len(g), direction, len(x)),
                    shape, path, probe, {"layer": l, "got": g[:8], "expected": x[:8], "layers_off": bad[:8]}))
    if _queue().qsize():
        vs.append(V("data-%s:queued" % direction, "data left callbacks in the detached queue", shape, path, probe, None))
        drain_queue()
    return vs, sum(len(v) for v in got.values())


def probe_event(stack, shape, path, emitter, direction, detached, consumer):
    """One execution.  Returns (violations, nontrivial, outcome key)."""
    elems = M.layout(shape)
    probe = {"t": "event", "emitter": emitter, "dir": direction, "detached": detached, "consumer": consumer}
    mode = "detached" if detached else "normal"
    pre = "event:%s:%s:" % (direction, mode)
    where = "%s %s from %s, consumer %s" % (mode, direction, desc(emitter), consumer)
    drain_queue()
    del LOG[:]
    CONSUMER[0] = consumer
    ev = YowLayerEvent("vf.ev", detached=True) if detached else YowLayerEvent("vf.ev")
    target = stack if emitter is None else REG[emitter]
    vs = []
    try:
        (target.emitEvent if direction == "emit" else target.broadcastEvent)(ev)
    except Exception as e:
        CONSUMER[0] = None
        drain_queue()
        return [V("raises:" + pre[:-1], "%s raised %s" % (where, type(e).__name__), shape, path, probe, repr(e))], False, None
    stray_calls = [(k, l) for k, l, _ in LOG if k != "e"]
    seen_sync = [l for k, l, _ in LOG if k == "e"]
    del LOG[:]
    queued = _queue().qsize()
    turns = 0
    left_after_first = 0
    try:
        while _queue().qsize() and turns < 64:
            loop_turn(stack)
            turns += 1
            if turns == 1:
                left_after_first = _queue().qsize()
    except Exception as e:
        CONSUMER[0] = None
        drain_queue()
        return [V("raises:" + pre + "loop", "loop raised %s delivering %s" % (type(e).__name__, where), shape, path, probe, repr(e))], False, None
    stray_calls += [(k, l) for k, l, _ in LOG if k != "e"]
    seen_loop = [l for k, l, _ in LOG if k == "e"]
    del LOG[:]
    CONSUMER[0] = None
    if drain_queue():
        vs.append(V(pre + "endless-handoff", "%s: the loop never finishes delivering" % where, shape, path, probe, None))
    x = M.event_expect(elems, emitter, direction, consumer)
    for cls, detail in M.judge_event(x, seen_sync, seen_loop, detached):
        if cls == "missed" and consumer in x.own:
            cls = "hidden-by-own-group"      # a member of the emitter's own group ended the walk
        detail = dict(detail, seen_in_call=seen_sync, seen_in_loop=seen_loop, required=x.required,
                      optional=sorted(x.optional))
        vs.append(V(pre + cls, "%s: %s" % (where, cls), shape, path, probe, detail))
    if stray_calls:
        vs.append(V(pre + "spurious-calls", "%s caused send/receive calls" % where, shape, path, probe, stray_calls[:6]))
    if not detached and queued:
        vs.append(V(pre + "queued", "%s left %d callback(s) in the detached queue" % (where, queued), shape, path, probe, None))
    if detached and queued > 1:
        vs.append(V(pre + "multi-handoff", "%s queued %d callbacks at once" % (where, queued), shape, path, probe, None))
    elif detached and left_after_first:
        vs.append(V(pre + "multi-handoff", "%s: one loop turn did not complete the walk (%d turns needed)" % (where, turns),
                    shape, path, probe, {"turns": turns, "seen_in_call": seen_sync, "seen_in_loop": seen_loop}))
    if detached and ev.isDetached() and turns:
        # informational only: not part of the statement -> not reported
        pass
    return vs, len(x.required) >= 2, (direction, detached, len(seen_sync), len(seen_loop), turns)


def event_matrix(shape, full):
    """(emitter, direction, detached, consumer) tuples, simplest first."""
    n = M.n_layers(shape)
    elems = M.layout(shape)
    if full:
        emitters = [None] + list(range(n))
        consumers = [None] + list(range(n))
        for det in (False, True):
            for d in ("emit", "broadcast"):
                for em in emitters:
                    for c in consumers:
                        yield (em, d, det, c)
    else:
        mid = elems[len(elems) // 2][-1]
        for det in (False, True):
            for d in ("emit", "broadcast"):
                yield (None, d, det, None)
                yield (None, d, det, mid)
        for i, e in enumerate(elems):
            for d in ("emit", "broadcast"):
                yield (e[0], d, False, None)
                yield (e[-1], d, True, None)
                if shape[i] > 0:
                    # consumer inside the emitter's own group (sibling, or the emitter itself for a group of 1)
                    yield (e[0], d, False, e[-1])
                    yield (e[-1], d, True, e[0])


def run_shape_path(shape, path, full, only_probe=None):
    """All probes of one (shape, construction path) on one real stack."""
    vs = []
    cnt = {"evals": 0, "nontrivial": 0, "events": 0, "data_items": 0, "aborted_matrices": 0}
    outcomes = set()
    drain_queue()
    try:
        stack, given = build(shape, path)
    except Exception as e:
        vs.append(V("raises:construct:%s" % path[0], "building the stack raised %s: %s" % (type(e).__name__, e),
                    shape, path, {"t": "structure"}, repr(e)))
        return vs, cnt, outcomes
    t = only_probe["t"] if only_probe else None
    if t in (None, "structure"):
        s = check_structure(stack, shape, path, given)
        vs += s
        cnt["evals"] += 1
        if s:
            return vs, cnt, outcomes          # everything else would only repeat it
    if t in (None, "interface"):
        s, k = check_interfaces(stack, shape, path)
        vs += s
        cnt["evals"] += k
        cnt["nontrivial"] += k - 1
    first = {}
    if t in (None, "data"):
        for d in ("send", "receive"):
            if only_probe and only_probe.get("dir") != d:
                continue
            s, items = probe_data(stack, shape, path, d)
            vs += s
            first[d] = bool(s)
            cnt["evals"] += 1
            cnt["data_items"] += items or 0
            if len(shape) >= 2:
                cnt["nontrivial"] += 1
    if t in (None, "event"):
        if only_probe:
            matrix = [(only_probe["emitter"], only_probe["dir"], only_probe["detached"], only_probe["consumer"])]
        else:
            matrix = event_matrix(shape, full)
        failing = 0
        for em, d, det, c in matrix:
            if failing >= 16:
                # this stack is broken; further probes only repeat it (and runaway recursion is slow).
                # Never taken on a tree without violations, so the enumerated space stays complete there.
                cnt["aborted_matrices"] = 1
                break
            s, nt, oc = probe_event(stack, shape, path, em, d, det, c)
            failing += 1 if s else 0
            vs += s
            cnt["evals"] += 1
            cnt["events"] += 1
            if nt:
                cnt["nontrivial"] += 1
            if oc is not None:
                outcomes.add(oc)
    if t is None:
        # the stack is reused for all probes: it must be as good as new afterwards
        for d in ("send", "receive"):
            s, _ = probe_data(stack, shape, path, d)
            if bool(s) != first[d]:
                vs.append(V("state-leak", "the same stack behaves differently after the event probes", shape, path,
                            {"t": "data", "dir": d}, None))
    return vs, cnt, outcomes


def _vkey(v):
    c = v[2]
    return (len(c["shape"]), sum(1 if k == 0 else k for k in c["shape"]), c["shape"], c["path"] != list(CANON), c["path"])


def work(item):
    shape, full_all = item
    best = {}
    total = 0
    cnt = {"evals": 0, "nontrivial": 0, "events": 0, "data_items": 0, "stacks": 0, "full_stacks": 0, "aborted_matrices": 0}
    outcomes = set()
    for path in paths_for(shape):
        full = full_all or path == CANON
        vs, c, oc = run_shape_path(shape, path, full)
        for k in c:
            cnt[k] += c[k]
        cnt["stacks"] += 1
        cnt["full_stacks"] += 1 if full else 0
        outcomes |= oc
        total += len(vs)
        for v in vs:
            if v[0] not in best:
                best[v[0]] = v
    return list(best.values()), total, cnt, sorted(outcomes, key=repr)


def all_shapes(max_depth):
    for d in range(1, max_depth + 1):
        for s in itertools.product(range(0, MAX_GROUP + 1), repeat=d):
            yield s


# ---------------------------------------------------------------------------
# default helpers (real layers; constructed, never connected)

NAMES = {
    "network": ("yowsup.layers.network.layer", "YowNetworkLayer"),
    "noise_segments": ("yowsup.layers.noise.layer_noise_segments", "YowNoiseSegmentsLayer"),
    "noise": ("yowsup.layers.noise.layer", "YowNoiseLayer"),
    "coder": ("yowsup.layers.coder.layer", "YowCoderLayer"),
    "logger": ("yowsup.layers.logger.layer", "YowLoggerLayer"),
    "axolotl_control": ("yowsup.layers.axolotl.layer_control", "AxolotlControlLayer"),
    "axolotl_send": ("yowsup.layers.axolotl.layer_send", "AxolotlSendLayer"),
    "axolotl_receive": ("yowsup.layers.axolotl.layer_receive", "AxolotlReceivelayer"),
    "auth": ("yowsup.layers.auth.layer_authentication", "YowAuthenticationProtocolLayer"),
    "messages": ("yowsup.layers.protocol_messages.layer", "YowMessagesProtocolLayer"),
    "receipts": ("yowsup.layers.protocol_receipts.layer", "YowReceiptProtocolLayer"),
    "acks": ("yowsup.layers.protocol_acks.layer", "YowAckProtocolLayer"),
    "presence": ("yowsup.layers.protocol_presence.layer", "YowPresenceProtocolLayer"),
    "ib": ("yowsup.layers.protocol_ib.layer", "YowIbProtocolLayer"),
    "iq": ("yowsup.layers.protocol_iq.layer", "YowIqProtocolLayer"),
    "notifications": ("yowsup.layers.protocol_notifications.layer", "YowNotificationsProtocolLayer"),
    "contacts": ("yowsup.layers.protocol_contacts.layer", "YowContactsIqProtocolLayer"),
    "chatstate": ("yowsup.layers.protocol_chatstate.layer", "YowChatstateProtocolLayer"),
    "calls": ("yowsup.layers.protocol_calls.layer", "YowCallsProtocolLayer"),
    "groups": ("yowsup.layers.protocol_groups.layer", "YowGroupsProtocolLayer"),
    "media": ("yowsup.layers.protocol_media.layer", "YowMediaProtocolLayer"),
    "privacy": ("yowsup.layers.protocol_privacy.layer", "YowPrivacyProtocolLayer"),
    "profiles": ("yowsup.layers.protocol_profiles.layer", "YowProfilesProtocolLayer"),
}
_CLS2NAME = {}


def cls2name(c):
    if not _CLS2NAME:
        for n, (mod, attr) in NAMES.items():
            _CLS2NAME[getattr(importlib.import_module(mod), attr)] = n
        _CLS2NAME[Extra] = "extra"
    return _CLS2NAME.get(c, "?" + getattr(c, "__name__", repr(c)))


def describe_given(layers):
    """Element objects as handed out by a helper -> names (list for a parallel group)."""
    out = []
    for e in layers:
        if isinstance(e, YowParallelLayer):
            out.append([cls2name(type(s)) for s in e.sublayers])
        elif type(e) is tuple:
            out.append([cls2name(c) for c in e])
        elif isinstance(e, YowLayer):
            out.append(cls2name(type(e)))
        else:
            out.append(cls2name(e))
    return out


def describe_stack(stack):
    out, insts = [], []
    i = 0
    while True:
        try:
            inst = stack.getLayer(i)
        except IndexError:
            break
        if type(inst) is YowParallelLayer:
            out.append([cls2name(type(s)) for s in inst.sublayers])
            insts.append(list(inst.sublayers))
        else:
            out.append(cls2name(type(inst)))
            insts.append([inst])
        i += 1
        if i > 64:
            break
    return out, insts


def same_elements(got, exp):
    """exp: names, frozenset = parallel group compared as a duplicate-free set."""
    if len(got) != len(exp):
        return False
    for g, x in zip(got, exp):
        if isinstance(x, frozenset):
            if not isinstance(g, list) or len(g) != len(set(g)) or set(g) != set(x):
                return False
        elif g != x:
            return False
    return True


def show(exp):
    return [sorted(x) if isinstance(x, frozenset) else x for x in exp]


def DV(sig, what, case, detail):
    return ("C18:" + sig, what, dict(case, kind="default"), detail)


def walk_real_stack(stack, case, helper, extra_expected):
    """A stack of real layers must 'work': every layer wired, an (unhandled) event walks through all of
    them exactly once in order, interfaces are found by class."""
    vs = []
    names, insts = describe_stack(stack)
    flat = [s for e in insts for s in e]
    seen = []

    def wrap(idx, inst):
        orig = inst.onEvent

        def rec(ev):
            if ev.getName() == "vf.walk":
                seen.append(idx)
            return orig(ev)
        inst.onEvent = rec
    for idx, inst in enumerate(flat):
        wrap(idx, inst)
    for direction in ("emit", "broadcast"):
        for detached in (False, True):
            drain_queue()
            del seen[:]
            del LOG[:]
            CONSUMER[0] = None
            ev = YowLayerEvent("vf.walk", detached=True) if detached else YowLayerEvent("vf.walk")
            try:
                (stack.emitEvent if direction == "emit" else stack.broadcastEvent)(ev)
                turns = 0
                while _queue().qsize() and turns < 64:
                    loop_turn(stack)
                    turns += 1
            except Exception as e:
                vs.append(DV("raises:defaults:%s:event-walk" % helper, "event walk through the %s stack raised %s" % (helper, type(e).__name__),
                             case, repr(e)))
                drain_queue()
                continue
            drain_queue()
            got = list(seen)
            del LOG[:]
            order = list(range(len(insts))) if direction == "emit" else list(range(len(insts) - 1, -1, -1))
            exp = []
            base = 0
            starts = []
            for e in insts:
                starts.append(base)
                base += len(e)
            for i in order:
                exp += list(range(starts[i], starts[i] + len(insts[i])))
            if got != exp:
                vs.append(DV("defaults:%s:event-walk" % helper,
                             "%s%s through the %s stack is not seen once by every layer in order" % ("detached " if detached else "", direction, helper),
                             case, {"got": got, "expected": exp, "layers": names}))
    for inst in flat:
        try:
            got = stack.getLayerInterface(type(inst))
        except Exception as e:
            vs.append(DV("raises:defaults:%s:getLayerInterface" % helper, "getLayerInterface raised %s" % type(e).__name__, case, repr(e)))
            break
        if got is not inst.interface:
            vs.append(DV("defaults:%s:interface" % helper, "interface of %s not found by class" % cls2name(type(inst)), case, None))
        if inst.getStack() is not stack:
            vs.append(DV("defaults:%s:no-stack" % helper, "%s does not know its stack" % cls2name(type(inst)), case, None))
    for inst in flat:
        if "onEvent" in inst.__dict__:
            del inst.__dict__["onEvent"]
    return vs


def check_defaults(case):
    """case: {"helper": ..., "flags": [g, m, pv, pf], "style": "pos"|"kw"|"none", "layer": bool, "axolotl": bool|None}"""
    vs = []
    helper = case["helper"]
    flags = case.get("flags")
    kw = dict(zip(("groups", "media", "privacy", "profiles"), flags)) if flags is not None else {}
    eff = flags if flags is not None else [True, True, True, True]
    REG.clear()
    drain_queue()
    try:
        if helper == "getProtocolLayers":
            r = YowStackBuilder.getProtocolLayers(*flags) if case["style"] == "pos" else \
                YowStackBuilder.getProtocolLayers(**kw)
            got = [cls2name(c) for c in r]
            exp = M.protocol_expect(*eff)
            if len(got) != len(set(got)) or set(got) != set(exp):
                vs.append(DV("defaults:getProtocolLayers:content", "getProtocolLayers%s: not the basic modules plus exactly the selected ones" % (tuple(flags),),
                             case, {"got": got, "expected": exp}))
            return vs
        if helper == "getCoreLayers":
            got = describe_given(YowStackBuilder.getCoreLayers())
            if got != M.TRANSPORT:
                vs.append(DV("defaults:getCoreLayers:content", "getCoreLayers is not the transport in bottom-up order", case,
                             {"got": got, "expected": M.TRANSPORT}))
            return vs
        if helper in ("getDefaultLayers", "pushDefaultLayers"):
            if helper == "pushDefaultLayers":
                b = YowStackBuilder()
                b.pushDefaultLayers()
                layers = b.layers
            elif case["style"] == "pos":
                layers = YowStackBuilder.getDefaultLayers(*flags)
            elif case["style"] == "kw":
                layers = YowStackBuilder.getDefaultLayers(**kw)
            else:
                layers = YowStackBuilder.getDefaultLayers()
            got = describe_given(layers)
            exp = M.default_layers_expect(*eff)
            if not same_elements(got, exp):
                vs.append(DV("defaults:%s:content" % helper, "%s%s: not transport + encryption + exactly the selected modules, in order" % (helper, tuple(eff)),
                             case, {"got": got, "expected": show(exp)}))
                return vs
            stack = b.build() if helper == "pushDefaultLayers" else YowStack(layers, reversed=False)
            extra = []
        elif helper == "getDefaultStack":
            a = {}
            if case.get("layer"):
                a["layer"] = Extra
            if case.get("axolotl") is not None:
                a["axolotl"] = case["axolotl"]
            a.update(kw)
            stack = YowStackBuilder.getDefaultStack(**a)
            exp = M.default_layers_expect(*eff)
            extra = ["extra"] if case.get("layer") else []
        elif helper == "constant":
            tup = getattr(_stacks_pkg, case["name"])
            stack = YowStack(tup, reversed=True)
            exp = [frozenset(x) if isinstance(x, list) else x for x in describe_given(tup)][::-1]
            extra = []
        else:
            raise ValueError(helper)
    except Exception as e:
        vs.append(DV("raises:%s" % helper, "%s(%s) raised %s: %s" % (helper, ", ".join("%s=%s" % kv for kv in sorted(case.items()) if kv[0] not in ("helper", "kind")),
                                                               type(e).__name__, e), case, repr(e)))
        return vs
    got, _ = describe_stack(stack)
    if not same_elements(got, exp + extra):
        vs.append(DV("defaults:%s:stack-content" % helper, "%s stack does not hold transport + encryption + exactly the selected modules (+ the extra top layer), in order" % helper,
                     case, {"got": got, "expected": show(exp + extra)}))
        return vs
    vs += walk_real_stack(stack, case, helper, extra)
    return vs


def default_cases(seed):
    from vf.runner import shuffled
    combos = list(itertools.product((True, False), repeat=4))
    cases = [{"helper": "getCoreLayers"}]
    cases += [{"helper": "getDefaultStack", "flags": None, "layer": False, "axolotl": None}]
    cases += [{"helper": "getDefaultLayers", "flags": None, "style": "none"}, {"helper": "pushDefaultLayers", "flags": None}]
    for name in ("YOWSUP_FULL_STACK",):
        cases.append({"helper": "constant", "name": name})
    rest = []
    for f in combos:
        for style in ("pos", "kw"):
            rest.append({"helper": "getProtocolLayers", "flags": list(f), "style": style})
            rest.append({"helper": "getDefaultLayers", "flags": list(f), "style": style})
        for layer in (False, True):
            for ax in (False, True):
                rest.append({"helper": "getDefaultStack", "flags": list(f), "layer": layer, "axolotl": ax})
    # calls are made one after the other in ONE process: a helper that accumulates state between calls
    # (e.g. appending to a shared sequence) is caught whatever the order; the seed permutes the order only
    return cases + shuffled(rest, seed, "c18-defaults")


# ---------------------------------------------------------------------------

# ---------------------------------------------------------------------------
# events handled through the library's own handler registration (@EventCallback): several instances of one layer
# class - in one stack and in stacks built one after the other in the same process - each see their stack's event

CB_LOG = []


def check_callback_instances(case):
    from yowsup.layers import EventCallback, YowParallelLayer
    ctor, order, group = case["ctor"], case["order"], case["group"]

    class CbA(YowLayer):
        @EventCallback("vf.cb")
        def on_cb(self, ev):
            CB_LOG.append(("A", id(self)))
            return False

    class CbB(CbA):
        @EventCallback("vf.cb2")
        def on_cb2(self, ev):
            CB_LOG.append(("B2", id(self)))
            return False

    vs = []

    def bad(sig, what, detail=None):
        vs.append(("C18:callback:" + sig, what, {"kind": "callback", "ctor": ctor, "order": order, "group": group}, detail))

    def build_one():
        classes = {"AAB": (CbA, CbA, CbB), "BAA": (CbB, CbA, CbA), "ABA": (CbA, CbB, CbA)}[order]
        if group:
            layers = (CLASSES[0], YowParallelLayer(classes), CLASSES[1]) if ctor == "tuple" else None
            if ctor == "builder":
                layers = (CLASSES[0], classes, CLASSES[1])
        else:
            layers = (CLASSES[0],) + classes + (CLASSES[1],)
        if ctor == "tuple":
            return YowStack(layers, reversed=False)
        b = YowStackBuilder()
        for l in layers:
            b.push(l)
        return b.build()

    def cb_instances(stack):
        out = []
        i = 0
        while True:
            try:
                lay = stack.getLayer(i)
            except Exception:
                break
            if lay is None:
                break
            if isinstance(lay, YowParallelLayer):
                out.extend(x for x in lay.sublayers if hasattr(x, "on_cb"))
            elif hasattr(lay, "on_cb"):
                out.append(lay)
            i += 1
        return out

    stacks = []
    for round_ in range(2):
        drain_queue()
        try:
            st = build_one()
        except Exception as e:
            bad("build-raises", "building the stack raised %r" % (e,))
            return vs
        stacks.append(st)          # the earlier stack stays alive, as after a reconnect that builds a new one
        insts = cb_instances(st)
        if len(insts) != 3:
            bad("harness", "expected three handler layers, found %d" % len(insts))
            return vs
        for name, emit in (("vf.cb", "emit"), ("vf.cb", "broadcast"), ("vf.cb2", "emit")):
            del CB_LOG[:]
            if emit == "emit":
                st.getLayer(0).emitEvent(YowLayerEvent(name))
            else:
                st.broadcastEvent(YowLayerEvent(name))
            if name == "vf.cb":
                exp = [("A", id(x)) for x in insts]
                if emit == "broadcast" and not group:
                    exp = list(reversed(exp))
            else:
                exp = [("B2", id(x)) for x in insts if type(x).__name__ == "CbB"]
            got = list(CB_LOG)
            if sorted(got) != sorted(exp):
                own = set(id(x) for x in insts)
                foreign = [g for g in got if g[1] not in own]
                bad("handler-instances", "event %s (%s) in stack %d: the registered handlers that ran are not one per layer instance of this stack"
                    % (name, emit, round_ + 1), {"ran": len(got), "expected": len(exp), "handlers_of_other_instances": len(foreign)})
                return vs
            if got != exp:
                bad("handler-order", "event %s (%s): handlers ran out of stack order" % (name, emit))
                return vs
    return vs


def callback_cases():
    return [{"ctor": c, "order": o, "group": g} for c in ("tuple", "builder") for o in ("AAB", "BAA", "ABA") for g in (False, True)]


def run(ctx):
    from vf.runner import shuffled
    if ctx.quick:
        depth, full_all_depth = 5, 3
    else:
        depth, full_all_depth = MAX_DEPTH, 5

    # default helpers
    n_def = 0
    def_nontrivial = set()
    for case in default_cases(ctx.seed):
        vs = check_defaults(case)
        n_def += 1
        def_nontrivial.add((case["helper"], tuple(case.get("flags") or ()), case.get("style"), case.get("layer"), case.get("axolotl")))
        ctx.add_violations(sorted(vs, key=lambda v: v[0]))
    ctx.sample({"helper": "getDefaultStack", "flags": [True, False, True, False], "layer": True, "axolotl": False})

    n_cb = 0
    for case in callback_cases():
        n_cb += 1
        ctx.add_violations(check_callback_instances(case))
    ctx.coverage["callback_instance_cases"] = n_cb

    items = [(s, len(s) <= full_all_depth) for s in all_shapes(depth)]
    n_shapes = len(items)
    items = shuffled(items, ctx.seed, "c18-shapes")
    if not ctx.seed:
        # heavy shapes first for a balanced pool; the set of cases is the same
        items.sort(key=lambda it: -M.n_layers(it[0]) * len(it[0]))
    tot = {"evals": 0, "nontrivial": 0, "events": 0, "data_items": 0, "stacks": 0, "full_stacks": 0, "aborted_matrices": 0}
    outcomes = set()
    best = {}
    nviol = 0
    for vs, total, cnt, oc in ctx.pimap(work, items, chunksize=4):
        for k in cnt:
            tot[k] += cnt[k]
        outcomes.update(tuple(o) for o in oc)
        nviol += total
        for v in vs:
            if v[0] not in best or _vkey(v) < _vkey(best[v[0]]):
                best[v[0]] = v
    for sig in sorted(best):
        ctx.violation(*best[sig])
    ctx.violation_count += max(0, nviol - len(best))
    ctx.sample({"shape": [0, 2, 0], "path": list(CANON), "probe": {"t": "event", "emitter": 0, "dir": "emit", "detached": True, "consumer": 2}})
    ctx.sample({"shape": [3, 1], "path": ["builder_pop", "cls", "implicit"], "probe": {"t": "data", "dir": "send"}})

    ctx.coverage.update({
        "evaluations": tot["evals"] + n_def,
        "distinct_nontrivial": tot["nontrivial"] + len(def_nontrivial),
        "rule": "a case is one (shape, construction path, probe) execution on the real stack, all distinct by construction; "
                "non-trivial = event walk whose reference delivery names >= 2 layers, data through >= 2 elements, "
                "an interface lookup by class, or a default-helper argument combination",
        "exhaustive": tot["aborted_matrices"] == 0,
        "event_matrices_cut_short_after_16_failing_probes": tot["aborted_matrices"],
        "bound": "all %d shapes of depth 1..%d over {layer, group of 1..4}; every construction path (<=16 per shape); "
                 "full emitter x consumer x {emit,broadcast} x {normal,detached} matrix on every path up to depth %d and on the "
                 "canonical path (tuple/classes/explicit) at every depth, reduced event matrix (stack-level + first/last member of "
                 "every element, without consumer and with a consumer in the emitter's own group) on the other paths above that depth; structure, interfaces and data both ways on every path"
                 % (n_shapes, depth, full_all_depth),
        "shapes": n_shapes,
        "stacks_built": tot["stacks"],
        "stacks_with_full_event_matrix": tot["full_stacks"],
        "event_probes": tot["events"],
        "data_items_observed": tot["data_items"],
        "default_helper_cases": n_def,
        "distinct_outcomes": len(outcomes),
    })
    ctx.assume("recording layers forward unchanged-plus-own-id and never raise; real protocol layers are only constructed, never connected")
    ctx.assume("one stack instance is reused for all probes of a (shape, path); its data behaviour is re-checked after the event probes, "
               "the class-level detached queue is emptied before every execution")
    ctx.assume("the loop is the real YowStack.loop body; yowstack.time.sleep is replaced by a function that leaves the loop after one turn")


def replay(ctx, case):
    if case.get("kind") == "callback":
        return check_callback_instances(case)
    if case.get("kind") == "default":
        c = dict(case)
        c.pop("kind")
        return check_defaults(c)
    shape = tuple(case["shape"])
    path = tuple(case["path"])
    vs, _, _ = run_shape_path(shape, path, True, only_probe=case["probe"])
    return vs
