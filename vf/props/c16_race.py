"""C16, interleaving part: a disconnect requested by an application thread while the stack's loop thread keeps running.

The history part of C16 (c16_lifecycle.py) runs every event to quiescence on one thread.  Here two real threads
overlap: the application thread asks for a disconnect (the dispatcher reports the connection as down on THAT
thread, as the asyncore dispatcher does), while the loop thread executes the deferred `disconnected` announcement,
the application's reaction to it (a new connect, as an application's onDisconnected handler would issue) and the
login on the new connection.  All interleavings up to the preemption bound are executed on the real network /
segments / noise / coder / protocol layers; at quiescence the lifecycle clauses of the statement are evaluated:

  R1  each connection announced as up is announced as down exactly once; the connection that is up is not announced down
  R2  the network layer's own view (connected / status) agrees with the dispatcher that is really open
  R3  the later connect ran a fresh login: session established on the new connection
  R4  a stanza sent after the new login reaches the peer of the new connection; nothing is dropped or written to the old one
"""
from vf import env
env.bootstrap()

from vf.harness import noise as H
from vf.explore import sched as S
from vf.explore import dfs

from yowsup.layers import YowLayerEvent
from yowsup.layers.network.layer import YowNetworkLayer
from yowsup.stacks.yowstack import YowStack

MOD = "vf.props.c16_race"


def run_race(case, prefix):
    burst = case.get("burst", 0)
    w = H.World(variant=case.get("variant", "IK"), burst=burst, with_success=True)
    sc = S.Scheduler(prefix, trace_filter=H.trace_filter, line_filter=H.line_filter if case.get("lines") else None)
    q = YowStack._YowStack__detachedQueue
    st = {"cur": 0, "reconnects": 0}
    DOWN = YowNetworkLayer.EVENT_STATE_DISCONNECTED
    UP = YowNetworkLayer.EVENT_STATE_CONNECTED

    def downs_seen():
        return sum(1 for e in w.app.events if e == DOWN)

    def net():
        # the stack's loop thread: socket events of the current connection, deferred events, and the application's
        # reaction to `disconnected` (connect again), which runs on this thread like every deferred callback
        w.connect()
        w.dispatchers[0].fire_connected()
        while True:
            def ready():
                i = st["cur"]
                if q.qsize() > 0:
                    return True
                if w.dispatchers[i].closed:
                    return downs_seen() > st["reconnects"] and st["reconnects"] < 1
                return len(w.server_out[i]) > 0
            had = ready()
            sc.wait_until(ready, "loop event")
            if had:
                sc.env_point("next loop event")
            if q.qsize() > 0:
                w.pump_detached()
                continue
            i = st["cur"]
            if w.dispatchers[i].closed:
                st["reconnects"] += 1
                w.connect()
                st["cur"] = len(w.dispatchers) - 1
                w.dispatchers[st["cur"]].fire_connected()
                continue
            if len(w.server_out[i]) > 0:
                w.deliver(i, len(w.server_out[i]))

    early = case.get("early", False)      # the application disconnects while the first login is still in progress
    sent = [H.out_stanza(k, "r") for k in range(case.get("nsend", 1))]
    if not early:
        sc.run_phase([("net", net)], timeout=900.0)
        setup_points = len(sc.points)
        ok = w.state() == "transport" and w.responders[0].phase == "transport"
    else:
        setup_points = 0
        ok = True

    def app():
        if early:
            # ... but after the connection has been announced: a disconnect that lands between the dispatcher's
            # `_connected = True` and its onConnected() callback is a race inside the dispatcher, not a history of
            # the property's alphabet (DESIGN 9.4, observations)
            sc.wait_until(lambda: len(w.dispatchers) > 0 and w.net.connected, "first connection announced")
        w.stack.broadcastEvent(YowLayerEvent(YowNetworkLayer.EVENT_STATE_DISCONNECT, reason="application"))
        sc.wait_until(lambda: len(w.responders) > 1 and w.state() == "transport" and w.responders[1].phase == "transport"
                      and not q.qsize(), "session up again")
        for n in sent:
            w.stack.send(H.NodeEntity(n))

    error = None
    if ok:
        try:
            sc.run_phase([("net", net), ("app", app)] if early else [("app", app)], timeout=900.0)
        except (S.HarnessStuck, S.ReplayDivergence) as e:
            error = e
    blocked = [(t.name, t.wait_desc) for t in sc.blocked()]
    pts = [(1, 0, ce) if i < setup_points else (n, c, ce) for i, (n, c, ce) in enumerate(S.summarize_points(sc))]
    log = list(sc.log)
    sc.shutdown()
    if error is not None:
        raise error
    v = []

    def bad(sig, what, detail=None):
        v.append(("C16:race:" + sig, what, dict(case), detail))
    if not ok:
        bad("setup-failed", "first login did not complete on the default schedule")
        return pts, v, ("setup",)
    for ent in log:
        if ent[0] == "thread-exception":
            bad("thread-exception:%s:%s" % (ent[1], ent[2]), "exception escaped in thread %s: %s %s" % (ent[1], ent[2], ent[3]))
    ups = sum(1 for e in w.app.events if e == UP)
    downs = downs_seen()
    if [b for b in blocked if b[0] == "app"]:
        bad("no-fresh-login", "after the application's disconnect and the reconnect the session never came up again: blocked=%s" % blocked,
            {"state": w.state(), "dispatchers": len(w.dispatchers), "ups": ups, "downs": downs})
    else:
        if len(w.dispatchers) != 2:
            bad("connections", "expected exactly two connections, saw %d" % len(w.dispatchers))
        if (ups, downs) != (2, 1):
            bad("announcements", "two connections came up and one went down; announced up %d times, down %d times" % (ups, downs))
        really_up = not w.dispatchers[-1].closed
        if bool(w.net.connected) != really_up:
            bad("network-layer-view", "the open connection is %s but the network layer reports connected=%s"
                % ("up" if really_up else "down", w.net.connected))
        try:
            got = [H.node_key(n) for n in w.decoded_client_stanzas(len(w.dispatchers) - 1)]
        except Exception as e:
            got = None
            bad("undecodable", "the peer of the new connection could not decode a frame: %r" % (e,))
        if got is not None and got != [H.node_key(n) for n in sent]:
            bad("stanza-lost", "stanzas sent on the new connection did not arrive at its peer",
                {"got": [g[0] for g in got], "sent": [n.tag for n in sent], "dropped_writes": w.dropped_writes})
    held = [k for k, x in w.locks().items() if x]
    if held:
        bad("lock-held", "locks still held at quiescence: %s" % held)
    obs = (ups, downs, bool(w.net.connected), len(w.dispatchers), tuple(sorted(b[0] for b in blocked)))
    return pts, v, obs


def cases_for(tier):
    # "lines": statement-granularity scheduling points in the network, segments and noise layers and in
    # layers/__init__.py (a state write after an announcement has no call in between)
    # "early": the application disconnects while the first login is still in progress
    cases = [{"burst": 0, "nsend": 1}, {"burst": 1, "nsend": 1, "variant": "XX"}, {"burst": 0, "nsend": 1, "lines": True},
             {"burst": 0, "nsend": 1, "early": True}]
    if tier != "quick":
        cases += [{"burst": 2, "nsend": 2}, {"burst": 1, "nsend": 1, "variant": "XX", "lines": True},
                  {"burst": 1, "nsend": 1, "early": True, "variant": "XX"}]
    return cases


def phases_for(tier):
    cases = cases_for(tier)
    if tier == "quick":
        return [{"name": "race-bound1", "cases": cases, "bound": 1, "free_bound": 2}]
    # sized by measurement: an "early" case is 12 k executions at bound 1, the others 0.1-0.6 k (0.4 M together at bound 2)
    return [{"name": "race-bound1", "cases": cases, "bound": 1, "free_bound": 2},
            {"name": "race-bound2", "cases": [c for c in cases if not c.get("early")], "bound": 2, "free_bound": 2}]
