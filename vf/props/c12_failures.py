"""C12 A failure while sending or receiving does not wedge the stack.

Fault enumeration + controlled-scheduler exploration on the real network/segments/noise/coder/protocol stack
(after a handshake on the default schedule).  A case = failure site (natural fault or an exception injected at
a layer's send/receive entry) x direction x position of the failing operation in a 3-operation sequence x who
performs the follow-up operations (same thread / another thread / the network thread) x optional reconnect.
For cases with more than one thread every interleaving with <= bound preemptions is executed.

Oracle per execution: the failing call raises to its caller (application thread, or the dispatcher callback
for the network thread) and to nobody else; every follow-up operation completes with its normal effect (sent
stanzas decrypt at the strict peer in order, incoming stanzas reach the application); at quiescence every
layer lock and the flush lock is free and no thread is blocked; after a reconnect the stack works again.
"""
from vf import env
env.bootstrap()

from vf.harness import noise as H
from vf.explore import sched as S
from vf.explore import dfs
from vf.runner import shuffled
from vf.doubles.noise_server import frame

from yowsup.structs.protocoltreenode import ProtocolTreeNode

PROPERTY = "C12"
LEVEL = "fault_enumeration"
MOD = "vf.props.c12_failures"


class Injected(Exception):
    pass


# layers addressable as injection sites: name -> accessor on the World
def _layer(w, name):
    if name == "network":
        return w.net
    if name == "segments":
        return w.seg
    if name == "noise":
        return w.noise
    if name == "coder":
        return w.coder
    if name == "parallel":
        return w.par
    if name == "app":
        return w.app
    for l in w.par.sublayers:
        if type(l).__name__ == name:
            return l
    raise KeyError(name)


DOWN_SITES = ["app", "parallel", "YowPresenceProtocolLayer", "coder", "noise", "segments", "network"]
UP_SITES = ["network", "segments", "noise", "coder", "parallel", "YowAckProtocolLayer", "app"]
# below / at the cipher a lost frame desynchronises the nonce counters of the two peers, which no layer can
# undo: for these injected sites usability is demanded only after a reconnect
DESYNC_DOWN = ("segments", "network")
DESYNC_UP = ("network", "segments", "noise")

NATURAL_DOWN = ["attr-not-string", "data-not-bytes", "oversize", "oversize-boundary", "session-not-ready"]
NATURAL_UP = ["garbage-frame", "undecodable-plaintext", "picture-notification", "stream-error-unknown", "app-callback"]


def _sized_receipt(w, encoded_len):
    """A receipt stanza whose encoding by the real coder is exactly encoded_len bytes."""
    probe = ProtocolTreeNode("receipt", {"id": "big", "to": "4911@s.whatsapp.net"}, None, b"\x07" * (1 << 20))
    overhead = len(w.writer.protocolTreeNodeToBytes(probe)) - (1 << 20)
    return ProtocolTreeNode("receipt", {"id": "big", "to": "4911@s.whatsapp.net"}, None, b"\x07" * (encoded_len - overhead))


def _arm(layer, meth, state):
    orig = getattr(layer, meth)

    def wrapper(data):
        me = S.cur().me() if S.cur() is not None else None
        if state["armed"] is not False and me is not None and state["armed"] == me.name:
            state["armed"] = False
            state["fired"] += 1
            raise Injected("injected failure in %s.%s" % (type(layer).__name__, meth))
        return orig(data)
    setattr(layer, meth, wrapper)


def run_case(case, prefix):
    fault = case["fault"]            # natural fault name or "inject:<layer>"
    direction = case["dir"]          # "down" | "up"
    pos = case["pos"]                # position of the failing operation (0..2)
    follow = case["follow"]          # "same" | "other" | "net" (who performs the operations after the failing one)
    reconnect = case.get("reconnect", False)
    nops = case.get("nops", 3)
    w = H.World(variant="IK", burst=0, with_success=True)
    sc = S.Scheduler(prefix, trace_filter=H.trace_filter)
    T = 7200.0 if fault.startswith("oversize") else 900.0      # 16 MiB through the pure-python codec is slow on a loaded machine
    inj = {"armed": False, "fired": 0}
    site = fault.split(":", 1)[1] if fault.startswith("inject:") else None
    if site:
        _arm(_layer(w, site), "send" if direction == "down" else "receive", inj)
    if fault == "app-callback":
        orig_recv = w.app.receive

        def app_receive(entity):
            if getattr(entity, "getTag", lambda: None)() == "presence" and inj["armed"] == "net":
                inj["armed"] = False
                inj["fired"] += 1
                raise Injected("application callback raised")
            return orig_recv(entity)
        w.app.receive = app_receive

    results = {}       # op index -> ("ok"|"raised", thread, exception type)
    sent_ok = []       # node keys of successful sends, in completion order per thread
    expect_in = []     # node keys of ok incoming stanzas
    conn = {"i": 0}
    net_go = {"n": 0}  # number of server frames the net thread may deliver (released by ops)
    ops = []
    for k in range(nops):
        ops.append(("S" if direction == "down" else "R", k == pos))
    not_ready = fault == "session-not-ready"

    def do_send(k, faulty, who):
        node = H.out_stanza(k, who)
        if case.get("largest_ok_first") and k == 0:
            node = _sized_receipt(w, (1 << 24) - 17)      # largest stanza that fits: must be transmitted
        if faulty:
            if fault == "attr-not-string":
                node = ProtocolTreeNode("presence", {"type": "available", "name": 12345})
            elif fault == "data-not-bytes":
                # text put into a node through setData() as str (the constructor insists on bytes, setData does not):
                # cannot be encoded, and cannot even be rendered by ProtocolTreeNode.__str__
                node = ProtocolTreeNode("presence", {"type": "available"}, [ProtocolTreeNode("status")])
                node.children[0].setData(u"busy \u263a")
            elif fault == "oversize":
                node = ProtocolTreeNode("receipt", {"id": "big", "to": "4911@s.whatsapp.net"}, None, b"\x07" * (1 << 24))
            elif fault == "oversize-boundary":
                # smallest stanza that must be refused: its encoding plus the 16 byte tag is exactly 2^24 bytes
                node = _sized_receipt(w, (1 << 24) - 16)
            elif site:
                inj["armed"] = sc.me().name
        try:
            w.stack.send(H.NodeEntity(node))
            results[k] = ("ok", who, None)
            sent_ok.append(H.node_key(node))
        except S.SchedAbort:
            raise
        except BaseException as e:
            results[k] = ("raised", who, type(e).__name__)
        finally:
            if faulty:
                inj["armed"] = False

    def server_write(k, faulty):
        i = conn["i"]
        r = w.responders[i]
        if faulty and fault == "garbage-frame":
            w.server_out[i].extend(frame(b"\x5a" * 40))
        elif faulty and fault == "undecodable-plaintext":
            w.server_out[i].extend(r.send(b"\x00\xf8\x02\xfc"))          # truncated list: decoder fails
        elif faulty and fault == "picture-notification":
            w.server_send(i, ProtocolTreeNode("notification", {"type": "picture", "id": "n1", "from": "4933@s.whatsapp.net", "t": "1600000001"},
                                              [ProtocolTreeNode("unknown")]))
            w.sent_by_server[i].pop()
        elif faulty and fault == "stream-error-unknown":
            w.server_send(i, ProtocolTreeNode("stream:error", {}, [ProtocolTreeNode("weird")]))
            w.sent_by_server[i].pop()
        else:
            node = H.in_stanza(k) if not (faulty and fault == "app-callback") else ProtocolTreeNode(
                "presence", {"from": "4977@s.whatsapp.net", "type": "unavailable", "last": "deny"})
            if faulty and (site or fault == "app-callback"):
                pass
            else:
                expect_in.append(H.node_key(node))
            w.server_send(i, node)

    frames_faulty = []   # per delivered frame: is it the faulty one

    def net_loop(i):
        # deliver frame by frame; an exception out of onRecvData is what the dispatcher callback sees
        nframe = 0
        while True:
            had = len(w.server_out[i]) > 0 or w.dispatchers[i].closed
            sc.wait_until(lambda: len(w.server_out[i]) > 0 or w.dispatchers[i].closed, "server bytes")
            if had:
                # back in select() between two socket events: the other threads ran meanwhile for free
                sc.env_point("next socket event")
            if w.dispatchers[i].closed:
                return
            b = w.server_out[i]
            n = 3 + ((b[0] << 16) | (b[1] << 8) | b[2])
            k = frames_faulty.pop(0) if frames_faulty else None
            if k is not None and k[1] and (site or fault == "app-callback"):
                inj["armed"] = "net"
            try:
                w.deliver(i, n)
                if k is not None:
                    results[k[0]] = ("ok", "net", None)
            except S.SchedAbort:
                raise
            except BaseException as e:
                if k is not None:
                    results[k[0]] = ("raised", "net", type(e).__name__)
                else:
                    results["net-extra"] = ("raised", "net", type(e).__name__)
            finally:
                if k is not None and k[1]:
                    inj["armed"] = False

    # ---- phase 1: handshake on the default schedule (except for session-not-ready)
    def net_main():
        w.connect()
        w.dispatchers[0].fire_connected()
        net_loop(0)
        if reconnect:
            sc.wait_until(lambda: conn.get("reconnect"), "reconnect request")
            w.pump_detached()
            w.connect()
            conn["i"] = 1
            w.dispatchers[1].fire_connected()
            net_loop(1)

    error = None
    blocked = []
    try:
        if not_ready:
            # the application sends before the session exists: connect is requested, the server has not answered
            def early():
                do_send(0, True, "A")
            w.connect()     # unmanaged: creates dispatcher double only (no thread yet)
            status = sc.run_phase([("A", early)], timeout=T)
            status = sc.run_phase([("net", lambda: (w.dispatchers[0].fire_connected(), net_loop(0)))], timeout=T)
        else:
            status = sc.run_phase([("net", net_main)], timeout=T)
        setup_points = len(sc.points)
        setup_ok = w.state() == "transport" and w.responders[0].phase == "transport"
        if setup_ok:
            first = list(range(0, pos + 1)) if not not_ready else []
            rest = list(range(pos + 1, nops)) if not not_ready else list(range(1, nops))

            def runner(idx, who):
                def fn():
                    for k in idx:
                        kind, faulty = ops[k]
                        if kind == "S":
                            do_send(k, faulty, who)
                        else:
                            frames_faulty.append((k, faulty))
                            server_write(k, faulty)
                return fn
            fns = []
            if follow == "same":
                fns.append(("A", runner(first + rest, "A")))
            else:
                fns.append(("A", runner(first, "A")))
                fns.append(("B", runner(rest, "B")))
            if follow == "net" and direction == "down":
                # follow-ups are incoming frames handled by the network thread
                ops[:] = [(("S" if k <= pos else "R"), f) for k, (kk, f) in enumerate(ops)]
            if follow == "net" and direction == "up":
                ops[:] = [(("R" if k <= pos else "S"), f) for k, (kk, f) in enumerate(ops)]
            status = sc.run_phase(fns, timeout=T)
            mid_blocked = [(t.name, t.wait_desc) for t in sc.blocked()]
            mid_locks = w.locks()
            if reconnect:
                def rc():
                    w.dispatchers[0].handle_close()
                    conn["reconnect"] = True
                status = sc.run_phase([("closer", rc)], timeout=T)
                up2 = w.state() == "transport" and len(w.responders) > 1 and w.responders[1].phase == "transport"
                conn["up2"] = up2
                if up2:
                    def after():
                        do_send(100, False, "C")
                        frames_faulty.append((101, False))
                        server_write(101, False)
                    status = sc.run_phase([("C", after)], timeout=T)
    except (S.HarnessStuck, S.ReplayDivergence) as e:
        error = e
        setup_points = len(sc.points)
        setup_ok = False
    blocked = [(t.name, t.wait_desc) for t in sc.blocked()]
    pts = [(1, 0, ce) if i < setup_points else (n, c, ce) for i, (n, c, ce) in enumerate(S.summarize_points(sc))]
    log = list(sc.log)
    sc.shutdown()
    if error is not None:
        raise error

    v = []
    tag = fault if not site else "inject"

    def bad(sig, what, detail=None):
        v.append(("C12:%s:%s:%s" % (sig, direction, fault), what, dict(case), detail))

    if not setup_ok:
        bad("setup-failed", "handshake did not complete", {"state": w.state()})
        return pts, v, ("setup",)
    # 1. the failing call reported to its caller, to nobody else
    fk = 0 if not_ready else pos
    res = results.get(fk)
    if res is None:
        bad("failing-op-never-returned", "the failing operation neither returned nor raised (thread blocked)", {"blocked": blocked, "results": results})
    elif res[0] != "raised":
        bad("failure-not-reported", "the failure was swallowed: the failing call returned normally", {"results": results})
    desync = site is not None and site in (DESYNC_DOWN if direction == "down" else DESYNC_UP)
    for k, r in results.items():
        if k != fk and r[0] == "raised" and not (desync and k not in (100, 101)):
            bad("follow-up-raised", "a follow-up operation failed with %s (thread %s)" % (r[2], r[1]), {"results": results})
            break
    for ent in log:
        if ent[0] == "thread-exception":
            bad("thread-exception:%s" % ent[2], "exception escaped in thread %s: %s %s" % (ent[1], ent[2], ent[3]), ent)
    # 2. nothing blocks, no lock held
    stuck = [b for b in blocked if not (b[0] == "net" and (b[1] or "").startswith(("server bytes", "reconnect")))]
    if stuck:
        bad("deadlock", "threads blocked forever after the failure: %s" % stuck, {"blocked": blocked, "locks": w.locks(), "results": results})
    held = [k for k, x in w.locks().items() if x]
    if held:
        bad("lock-held", "locks still held at quiescence: %s" % held, {"results": results})
    # 3. follow-ups have their normal effect (unless the lost frame inevitably desynchronised the ciphers)
    if not desync and not stuck:
        missing_results = [k for k in range(nops) if k not in results]
        if missing_results:
            bad("follow-up-not-executed", "operations %s never completed" % missing_results, {"results": results, "blocked": blocked})
        r0 = w.responders[0]
        if r0.errors:
            bad("peer-cannot-decrypt", "after the failure the peer can no longer process the client's stream: %s" % r0.errors[0], r0.errors)
        else:
            got = [H.node_key(n) for n in w.decoded_client_stanzas(0)]
            mine = [g for g in got if g in sent_ok]
            exp0 = [s for s in sent_ok if s[1] != H.node_key(H.out_stanza(100, "C"))[1]]
            if sorted(map(repr, mine)) != sorted(map(repr, exp0)):
                bad("sent-lost", "a follow-up send did not reach the peer", {"got": [g[0] for g in got], "sent_ok": len(exp0)})
        got_in = []
        for e in w.app.received:
            try:
                got_in.append(H.node_key(e.toProtocolTreeNode()))
            except Exception:
                got_in.append(("?",))
        exp_in = [x for x in expect_in if x != H.node_key(H.in_stanza(101))]
        for x in exp_in:
            if got_in.count(x) != 1:
                bad("incoming-lost", "a follow-up incoming stanza did not reach the application exactly once",
                    {"expected": [e[0] for e in exp_in], "got": [g[0] for g in got_in]})
                break
    # 4. after a reconnect everything works
    if reconnect and not stuck:
        if not conn.get("up2"):
            bad("reconnect-failed", "after the failure a reconnect does not establish a session", {"state": w.state()})
        else:
            r1 = w.responders[1]
            try:
                got1 = [H.node_key(n) for n in w.decoded_client_stanzas(1)]
            except Exception:
                got1 = []
            if r1.errors or H.node_key(H.out_stanza(100, "C")) not in got1:
                bad("reconnect-send", "send after reconnect did not reach the peer", r1.errors)
            ok_in = any(True for e in w.app.received if _safe_key(e) == H.node_key(H.in_stanza(101)))
            if not ok_in:
                bad("reconnect-receive", "incoming stanza after reconnect did not reach the application")
    obs = (tuple(sorted((str(k), r[0]) for k, r in results.items())), tuple(sorted(b[0] for b in blocked)), tuple(held), inj["fired"])
    return pts, v, obs


def _safe_key(e):
    try:
        return H.node_key(e.toProtocolTreeNode())
    except Exception:
        return None


def cases_for(tier):
    quick = tier == "quick"
    cases = []
    downs = ["attr-not-string", "data-not-bytes"] + ["inject:" + s for s in DOWN_SITES]
    ups = NATURAL_UP + ["inject:" + s for s in UP_SITES]
    for f in downs:
        for pos in (0, 1, 2):
            cases.append({"fault": f, "dir": "down", "pos": pos, "follow": "same"})
        cases.append({"fault": f, "dir": "down", "pos": 0, "follow": "other"})
        cases.append({"fault": f, "dir": "down", "pos": 0, "follow": "net"})
        cases.append({"fault": f, "dir": "down", "pos": 1, "follow": "same", "reconnect": True})
    for f in ups:
        for pos in (0, 1, 2):
            cases.append({"fault": f, "dir": "up", "pos": pos, "follow": "same"})
        cases.append({"fault": f, "dir": "up", "pos": 0, "follow": "net"})
        cases.append({"fault": f, "dir": "up", "pos": 1, "follow": "same", "reconnect": True})
    cases.append({"fault": "session-not-ready", "dir": "down", "pos": 0, "follow": "same"})
    cases.append({"fault": "session-not-ready", "dir": "down", "pos": 0, "follow": "other"})
    cases.append({"fault": "oversize", "dir": "down", "pos": 1, "follow": "same"})
    cases.append({"fault": "oversize-boundary", "dir": "down", "pos": 1, "follow": "same", "largest_ok_first": True})
    if not quick:
        cases.append({"fault": "oversize", "dir": "down", "pos": 0, "follow": "other"})
        cases.append({"fault": "oversize", "dir": "down", "pos": 1, "follow": "same", "reconnect": True})
        for f in downs:
            cases.append({"fault": f, "dir": "down", "pos": 1, "follow": "other"})
            cases.append({"fault": f, "dir": "down", "pos": 0, "follow": "other", "reconnect": True})
        for f in ups:
            cases.append({"fault": f, "dir": "up", "pos": 1, "follow": "net"})
            cases.append({"fault": f, "dir": "up", "pos": 0, "follow": "net", "reconnect": True})
    return cases


# --------------------------------------------------------------------------------------------------------------------
# a frame that arrives before any login was started (a stack whose application requests the login itself, later):
# the refusal is reported, and after a reconnect the login and traffic work normally
def run_early_frame(case, prefix):
    from yowsup.layers.auth.layer_authentication import YowAuthenticationProtocolLayer as _Auth
    from yowsup.layers import YowLayerEvent as _Ev
    from yowsup.stacks.yowstack import YOWSUP_PROTOCOL_LAYERS_BASIC as _BASIC
    tops = tuple(l for l in _BASIC if l is not _Auth)
    # (no <success>: without the authentication layer nobody would present it)
    w = H.World(variant=case.get("variant", "IK"), burst=case.get("burst", 1), with_success=False, top_layers=tops)
    sc = S.Scheduler(prefix, trace_filter=H.trace_filter)
    early = case.get("frames", 1)
    results = {"early": []}
    sent = [H.out_stanza(0, "e")]

    def net():
        w.connect()
        w.dispatchers[0].fire_connected()
        # no login requested yet; the peer (or line noise) delivers whole frames all the same
        for k in range(early):
            try:
                w.dispatchers[0].connectionCallbacks.onRecvData(b"\x00\x00\x04" + bytes([0x30 + k]) * 4)
                results["early"].append("accepted")
            except S.SchedAbort:
                raise
            except BaseException as e:
                results["early"].append(type(e).__name__)
        sc.env_point("socket closed by peer")
        w.dispatchers[0].handle_close()
        w.pump_detached()
        w.connect()
        w.dispatchers[1].fire_connected()
        w.stack.broadcastEvent(_Ev(_Auth.EVENT_AUTH, passive=False))
        while True:
            had = len(w.server_out[1]) > 0
            sc.wait_until(lambda: len(w.server_out[1]) > 0, "server bytes")
            if had:
                sc.env_point("next socket event")
            w.deliver(1, len(w.server_out[1]))

    def app():
        sc.wait_until(lambda: len(w.responders) > 1 and w.state() == "transport" and w.responders[1].phase == "transport", "session up")
        for n in sent:
            w.stack.send(H.NodeEntity(n))

    error = None
    try:
        sc.run_phase([("net", net), ("app", app)], timeout=900.0)
    except (S.HarnessStuck, S.ReplayDivergence) as e:
        error = e
    blocked = [(t.name, t.wait_desc) for t in sc.blocked()]
    pts = S.summarize_points(sc)
    log = list(sc.log)
    sc.shutdown()
    if error is not None:
        raise error
    v = []

    def bad(sig, what, detail=None):
        v.append(("C12:early-frame:" + sig, what, dict(case), detail))
    for ent in log:
        if ent[0] == "thread-exception":
            bad("thread-exception:%s:%s" % (ent[1], ent[2]), "exception escaped in thread %s: %s %s" % (ent[1], ent[2], ent[3]))
    if any(b[0] == "app" for b in blocked):
        bad("reconnect-failed", "after a frame was refused before any login and the connection was re-established, the login never completed: "
            "blocked=%s early=%s state=%s" % (blocked, results["early"], w.state()))
    else:
        try:
            got = [H.node_key(n) for n in w.decoded_client_stanzas(1)]
        except Exception as e:
            got = None
            bad("peer-cannot-decrypt", "the peer of the new connection could not read a frame: %r" % (e,))
        if got is not None and got != [H.node_key(n) for n in sent]:
            bad("sent-lost", "stanza sent after the reconnect did not arrive", {"got": len(got)})
        fin = [H.node_key(n) for n in w.sent_by_server[1]]
        got_in = []
        for e in w.app.received:
            try:
                got_in.append(H.node_key(e.toProtocolTreeNode()))
            except Exception:
                got_in.append(("?", type(e).__name__))
        if got_in[-len(fin):] != fin if fin else False:
            bad("incoming-lost", "frames of the new connection did not reach the application in order", {"got": len(got_in), "sent": len(fin)})
    held = [k for k, x in w.locks().items() if x]
    if held:
        bad("lock-held", "locks still held at quiescence: %s" % held)
    obs = (tuple(results["early"]), w.state(), tuple(sorted(b[0] for b in blocked)))
    return pts, v, obs


EARLY_CASES = [{"early_frame": True, "frames": 1, "variant": "IK", "burst": 1},
               {"early_frame": True, "frames": 2, "variant": "XX", "burst": 0}]


def run(ctx):
    cases = shuffled(cases_for(ctx.tier), ctx.seed, "c12")
    bound = 1 if ctx.quick else 2
    free_bound = 1 if ctx.quick else 2
    cap = 60000 if ctx.quick else 2000000
    # oversize cases are expensive (16 MiB through the pure-python encoder): default schedule + bound 0 only
    big = [c for c in cases if c["fault"].startswith("oversize")]
    small = [c for c in cases if not c["fault"].startswith("oversize")]
    st = dfs.explore(ctx, MOD, "run_case", small, bound, cap=cap, chunksize=4, free_bound=free_bound)
    stb = dfs.explore(ctx, MOD, "run_case", big, 0, cap=200, chunksize=1, free_bound=0)
    ste = dfs.explore(ctx, MOD, "run_early_frame", EARLY_CASES, bound, cap=cap, chunksize=1, free_bound=free_bound)
    st.executions += ste.executions
    st.points += ste.points
    st.observations |= set(("early",) + tuple(o) for o in ste.observations)
    st.capped = st.capped or ste.capped
    ctx.note("preemption bound %d, free bound %d: executions=%d (+%d oversize, %d early-frame) capped=%s" % (bound, free_bound, st.executions, stb.executions, ste.executions, st.capped))
    p1 = run_case(small[0], (0, {}))
    p2 = run_case(small[0], (0, {}))
    if p1 != p2:
        raise RuntimeError("nondeterministic replay of the default schedule")
    for c in small[:3]:
        ctx.sample(c)
    sites = set((c["fault"], c["dir"]) for c in cases)
    ctx.coverage.update({
        "evaluations": st.executions + stb.executions,
        "distinct_nontrivial": len(st.observations | stb.observations),
        "rule": "one evaluation = one execution (case x schedule) of the real stack with one failure; distinct = distinct "
                "(case, observation vector: per-operation outcome, blocked threads, held locks, fault fired); non-trivial = the fault fired",
        "cases": len(cases),
        "failure_sites": len(sites),
        "preemption_bound": bound,
        "free_deviation_bound": free_bound,
        "by_preemptions": {str(k): n for k, n in sorted(st.by_preemptions.items())},
        "scheduling_points_visited": st.points,
        "exhaustive": not st.capped,
        "cap": cap,
    })
    ctx.assume("injected faults are exceptions raised at a layer's send/receive entry; for sites at or below the cipher "
               "(segments/network on send, network/segments/noise on receive) a lost frame desynchronises the peers' nonce "
               "counters by construction, so usability is demanded after a reconnect only")


def replay(ctx, case):
    case = dict(case)
    pf = dfs.schedule_from_case(case)
    case.pop("schedule", None)
    if case.get("early_frame"):
        return run_early_frame(case, pf)[1]
    pts, v, obs = run_case(case, pf)
    return v
