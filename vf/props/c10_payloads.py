"""C10 Message payloads: attribute objects <-> protobuf bytes <-> entities round-trip.

Bounded-exhaustive exploration.  The space is described by JSON-able *specs*
(vf/ref/payloads.py): attribute class x subset of optional fields x alphabet
assignment (+ context info with quoted messages nested to depth 3).  From one
spec the reference model derives, independently of converter.py,
  * the real attribute objects an application would compose,
  * the protobuf a peer would send (fields set directly on e2e_pb2.Message),
  * the tree of exactly the fields that were set.

attribute side (what the application composes), per spec
  O1  protobytes_to_message(message_to_protobytes(a)) contains every field that was set, same value
  O1w the bytes produced, read with the reference field table, carry the same values (what a peer sees)
  O3  entity(a) -> ProtocolTreeNode -> entity: same demand on .message_attributes, plus type/mediatype/id/to/from
proto side (what a peer sends), per spec
  O2  proto -> attributes -> proto keeps every modelled field equal BY VALUE (presence is not compared)
  O2r the attributes parsed from the peer's bytes show every non-default value the peer set
once per entity class
  O3a the typed entities' convenience properties read/write the attribute they are named after
operation sequences on ONE entity object (every entity form x every modifiable field x old/new value)
  O4  A: serialise, modify field f, serialise      B: parse an incoming node, modify f, serialise
      B2: parse, serialise, modify f, serialise    C: serialise, replace message_attributes wholesale, serialise
      D: serialise, forward() a copy, modify the copy: the copy carries the new value, the original the old one
      After the last step the <proto> payload, decoded with the reference field table, must equal the reference
      proto of the NEW spec by value (new value for f, every other set field unchanged).  f is modified through the
      entity's property setter where one exists and through the attribute object.
media type of the <proto> child (generic MediaMessageProtocolEntity and every typed media entity)
  O5  received: an incoming node built by the reference (mediatype from: every TYPES_MEDIA value incl. the aliases
      gif/ptt/url, four values outside it, the empty string, attribute absent) is parsed; reading media_type, str(),
      toProtocolTreeNode() and forward().toProtocolTreeNode() must not raise, the <proto> child's attributes must come
      back exactly (absent stays absent) and the payload equal by value.
      composed: media_type is set through the property (before and after a first serialisation) / given to the
      generic constructor; the node must carry exactly that value and parse back to it.

Exceptions escaping on valid inputs are violations; the field is blamed by toggling
each field of the failing spec and re-running (the field whose toggle makes the exception vanish).
"""
import hashlib
import itertools
import json
import traceback

from vf import env
env.bootstrap()

from vf.ref import payloads as P
from vf.ref.payloads import CLASSES, KINDS, TEXT, CTX_HOSTS, CTX_NAMES, ALPHA_MODES
from yowsup.layers.protocol_messages.proto import e2e_pb2
from yowsup.layers.protocol_messages.protocolentities.attributes.converter import AttributesConverter
from yowsup.layers.protocol_messages.protocolentities.attributes.attributes_message_meta import MessageMetaAttributes
from yowsup.layers.protocol_messages.protocolentities.protomessage import ProtomessageProtocolEntity
from yowsup.layers.protocol_messages.protocolentities.message_text import TextMessageProtocolEntity
from yowsup.layers.protocol_messages.protocolentities.message_extendedtext import ExtendedTextMessageProtocolEntity
from yowsup.layers.protocol_media.protocolentities.message_media import MediaMessageProtocolEntity
from yowsup.layers.protocol_media.protocolentities.message_media_extendedtext import \
    ExtendedTextMediaMessageProtocolEntity
from yowsup.layers.protocol_media.protocolentities.message_media_contact import ContactMediaMessageProtocolEntity
from yowsup.layers.protocol_media.protocolentities.message_media_location import LocationMediaMessageProtocolEntity
from yowsup.layers.protocol_media.protocolentities.message_media_downloadable_image import \
    ImageDownloadableMediaMessageProtocolEntity
from yowsup.layers.protocol_media.protocolentities.message_media_downloadable_video import \
    VideoDownloadableMediaMessageProtocolEntity
from yowsup.layers.protocol_media.protocolentities.message_media_downloadable_audio import \
    AudioDownloadableMediaMessageProtocolEntity
from yowsup.layers.protocol_media.protocolentities.message_media_downloadable_document import \
    DocumentDownloadableMediaMessageProtocolEntity
from yowsup.layers.protocol_media.protocolentities.message_media_downloadable_sticker import \
    StickerDownloadableMediaMessageProtocolEntity

PROPERTY = "C10"
LEVEL = "exploration"

# ---------------------------------------------------------------------------------------------
# entity forms
# ---------------------------------------------------------------------------------------------
TYPED = {
    "image": (ImageDownloadableMediaMessageProtocolEntity, "image"),
    "video": (VideoDownloadableMediaMessageProtocolEntity, "video"),
    "audio": (AudioDownloadableMediaMessageProtocolEntity, "audio"),
    "document": (DocumentDownloadableMediaMessageProtocolEntity, "document"),
    "sticker": (StickerDownloadableMediaMessageProtocolEntity, "sticker"),
    "location": (LocationMediaMessageProtocolEntity, "location"),
    "contact": (ContactMediaMessageProtocolEntity, "contact"),
}

METAS = {
    "out": dict(id="C10-OUT-1", recipient="4915100000002@s.whatsapp.net"),
    "in": dict(id="C10-IN-1", sender="4915100000003@s.whatsapp.net", notify="nötify", timestamp=1600000123,
               offline=False),
    "in-group": dict(id="C10-GRP-1", sender="4915100000003-1600000000@g.us", notify="n", timestamp=1600000123,
                     participant="4915100000004@s.whatsapp.net", offline=True),
}


def entity_forms(kind):
    """[(form name, class, expected message type, expected media type, ctor(message_attributes, meta))]"""
    if kind == TEXT:
        return [("TextMessageProtocolEntity", TextMessageProtocolEntity, "text", None,
                 lambda a, m: TextMessageProtocolEntity(a.conversation, m)),
                ("ProtomessageProtocolEntity", ProtomessageProtocolEntity, "text", None,
                 lambda a, m: ProtomessageProtocolEntity("text", a, m))]
    if kind == "extended_text":
        return [("ExtendedTextMessageProtocolEntity", ExtendedTextMessageProtocolEntity, "text", None,
                 lambda a, m: ExtendedTextMessageProtocolEntity(a.extended_text, m)),
                ("ExtendedTextMediaMessageProtocolEntity", ExtendedTextMediaMessageProtocolEntity, "media", "url",
                 lambda a, m: ExtendedTextMediaMessageProtocolEntity(a.extended_text, m))]
    if kind in TYPED:
        cls, mt = TYPED[kind]
        forms = [(cls.__name__, cls, "media", mt, lambda a, m, cls=cls, kind=kind: cls(P.media_attrs(a, kind), m))]
        # the media layer hands "gif" to the video entity and "ptt" to the audio entity
        alias = {"video": "gif", "audio": "ptt"}.get(kind)
        if alias:
            forms.append(("%s[%s]" % (cls.__name__, alias), cls, "media", alias,
                          lambda a, m, alias=alias: MediaMessageProtocolEntity(alias, a, m)))
        return forms
    # protocol / sender key distribution travel in plain proto messages
    return [("ProtomessageProtocolEntity", ProtomessageProtocolEntity, "text", None,
             lambda a, m: ProtomessageProtocolEntity("text", a, m))]


# ---------------------------------------------------------------------------------------------
# helpers
# ---------------------------------------------------------------------------------------------
def conv():
    return AttributesConverter.get()


def short(v, n=60):
    r = repr(v)
    return r if len(r) <= n else r[:n] + "...(%d)" % len(r)


def exc_site(e):
    """innermost frame inside the repo"""
    tb = traceback.extract_tb(e.__traceback__)
    site = None
    for fr in tb:
        if "/yowsup/" in fr.filename:
            site = "%s:%d %s" % (fr.filename.split("/yowsup/", 1)[1], fr.lineno, fr.name)
    return site or (("%s:%d %s" % (tb[-1].filename, tb[-1].lineno, tb[-1].name)) if tb else "?")


def toggles(spec, proto_side):
    """Single-field variations of a spec used for blaming an exception: (field label, class label, new spec)."""
    kind = spec["kind"]
    out = []
    if kind == TEXT:
        return out
    c = CLASSES[kind]
    names = [n for n, f in c.all_fields() if proto_side or f.optional]
    order = P.class_field_names(kind)
    for n in names:
        s = json.loads(json.dumps(spec))
        if n in s["vals"]:
            del s["vals"][n]
            how = "set"
        else:
            s["vals"][n] = order.index(n) % 3
            how = "unset"
        cls = "downloadablemedia" if n.startswith("dm.") else kind
        out.append((n[3:] if n.startswith("dm.") else n, cls, how, s))
    if c.ctx:
        s = json.loads(json.dumps(spec))
        if s.get("ctx"):
            s["ctx"] = None
            out.append(("(whole)", "context_info", "set", s))
        else:
            s["ctx"] = P.make_ctx(["stanza_id"])
            out.append(("(whole)", "context_info", "unset", s))
    return out


def blame(spec, stage_fn, proto_side):
    """-> (class, field, 'raises-when-set'|'raises-when-unset') or (kind, '*', 'raises')"""
    culprits = []
    for field, cls, how, s in toggles(spec, proto_side):
        try:
            stage_fn(s)
        except Exception:
            continue
        culprits.append((cls, field, "raises-when-" + how))
    if len(culprits) == 1:
        return culprits[0]
    return (spec["kind"], "*", "raises")


def case_of(side, spec, extra=None):
    c = {"side": side, "spec": spec}
    if extra:
        c.update(extra)
    return c


def vio(cls, field, what, line, case, detail, size, rank):
    return ("C10:%s:%s:%s" % (cls, field, what), line, case, detail, size, rank)


# ---------------------------------------------------------------------------------------------
# attribute side: O1, O1w, O3
# ---------------------------------------------------------------------------------------------
def stage_to_bytes(spec):
    return conv().message_to_protobytes(P.build_attrs(spec))


def stage_roundtrip(spec):
    return conv().protobytes_to_message(stage_to_bytes(spec))


def run_attr_spec(spec, with_entities=True):
    """-> (violations, outcome digest, n real-code executions)"""
    vs = []
    size = P.spec_size(spec)
    kind = spec["kind"]
    exp = P.expected_tree(spec)
    a = P.build_attrs(spec)
    execs = 0
    # --- O1 / O1w
    data = None
    try:
        execs += 1
        data = conv().message_to_protobytes(a)
    except Exception as e:
        cls, field, what = blame(spec, stage_to_bytes, False)
        vs.append(vio(cls, field, what, "message_to_protobytes raises %s for a valid %s (%s): %s" % (
            type(e).__name__, kind, exc_site(e), e), case_of("attr", spec), {"exception": repr(e), "at": exc_site(e)},
            size, 0))
    digest = None
    if data is not None:
        digest = hashlib.sha1(data).digest()[:8]
        wire = e2e_pb2.Message()
        wire.ParseFromString(data)
        for path, cls, field, what, ev, ov in P.proto_diff(P.proto_tree(P.build_proto(spec)), P.proto_tree(wire)):
            vs.append(vio(cls, field, what if what == "lost" else "wire-" + what,
                          "%s.%s: the bytes produced by message_to_protobytes carry %s where the sender set %s (%s)" % (
                              cls, field, short(ov), short(ev), "/".join(path)),
                          case_of("attr", spec), {"path": path, "set": ev, "on_wire": ov, "oracle": "O1w"}, size, 1))
        back = None
        try:
            execs += 1
            back = conv().protobytes_to_message(data)
        except Exception as e:
            cls, field, what = blame(spec, stage_roundtrip, False)
            vs.append(vio(cls, field, what, "protobytes_to_message raises %s on the library's own bytes for a %s (%s): %s" % (
                type(e).__name__, kind, exc_site(e), e), case_of("attr", spec),
                {"exception": repr(e), "at": exc_site(e)}, size, 0))
        if back is not None:
            for path, cls, field, what, ev, ov in P.tree_missing(exp, P.attrs_tree(back)):
                vs.append(vio(cls, field, what,
                              "%s.%s: sender set %s, after message_to_protobytes/protobytes_to_message it reads %s (%s)" % (
                                  cls, field, short(ev), short(ov) if ov is not None or what != "lost" else "None",
                                  "/".join(path)),
                              case_of("attr", spec), {"path": path, "set": ev, "returned": ov, "oracle": "O1"}, size, 0))
    # --- O3 (when serialising already raised, the entity path raises the same way: nothing new to learn)
    if with_entities and data is not None:
        for form, cls_e, mtype, mediatype, ctor in entity_forms(kind):
            for mname in ("out", "in", "in-group"):
                r = run_entity(spec, a, exp, form, cls_e, mtype, mediatype, ctor, mname, size)
                execs += 1
                vs += r
    return vs, digest, execs


def make_entity(ctor, a, spec, meta_kw):
    ent = ctor(a, MessageMetaAttributes(**meta_kw))
    if spec.get("also"):
        # typed constructors take only their own attribute object: the second content is attached the way an
        # application would, through the public message_attributes
        k = spec["also"]["kind"]
        slot = "conversation" if k == TEXT else CLASSES[k].slot
        setattr(ent.message_attributes, slot, getattr(a, slot))
    return ent


def run_entity(spec, a, exp, form, cls_e, mtype, mediatype, ctor, mname, size):
    vs = []
    kind = spec["kind"]
    case = case_of("attr", spec, {"entity": form, "meta": mname})
    meta_kw = METAS[mname]
    try:
        ent = make_entity(ctor, a, spec, meta_kw)
        node = ent.toProtocolTreeNode()
    except Exception as e:
        def st(s):
            make_entity(ctor, P.build_attrs(s), s, meta_kw).toProtocolTreeNode()
        cls, field, what = blame(spec, st, False)
        vs.append(vio(cls, field, what, "%s.toProtocolTreeNode raises %s (%s): %s" % (form, type(e).__name__, exc_site(e), e),
                      case, {"exception": repr(e), "at": exc_site(e)}, size, 2))
        return vs
    try:
        ent2 = cls_e.fromProtocolTreeNode(node)
    except Exception as e:
        def st(s):
            cls_e.fromProtocolTreeNode(make_entity(ctor, P.build_attrs(s), s, meta_kw).toProtocolTreeNode())
        cls, field, what = blame(spec, st, False)
        vs.append(vio(cls, field, what, "%s.fromProtocolTreeNode raises %s on the node the entity produced (%s): %s" % (
            form, type(e).__name__, exc_site(e), e), case, {"exception": repr(e), "at": exc_site(e)}, size, 2))
        return vs
    for path, cls, field, what, ev, ov in P.tree_missing(exp, P.attrs_tree(ent2.message_attributes)):
        vs.append(vio(cls, field, what, "%s.%s: sender set %s, after %s -> node -> entity it reads %s (%s)" % (
            cls, field, short(ev), form, short(ov), "/".join(path)), case,
            {"path": path, "set": ev, "returned": ov, "oracle": "O3"}, size, 2))
    # envelope: what makes the payload reach the right typed entity again
    env_exp = {"class": cls_e.__name__, "type": mtype, "id": meta_kw["id"],
               "to": meta_kw.get("recipient"), "from": meta_kw.get("sender"),
               "participant": meta_kw.get("participant")}
    env_got = {"class": type(ent2).__name__, "type": ent2.getType(), "id": ent2.getId(), "to": ent2.to,
               "from": ent2._from, "participant": ent2.participant}
    pn = node.getChild("proto")
    if mediatype is not None:
        env_exp["mediatype"] = mediatype
        env_got["mediatype"] = getattr(ent2, "media_type", None)
        env_exp["node-mediatype"] = mediatype
        env_got["node-mediatype"] = pn["mediatype"] if pn is not None else None
    for k in env_exp:
        if env_exp[k] != env_got[k]:
            vs.append(vio("entity", form, "envelope-" + k, "%s: %s is %r after entity -> node -> entity, expected %r" % (
                form, k, env_got[k], env_exp[k]), case, {"expected": env_exp, "got": env_got}, size, 2))
    if node.tag != "message" or pn is None or len(node.getAllChildren("proto")) != 1:
        vs.append(vio("entity", form, "node-shape", "%s: node is not <message> with exactly one <proto> child" % form,
                      case, str(node)[:300], size, 2))
    return vs


# ---------------------------------------------------------------------------------------------
# proto side: O2, O2r
# ---------------------------------------------------------------------------------------------
def stage_parse(spec):
    return conv().protobytes_to_message(P.build_proto(spec).SerializeToString())


def stage_reserialise(spec):
    return conv().message_to_protobytes(stage_parse(spec))


def strip_defaults(t):
    """Drop default-valued leaves: a peer's explicitly-set default may be reported as unset (presence vs value)."""
    out = {}
    for k, v in t.items():
        if isinstance(v, dict):
            out[k] = strip_defaults(v)
        elif not P.is_default(None, v):
            out[k] = v
    return out


def run_proto_spec(spec):
    vs = []
    size = P.spec_size(spec)
    kind = spec["kind"]
    ref = P.build_proto(spec)
    data = ref.SerializeToString()
    digest = hashlib.sha1(data).digest()[:8]
    case = case_of("proto", spec)
    execs = 1
    try:
        a = conv().protobytes_to_message(data)
    except Exception as e:
        cls, field, what = blame(spec, stage_parse, True)
        vs.append(vio(cls, field, what, "protobytes_to_message raises %s on a peer's %s payload (%s): %s" % (
            type(e).__name__, kind, exc_site(e), e), case, {"exception": repr(e), "at": exc_site(e)}, size, 0))
        return vs, digest, execs
    for path, cls, field, what, ev, ov in P.tree_missing(strip_defaults(P.expected_tree(spec)), P.attrs_tree(a)):
        vs.append(vio(cls, field, what, "%s.%s: peer sent %s, the parsed attributes read %s (%s)" % (
            cls, field, short(ev), short(ov), "/".join(path)), case,
            {"path": path, "sent": ev, "parsed": ov, "oracle": "O2r"}, size, 1))
    try:
        execs += 1
        data2 = conv().message_to_protobytes(a)
    except Exception as e:
        cls, field, what = blame(spec, stage_reserialise, True)
        vs.append(vio(cls, field, what, "re-serialising a parsed peer %s payload raises %s (%s): %s" % (
            kind, type(e).__name__, exc_site(e), e), case, {"exception": repr(e), "at": exc_site(e)}, size, 0))
        return vs, digest, execs
    out = e2e_pb2.Message()
    out.ParseFromString(data2)
    for path, cls, field, what, ev, ov in P.proto_diff(P.proto_tree(ref), P.proto_tree(out)):
        vs.append(vio(cls, field, what, "%s.%s: peer payload had %s, re-serialised payload has %s (%s)" % (
            cls, field, short(ev), short(ov), "/".join(path)), case,
            {"path": path, "received": ev, "reserialised": ov, "oracle": "O2"}, size, 1))
    return vs, digest, execs


# ---------------------------------------------------------------------------------------------
# O3a: convenience properties of the typed entities
# ---------------------------------------------------------------------------------------------
def prop_targets(kind):
    """property name on the typed entity -> path in the expected tree below the slot"""
    c = CLASSES[kind]
    t = {}
    if c.dm:
        for f in P.DM_FIELDS:
            t[f.name] = ("dm", f.name)
    for f in c.fields:          # class-level names win (document.file_length overrides the base one)
        t[f.name] = (f.name,)
    return t


def dig(tree, path):
    for k in path:
        if not isinstance(tree, dict) or k not in tree:
            return None
        tree = tree[k]
    return tree


ACCESSOR_CLASSES = [(k, TYPED[k][0]) for k in sorted(TYPED)] + [
    ("extended_text", ExtendedTextMediaMessageProtocolEntity), ("extended_text", ExtendedTextMessageProtocolEntity)]


def run_accessors(kind, cls_e):
    """Round-trip an entity whose fields are all set and read every convenience property; then write each
    property on a minimal entity and see the value arrive.  One violation per (class, property), listing
    every way the property misbehaves."""
    problems = {}       # prop -> [(text, case)]
    execs = 0
    c = CLASSES[kind]
    targets = prop_targets(kind)
    meta = lambda: MessageMetaAttributes(**METAS["in"])
    cname = cls_e.__name__

    def problem(name, text, case):
        problems.setdefault(name, []).append((text, case))

    # inputs that raise on the pinned tree are reported by O1; keep them out so this sub-check tests accessors only.
    # document.file_length: two attributes alias one wire field (see assumptions), not exercised through the setter.
    avoid = set(["axolotl_sender_key_distribution_message"]) if kind == "location" else set()
    skip_setter = set(["file_length"]) if kind == "document" else set()
    opt = [n for n in c.optional_names() if n not in avoid]
    use_cls = cls_e
    for mode in (("r", 0), ("r", 1), ("r", 2)):
        spec = P.make_spec(kind, opt, mode)
        case = {"side": "accessor", "kind": kind, "entity": cname, "mode": list(mode)}
        exp = P.expected_tree(spec)[c.slot]
        try:
            ent = cls_e.fromProtocolTreeNode(cls_e(P.media_attrs(P.build_attrs(spec), kind), meta()).toProtocolTreeNode())
        except Exception:
            return [], execs        # reported by O3
        execs += 1
        if hasattr(cls_e, "media_specific_attributes"):
            # the hook every property goes through
            try:
                msa = ent.media_specific_attributes
                ok = msa is P.media_attrs(ent.message_attributes, kind)
            except Exception as e:
                msa, ok = repr(e), False
            if not ok:
                if "media_specific_attributes" not in problems:
                    problem("media_specific_attributes",
                            "%s.media_specific_attributes is %s, not message_attributes.%s: every convenience property "
                            "of the entity fails (the other properties were then tested with this one repaired)" % (
                                cname, short(msa), c.slot), case)
                slot = c.slot
                use_cls = type("Repaired" + cname, (cls_e,), {
                    "media_specific_attributes": property(lambda self, slot=slot: getattr(self.message_attributes, slot))})
                ent.__class__ = use_cls
        for name, path in sorted(targets.items()):
            if not isinstance(getattr(cls_e, name, None), property) or name in avoid:
                continue
            want = dig(exp, path)
            try:
                got = getattr(ent, name)
                got = P._plain(got) if got is not None else None
            except Exception as e:
                problem(name, "reading %s.%s raises %s: %s (%s)" % (cname, name, type(e).__name__, e, exc_site(e)),
                        dict(case, prop=name))
                continue
            if want is not None and not P._same(want, got):
                problem(name, "%s.%s reads %s, the attribute holds %s" % (cname, name, short(got), short(want)),
                        dict(case, prop=name))
    # setters: start from the minimal entity, write one property, send it through node and back
    for name, path in sorted(targets.items()):
        p = getattr(cls_e, name, None)
        if not isinstance(p, property) or p.fset is None or name in avoid or name in skip_setter:
            continue
        f = [f for n, f in c.all_fields() if (n == name or n == "dm." + name)][-1]
        for idx in (0, 2, 1):
            v = P.value(f.kind, "set.%s" % name, idx)
            case = {"side": "setter", "kind": kind, "entity": cname, "prop": name, "idx": idx}
            spec = P.make_spec(kind, [], ("u", 0))
            try:
                ent = use_cls(P.media_attrs(P.build_attrs(spec), kind), meta())
                setattr(ent, name, v)
            except Exception as e:
                problem(name, "%s.%s = %s raises %s: %s (%s)" % (cname, name, short(v), type(e).__name__, e, exc_site(e)), case)
                break
            try:
                ent2 = cls_e.fromProtocolTreeNode(ent.toProtocolTreeNode())
            except Exception as e:
                problem(name, "after %s.%s = %s the entity cannot be sent: %s: %s" % (cname, name, short(v), type(e).__name__, e),
                        case)
                break
            execs += 1
            got = dig(P.attrs_tree(ent2.message_attributes).get(c.slot, {}), path)
            if not P._same(v, got):
                problem(name, "%s.%s = %s, after entity -> node -> entity the attribute reads %s" % (cname, name, short(v), short(got)),
                        case)
                break
    vs = []
    for name, lst in sorted(problems.items()):
        texts = []
        for t, _ in lst:
            if t not in texts:
                texts.append(t)
        owner = "downloadablemedia" if targets.get(name, ("",))[0] == "dm" else kind
        vs.append(vio(owner, name, "entity-accessor", "; ".join(texts[:2]), lst[0][1], texts, 0, 3))
    return vs, execs


# ---------------------------------------------------------------------------------------------
# O4: operation sequences on one entity object
# ---------------------------------------------------------------------------------------------
TO2 = "4915100000009@s.whatsapp.net"


def seq_forms():
    """[(kind, form index, form name)] every entity form once (the gif/ptt aliases share the class of the first form)"""
    out = []
    for kind in KINDS:
        for i, form in enumerate(entity_forms(kind)):
            if "[" in form[0]:
                continue
            out.append((kind, i, form[0]))
    return out


def seq_base_specs(kind):
    """two contents per kind: only the required fields, and every optional field set; both quote a text where possible"""
    if kind == TEXT:
        return [P.text_spec(0)]
    c = CLASSES[kind]
    ctx = std_ctx(("r", 0)) if c.ctx else None
    return [P.make_spec(kind, [], ("r", 0), ctx=ctx), P.make_spec(kind, c.optional_names(), ("r", 1), ctx=ctx)]


def seq_items():
    """(kind, form index, base spec, field id, new index) - every modifiable field x every other alphabet value
    (and 'unset' for optional fields; for the context info as a whole: another one / none)."""
    for kind, fi, fname in seq_forms():
        for base in seq_base_specs(kind):
            for fid, f in P.field_ids(base):
                old = P.field_index(base, fid)
                if fid == "ctx":
                    news = [P.full_ctx(("r", 2), quoted=P.text_spec(1)), P.make_ctx(["mentioned_jid"], ("u", 0))]
                    if old is not None and not CLASSES[kind].dm:
                        # MediaAttributes.context_info asserts a ContextInfoAttributes: removing one is outside its contract
                        news.append(None)
                else:
                    news = [i for i in (0, 1, 2) if i != old] + ([None] if (f.optional and old is not None) else [])
                oldv = P.field_value(base, fid) if fid != "ctx" else None
                for new in news:
                    if fid != "ctx":
                        newv = P.field_value(P.with_field(base, fid, new), fid)
                        if newv is not None and oldv is not None and P._same(newv, oldv):
                            continue        # two alphabet indices of a 2-valued kind
                    yield ("seq", (kind, fi, base, fid, new))
        # C: whole-object replacement, between every ordered pair of three contents
        bases = seq_base_specs(kind)
        if kind == TEXT:
            trio = [P.text_spec(0), P.text_spec(2), P.text_spec(1)]
        else:
            c = CLASSES[kind]
            trio = [bases[0], bases[-1], P.make_spec(kind, c.optional_names()[::2], ("r", 2),
                                                    ctx=P.make_ctx(["stanza_id"], ("u", 2)) if c.ctx else None)]
        for a in range(3):
            for b in range(3):
                if a != b:
                    yield ("seq", (kind, fi, trio[a], "*", trio[b]))


def payload_tree(node):
    m = e2e_pb2.Message()
    m.ParseFromString(node.getChild("proto").getData())
    return P.proto_tree(m)


def setter_name(kind, cls_e, fid):
    """name of the entity's property that writes fid, or None"""
    if kind == TEXT:
        return "conversation" if isinstance(getattr(cls_e, "conversation", None), property) else None
    if fid == "ctx":
        p = getattr(cls_e, "context_info", None)
        return "context_info" if isinstance(p, property) and p.fset else None
    if fid.startswith("ctx.") or fid.startswith("key."):
        return None
    path = ("dm", fid[3:]) if fid.startswith("dm.") else (fid,)
    for name, tp in prop_targets(kind).items():
        p = getattr(cls_e, name, None)
        if tp == path and isinstance(p, property) and p.fset is not None:
            return name
    return None


class ModifyRaised(Exception):
    def __init__(self, orig):
        Exception.__init__(self, repr(orig))
        self.orig = orig


def modify(ent, kind, fid, new_spec, way, cls_e):
    v = P.field_value(new_spec, fid)
    try:
        if way == "property":
            setattr(ent, setter_name(kind, cls_e, fid), v)
        else:
            obj, name = P.locate(ent.message_attributes, kind, fid)
            setattr(obj, name, v)
    except Exception as e:
        raise ModifyRaised(e)


def setter_owner(kind, fid):
    """(class, field) whose setter is exercised when fid is modified through the attribute objects"""
    if fid == "ctx":
        return ("downloadablemedia" if CLASSES[kind].dm else kind), "context_info"
    return P.owner_of(kind, fid)


def run_seq_item(item):
    """-> (violations, n real serialisations/parses)"""
    kind, fi, base, fid, new = item
    form, cls_e, mtype, mediatype, ctor = entity_forms(kind)[fi]
    case = {"side": "seq", "item": [kind, fi, base, fid, new]}
    size = P.spec_size(base)
    vs = []
    execs = [0]
    old_ref = P.proto_tree(P.build_proto(base))

    def ser(e):
        execs[0] += 1
        return e.toProtocolTreeNode()

    def fresh(mname="out", spec=base):
        return make_entity(ctor, P.build_attrs(spec), spec, METAS[mname])

    def parsed():
        execs[0] += 1
        return cls_e.fromProtocolTreeNode(ser(fresh("in")))

    def judge(seq, way, node, want_ref, other_ref, role="payload"):
        """'' when the node's payload equals want_ref by value, else what it is instead"""
        got = payload_tree(node)
        d = P.proto_diff(want_ref, got)
        if not d:
            return None
        stale = not P.proto_diff(other_ref, got)
        return ("stale" if stale else "wrong", d)

    def report(seq, way, verdict, what_kind):
        word, d = verdict
        path, cls, field, what, ev, ov = d[0]
        ocls, ofield = P.owner_of(kind, fid) if fid != "*" else ("entity", "message_attributes")
        text = "%s, sequence %s (%s), field %s modified through the %s: the <proto> payload %s (%s: expected %s, payload has %s)" % (
            form, seq, SEQ_TEXT[seq], fid, "entity property %s" % setter_name(kind, cls_e, fid) if way == "property"
            else ("message_attributes setter" if fid == "*" else "attribute object"),
            {"stale": "still carries the OLD content", "wrong": "carries neither the new content nor the old one"}[word]
            if what_kind == "new" else "of the ORIGINAL changed although only the copy was modified",
            "/".join(path), short(ev), short(ov))
        return (seq, way, word, what_kind, ocls, ofield, text, d[0])

    if fid == "*":
        # C: whole-object replacement
        new_spec = new
        new_ref = P.proto_tree(P.build_proto(new_spec))
        problems = []
        try:
            e = fresh()
            ser(e)
            e.message_attributes = P.build_attrs(new_spec)
            v = judge("C", "attrs", ser(e), new_ref, old_ref)
            if v:
                problems.append(report("C", "attrs", v, "new"))
        except Exception as ex:
            vs.append(vio("sequence", SEQ_GROUP["C"], "raises", "%s, sequence C: %s: %s (%s)" % (form, type(ex).__name__, ex, exc_site(ex)),
                          case, repr(ex), size, 4))
        for seq, way, word, wk, ocls, ofield, text, d0 in problems:
            vs.append(vio("sequence", SEQ_GROUP[seq], "%s-payload" % word, text, case, {"diff": d0}, size, 4))
        return vs, execs[0]

    new_spec = P.with_field(base, fid, new)
    new_ref = P.proto_tree(P.build_proto(new_spec))
    ways = ["attrs"] + (["property"] if setter_name(kind, cls_e, fid) else [])
    results = {}        # (seq, way) -> report tuple
    for way in ways:
        for seq in ("A", "B", "B2", "D"):
            try:
                if seq == "A":
                    e = fresh()
                    n1 = ser(e)
                    modify(e, kind, fid, new_spec, way, cls_e)
                    e.to = TO2
                    n2 = ser(e)
                    v = judge(seq, way, n2, new_ref, old_ref)
                    if v:
                        results[(seq, way)] = report(seq, way, v, "new")
                    if n2["to"] != TO2 or n1["to"] != METAS["out"]["recipient"]:
                        vs.append(vio("sequence", "A", "recipient", "%s: after entity.to = x the second node is addressed to %r, "
                                      "the first to %r" % (form, n2["to"], n1["to"]), case, None, size, 4))
                elif seq in ("B", "B2"):
                    e = parsed()
                    if seq == "B2":
                        ser(e)
                    modify(e, kind, fid, new_spec, way, cls_e)
                    v = judge(seq, way, ser(e), new_ref, old_ref)
                    if v:
                        results[(seq, way)] = report(seq, way, v, "new")
                else:
                    e = fresh()
                    n1 = ser(e)
                    cp = e.forward(TO2)
                    modify(cp, kind, fid, new_spec, way, cls_e)
                    ncp = ser(cp)
                    v = judge(seq, way, ncp, new_ref, old_ref)
                    if v:
                        results[(seq, way)] = report(seq, way, v, "new")
                    v = judge(seq, way, ser(e), old_ref, new_ref) or judge(seq, way, n1, old_ref, new_ref)
                    if v:
                        results[(seq + "-original", way)] = report(seq, way, v, "original")
            except ModifyRaised as mr:
                ex = mr.orig
                results[(seq, way)] = (seq, way, "setter-raises", "new") + setter_owner(kind, fid) + (
                    "%s: assigning %s through the %s raises %s: %s (%s)" % (
                        form, fid, "entity property" if way == "property" else "attribute object",
                        type(ex).__name__, str(ex)[:120], exc_site(ex)), repr(ex)[:200])
            except Exception as ex:
                results[(seq, way)] = (seq, way, "raises", "new") + P.owner_of(kind, fid) + (
                    "%s, sequence %s, field %s modified through the %s: %s: %s (%s)" % (
                        form, seq, fid, way, type(ex).__name__, ex, exc_site(ex)), repr(ex)[:200])
    for (seqk, way), (seq, _, word, wk, ocls, ofield, text, d0) in sorted(results.items()):
        if way == "property" and (seqk, "attrs") not in results:
            # the attribute-object route works: the entity's property is at fault, not the entity mechanism
            vs.append(vio(ocls, ofield, "entity-accessor", text, case, {"diff": d0}, size, 4))
        elif way == "attrs" or (seqk, "attrs") in results:
            if way == "property":
                continue            # same failure already reported for the attribute-object route
            if word == "setter-raises":
                vs.append(vio(ocls, ofield, "setter-raises", text, case, {"exception": d0}, size, 4))
                continue
            what = "original-changed" if wk == "original" else ("raises" if word == "raises" else "%s-payload" % word)
            vs.append(vio("sequence", SEQ_GROUP[seq], what, text, case, {"diff": d0}, size, 4))
    return vs, execs[0]


# one signature per mechanism: A, B2 and the copy in D all re-serialise an entity that was serialised before the change
SEQ_GROUP = {"A": "modify-after-serialise", "B2": "modify-after-serialise", "D": "modify-after-serialise",
             "B": "modify-after-parse", "C": "replace-message-attributes"}
SEQ_TEXT = {"A": "serialise, modify, serialise", "B": "parse incoming node, modify, serialise",
            "B2": "parse, serialise, modify, serialise", "C": "serialise, replace message_attributes, serialise",
            "D": "serialise, forward() a copy, modify the copy, serialise both"}


# ---------------------------------------------------------------------------------------------
# O5: media type of the <proto> child
# ---------------------------------------------------------------------------------------------
from yowsup.structs import ProtocolTreeNode

# independent of MediaMessageProtocolEntity.TYPES_MEDIA on purpose (checked against it in run())
MT_SUPPORTED = ["image", "audio", "video", "contact", "location", "document", "gif", "ptt", "url", "sticker"]
MT_OTHER = ["livelocation", "vcard", "product", "ü-new-type", ""]
MT_ABSENT = None
MT_CLASSES = [("generic", MediaMessageProtocolEntity)] + [(k, TYPED[k][0]) for k in sorted(TYPED)] + [
    ("extended_text", ExtendedTextMediaMessageProtocolEntity)]
MT_GENERIC_CONTENTS = sorted(TYPED) + ["extended_text"]


def mt_class_of(mt):
    return "absent" if mt is None else ("supported" if mt in MT_SUPPORTED else "other-string")


def mt_items():
    """(direction, class label, content kind, mediatype, meta name)"""
    for label, cls_e in MT_CLASSES:
        kinds = MT_GENERIC_CONTENTS if label == "generic" else [label]
        for kind in kinds:
            for mt in MT_SUPPORTED + MT_OTHER + [MT_ABSENT]:
                for mname in ("in", "in-group"):
                    yield ("mt", ("received", label, kind, mt, mname))
                if mt is not None:
                    yield ("mt", ("composed", label, kind, mt, "out"))


def mt_content(kind):
    c = CLASSES[kind]
    return P.make_spec(kind, c.optional_names(), ("r", 0), ctx=std_ctx(("r", 0)) if c.ctx else None)


def ref_incoming_node(mt, mname, data):
    """the stanza a peer's media message arrives as, written from the stanza layout, not with the entity classes"""
    m = METAS[mname]
    attrs = {"from": m["sender"], "id": m["id"], "t": str(m["timestamp"]), "type": "media", "notify": m["notify"],
             "offline": "1" if m["offline"] else "0"}
    if m.get("participant"):
        attrs["participant"] = m["participant"]
    pattrs = {} if mt is None else {"mediatype": mt}
    return ProtocolTreeNode("message", attrs, [ProtocolTreeNode("proto", dict(pattrs), None, data)]), pattrs


def run_mt_item(item):
    direction, label, kind, mt, mname = item
    cls_e = dict(MT_CLASSES)[label]
    cname = cls_e.__name__
    case = {"side": "mt", "item": list(item)}
    vclass = mt_class_of(mt)
    spec = mt_content(kind)
    ref = P.proto_tree(P.build_proto(spec))
    vs = []
    execs = [0]

    def bad(what, text, detail=None):
        vs.append(vio("mediatype", vclass, what, "%s, mediatype %r (%s): %s" % (cname, mt, vclass, text), case, detail, 0, 5))

    def proto_child_ok(node, want_attrs, who, what_prefix):
        pn = node.getChild("proto")
        if pn is None:
            bad(what_prefix + "-changed", "%s has no <proto> child" % who)
            return
        if dict(pn.attributes) != want_attrs:
            if "mediatype" not in want_attrs and pn.attributes.get("mediatype", 0) is None and len(pn.attributes) == 1:
                bad("absent-written-as-None", "%s: the received <proto> had no mediatype attribute, the re-serialised one has "
                    "mediatype=None (an attribute whose value is None; the binary encoder cannot encode it)" % who,
                    {"received": want_attrs, "written": dict(pn.attributes)})
            else:
                bad(what_prefix + "-changed", "%s: <proto> attributes are %r, expected %r" % (who, dict(pn.attributes), want_attrs),
                    {"expected": want_attrs, "written": dict(pn.attributes)})
        d = P.proto_diff(ref, payload_tree(node))
        if d:
            bad("payload-changed", "%s: payload differs at %s" % (who, "/".join(d[0][0])), {"diff": d[0]})

    if direction == "received":
        data = P.build_proto(spec).SerializeToString()
        node, pattrs = ref_incoming_node(mt, mname, data)
        step = "fromProtocolTreeNode"
        try:
            execs[0] += 1
            e = cls_e.fromProtocolTreeNode(node)
            step = "reading media_type"
            got = e.media_type
            if got != mt:
                bad("received-changed", "media_type reads %r after parsing" % (got,))
            step = "str()"
            str(e)
            step = "toProtocolTreeNode"
            execs[0] += 1
            n2 = e.toProtocolTreeNode()
            proto_child_ok(n2, pattrs, "re-serialised node", "received")
            for k in ("from", "id", "type", "participant"):
                if n2[k] != node[k]:
                    bad("received-changed", "attribute %s of the re-serialised message is %r, was %r" % (k, n2[k], node[k]))
            step = "forward().toProtocolTreeNode"
            execs[0] += 1
            nf = e.forward(TO2).toProtocolTreeNode()
            proto_child_ok(nf, pattrs, "forwarded node", "received")
            if nf["to"] != TO2:
                bad("received-changed", "forwarded node is addressed to %r" % nf["to"])
            step = "reading media_type after forward"
            if e.media_type != mt:
                bad("received-changed", "media_type reads %r after forward()" % (e.media_type,))
        except Exception as ex:
            bad("received-raises", "%s raises %s: %s (%s)" % (step, type(ex).__name__, ex, exc_site(ex)), repr(ex))
        return vs, execs[0]

    # composed
    a = P.build_attrs(spec)

    def build():
        if label == "generic":
            return MediaMessageProtocolEntity("image" if mt != "image" else "video", a, MessageMetaAttributes(**METAS["out"]))
        return cls_e(P.media_attrs(a, kind), MessageMetaAttributes(**METAS["out"]))

    want = {"mediatype": mt}
    for variant in ("set-then-serialise", "serialise-set-serialise", "constructor"):
        if variant == "constructor" and label != "generic":
            continue
        step = "constructing"
        try:
            if variant == "constructor":
                e = MediaMessageProtocolEntity(mt, a, MessageMetaAttributes(**METAS["out"]))
            else:
                e = build()
                if variant == "serialise-set-serialise":
                    execs[0] += 1
                    e.toProtocolTreeNode()
                step = "media_type = %r" % mt
                e.media_type = mt
            step = "reading media_type"
            if e.media_type != mt:
                bad("set-changed", "%s: media_type reads %r after being set to %r" % (variant, e.media_type, mt))
            step = "toProtocolTreeNode"
            execs[0] += 1
            n = e.toProtocolTreeNode()
            proto_child_ok(n, want, "%s: node" % variant, "set")
            step = "fromProtocolTreeNode of the produced node"
            execs[0] += 1
            back = cls_e.fromProtocolTreeNode(n)
            if back.media_type != mt:
                bad("set-changed", "%s: the produced node parses back with media_type %r" % (variant, back.media_type))
        except Exception as ex:
            bad("set-raises", "%s: %s raises %s: %s (%s)" % (variant, step, type(ex).__name__, ex, exc_site(ex)), repr(ex))
    return vs, execs[0]


# ---------------------------------------------------------------------------------------------
# the space
# ---------------------------------------------------------------------------------------------
def std_ctx(mode):
    """context info used when the 'context_info' bit of a class-level subset is on"""
    m, k = mode
    return P.full_ctx((m, (k + 1) % 3), quoted=P.text_spec((k + 2) % 3))


def valid_leaf(kind, mode=("r", 0)):
    """minimal spec of `kind` (used as quoted message)"""
    if kind == TEXT:
        return P.text_spec(mode[1])
    return P.make_spec(kind, [], mode)


def attr_specs(tier):
    """Attribute-side space. Yields (group, spec)."""
    modes = ALPHA_MODES
    # 1. per class: every subset of optional fields (+ the context-info bit) x alphabet modes
    for k in (0, 1, 2):
        yield "text", P.text_spec(k)
    yield "text", {"kind": TEXT, "vals": {}, "ctx": None}
    for kind in KINDS:
        if kind == TEXT:
            continue
        c = CLASSES[kind]
        opt = c.optional_names()
        for s in P.subsets(opt):
            for mode in modes:
                yield kind, P.make_spec(kind, s, mode)
                if c.ctx:
                    yield kind, P.make_spec(kind, s, mode, ctx=std_ctx(mode))
    # 2. context info: every subset of its fields (+ quoted bit) x modes, in every host class
    for host in CTX_HOSTS:
        for s in P.subsets(CTX_NAMES):
            for mode in modes:
                for quoted in (None, P.text_spec(mode[1])):
                    yield "context_info", P.make_spec(host, [], ("u", 0), ctx=P.make_ctx(s, mode, quoted))
    # 3. nesting to depth 3: every chain of host classes, every leaf kind; context fields all set / quoted only
    for depth in (1, 2, 3):
        for chain in itertools.product(CTX_HOSTS, repeat=depth):
            for leaf in KINDS:
                for full in ((True, False) if (tier != "quick" or depth < 3) else (True,)):
                    spec = valid_leaf(leaf, ("r", depth % 3))
                    if leaf == "protocol":
                        spec["vals"]["key.participant"] = 0
                    for i, host in enumerate(reversed(chain)):
                        cx = P.full_ctx(("r", i % 3), quoted=spec) if full else P.make_ctx([], quoted=spec)
                        spec = P.make_spec(host, [], ("r", (i + 1) % 3), ctx=cx)
                    yield "nesting", spec
    # 3b. two contents in one message: a sender-key distribution (or a text) riding along with each kind
    for kind in KINDS:
        for rider in ("skdm", TEXT):
            if rider == kind:
                continue
            for mode in modes[3:]:
                if kind == TEXT:
                    base = [P.text_spec(mode[1])]
                else:
                    c = CLASSES[kind]
                    must = ["key.participant"] if kind == "protocol" else []
                    full = [n for n in c.optional_names() if n != "axolotl_sender_key_distribution_message"]
                    base = [P.make_spec(kind, must, mode), P.make_spec(kind, full, mode,
                                                                      ctx=std_ctx(mode) if c.ctx else None)]
                for b in base:
                    b["also"] = valid_leaf(rider, mode)
                    yield "combined", b
    if tier != "quick":
        # 4. extreme values (independent per-field values are enumerated lazily in the workers: product_jobs)
        for kind in KINDS:
            if kind == TEXT:
                continue
            c = CLASSES[kind]
            opt = c.optional_names()
            for s in P.subsets(opt):
                yield kind + "!", P.make_spec(kind, s, ("x", 0))
        # context subsets at depth 2 and 3 (host: extended_text)
        for s in P.subsets(CTX_NAMES):
            for mode in modes:
                inner = P.make_spec("extended_text", ["text"], mode, ctx=P.make_ctx(s, mode, P.text_spec(mode[1])))
                mid = P.make_spec("image", [], mode, ctx=P.make_ctx(["stanza_id"], mode, inner))
                yield "nesting", mid
                yield "nesting", P.make_spec("contact", [], mode, ctx=P.make_ctx(["mentioned_jid"], mode, mid))


PRODUCT_SPLIT = 3      # leading optional fields fixed per job


def product_choices(kind):
    n = len(CLASSES[kind].optional_names())
    if n <= 8:
        return [(None, 0, 1, 2)]
    return [(None, 0, 1), (None, 1, 2), (None, 2, 0)]


def product_jobs():
    """Thorough tier: every optional field INDEPENDENTLY unset / v0 / v1 / v2 (classes with <= 8 optional fields;
    for the two larger classes unset / two of the three values, for each of the three pairs)."""
    for kind in KINDS:
        if kind == TEXT:
            continue
        opt = CLASSES[kind].optional_names()
        k = min(PRODUCT_SPLIT, len(opt))
        for ch in product_choices(kind):
            for prefix in itertools.product(ch, repeat=k):
                yield ("attrprod", (kind, ch, prefix))


def product_specs(kind, ch, prefix):
    c = CLASSES[kind]
    opt = c.optional_names()
    order = P.class_field_names(kind)
    req = dict((n, order.index(n) % 3) for n in c.required_names())
    for rest in itertools.product(ch, repeat=len(opt) - len(prefix)):
        vals = dict(req)
        for n, v in zip(opt, tuple(prefix) + rest):
            if v is not None:
                vals[n] = v
        yield kind + "*", {"kind": kind, "vals": vals, "ctx": None}


def proto_specs(tier):
    """Proto-side space: every subset of ALL modelled fields of a message (a peer may omit any), x modes."""
    modes = ALPHA_MODES
    for k in (0, 1, 2):
        yield "text", P.text_spec(k)
    yield "text", {"kind": TEXT, "vals": {}, "ctx": None}
    for kind in KINDS:
        if kind == TEXT:
            continue
        c = CLASSES[kind]
        names = P.class_field_names(kind)
        if kind == "document":
            names = [n for n in names if n != "file_length"]      # same wire field as dm.file_length
        kmodes = modes if (tier != "quick" or len(names) <= 12) else modes[:4]
        for s in P.subsets(names):
            for mode in kmodes:
                vals = P.assign(P.class_field_names(kind), set(s), mode)
                yield kind, {"kind": kind, "vals": vals, "ctx": None}
                if c.ctx:
                    yield kind, {"kind": kind, "vals": vals, "ctx": std_ctx(mode)}
    for host in CTX_HOSTS:
        for s in P.subsets(CTX_NAMES):
            for mode in modes:
                for quoted in (None, P.text_spec(mode[1])):
                    yield "context_info", P.make_spec(host, [], ("u", 0), ctx=P.make_ctx(s, mode, quoted))
    for depth in (1, 2, 3):
        for chain in itertools.product(CTX_HOSTS, repeat=depth):
            for leaf in KINDS:
                spec = valid_leaf(leaf, ("r", depth % 3))
                for i, host in enumerate(reversed(chain)):
                    spec = P.make_spec(host, [], ("r", (i + 1) % 3), ctx=P.full_ctx(("r", i % 3), quoted=spec))
                yield "nesting", spec
    for group, spec in attr_specs("quick"):
        if group == "combined":
            yield group, spec
    if tier != "quick":
        for kind in KINDS:
            if kind == TEXT:
                continue
            for s in P.subsets(P.class_field_names(kind)):
                yield kind + "!", {"kind": kind, "vals": P.assign(P.class_field_names(kind), set(s), ("x", 0)), "ctx": None}


# ---------------------------------------------------------------------------------------------
# workers
# ---------------------------------------------------------------------------------------------
def work(chunk):
    side, specs = chunk
    if side in ("seq", "mt"):
        vs, execs = [], 0
        for it in specs:
            v, n = (run_seq_item if side == "seq" else run_mt_item)(it)
            vs += v
            execs += n
        return best_per_sig(vs), set(), execs, set(), len(vs), 0
    if side == "attrprod":
        side, specs = "attr", product_specs(*specs)
        light = True
    else:
        light = False
    vs = []
    digests = set()
    execs = 0
    nontrivial = set()
    nspec = 0
    for group, spec in specs:
        nspec += 1
        if side == "attr":
            v, d, n = run_attr_spec(spec, with_entities=not light or len(spec["vals"]) % 4 == 0)
        else:
            v, d, n = run_proto_spec(spec)
        vs += v
        execs += n
        if d is not None:
            digests.add(d)
        if is_nontrivial(spec):
            nontrivial.add(hashlib.sha1(json.dumps(spec, sort_keys=True).encode()).digest()[:8])
    # keep the smallest case per signature inside the chunk
    return best_per_sig(vs), digests, execs, nontrivial, len(vs), nspec


def is_nontrivial(spec):
    if spec.get("also"):
        return True
    kind = spec["kind"]
    if kind == TEXT:
        return bool(spec["vals"])
    c = CLASSES[kind]
    opt = set(c.optional_names())
    return bool(spec.get("ctx")) or any(n in opt for n in spec["vals"])


def best_per_sig(vs):
    best = {}
    for v in vs:
        sig, line, case, detail, size, rank = v
        key = (size, rank, json.dumps(case, sort_keys=True, default=repr))
        if sig not in best or key < best[sig][0]:
            best[sig] = (key, v)
    return [b[1] for b in best.values()]


def consolidate(vs):
    """One signature per defect: a field that is lost for every value is not also reported as 'lost when set to
    its default value'; an entity property is not blamed when the field underneath it is already lost/raising."""
    vs = best_per_sig(vs)
    by_field = {}
    for v in vs:
        _, cls, field, what = v[0].split(":", 3)
        by_field.setdefault((cls, field), set()).add(what)
    out = []
    for v in vs:
        _, cls, field, what = v[0].split(":", 3)
        others = by_field[(cls, field)] - set([what])
        if what == "set-to-default-lost" and "lost" in others:
            continue
        if what == "entity-accessor" and others:
            continue
        out.append(v)
    return sorted(out, key=lambda v: v[0])


def chunks(items, n):
    buf = []
    for it in items:
        buf.append(it)
        if len(buf) >= n:
            yield buf
            buf = []
    if buf:
        yield buf


def run(ctx):
    from vf.runner import shuffled
    env.fix_clock()
    tier = ctx.tier
    jobs = []
    counts = {}
    for side, gen in (("attr", attr_specs), ("proto", proto_specs)):
        seen = set()
        uniq = []
        for group, spec in gen(tier):
            key = json.dumps(spec, sort_keys=True)
            if key in seen:
                continue
            seen.add(key)
            uniq.append((group, spec))
            counts[side + ":" + group] = counts.get(side + ":" + group, 0) + 1
        for ch in chunks(uniq, 150 if side == "attr" else 400):
            jobs.append((side, ch))
    if not ctx.quick:
        jobs += list(product_jobs())
    seq_all = [it for _, it in seq_items()]
    for ch in chunks(seq_all, 60):
        jobs.append(("seq", ch))
    assert sorted(MT_SUPPORTED) == sorted(MediaMessageProtocolEntity.TYPES_MEDIA), "media type alphabet out of date"
    mt_all = [it for _, it in mt_items()]
    for ch in chunks(mt_all, 80):
        jobs.append(("mt", ch))
    jobs = shuffled(jobs, ctx.seed, "c10")

    allv = []
    digests = set()
    execs = 0
    nontrivial = set()
    failing_cases = 0
    nspecs = 0
    for vs, dg, n, nt, nv, ns in ctx.pimap(work, jobs):
        nspecs += ns
        allv += vs
        digests |= dg
        execs += n
        nontrivial |= nt
        failing_cases += nv
    # typed-entity convenience properties (small, in-process)
    acc_execs = 0
    for kind, cls_e in ACCESSOR_CLASSES:
        vs, n = run_accessors(kind, cls_e)
        allv += vs
        acc_execs += n
    # deterministic, seed-independent representative per signature: the smallest case
    for sig, line, case, detail, size, rank in consolidate(allv):
        ctx.violation(sig, line, case, detail)
    ctx.violation_count = max(ctx.violation_count, failing_cases)

    ctx.sample({"side": "attr", "spec": P.make_spec("extended_text", ["text", "title"], ("r", 0), ctx=std_ctx(("r", 0)))})
    ctx.sample({"side": "proto", "spec": {"kind": "location", "vals": {"degrees_latitude": 0, "name": 2}, "ctx": None}})
    ctx.sample({"side": "attr", "expected_tree_of_first_sample": P.expected_tree(
        P.make_spec("extended_text", ["text", "title"], ("r", 0), ctx=std_ctx(("r", 0))))})
    ctx.coverage.update({
        "evaluations": execs + acc_execs,
        "specs": nspecs,
        "distinct_nontrivial": len(nontrivial),
        "rule": "spec sets at least one optional field or carries a context info; counted as distinct canonical spec JSON "
                "(evaluations = calls of message_to_protobytes / protobytes_to_message / entity->node->entity on real code)",
        "exhaustive": True,
        "distinct_outcomes": len(digests),
        "per_group": counts,
        "accessor_roundtrips": acc_execs,
        "sequence_items": len(seq_all),
        "sequence_items_whole_object": sum(1 for it in seq_all if it[3] == "*"),
        "sequence_forms": len(seq_forms()),
        "mediatype_items": len(mt_all),
        "mediatype_items_received": sum(1 for it in mt_all if it[0] == "received"),
        "mediatype_alphabet": MT_SUPPORTED + MT_OTHER + ["(absent)"],
        "mediatype_entity_classes": len(MT_CLASSES),
        "bound": "per attribute class: all subsets of optional fields (+context-info bit) x 6 alphabet assignments "
                 "(3 uniform, 3 rotated); context info: all 2^6 field subsets x quoted bit x 6 assignments in each of %d host "
                 "classes; nesting: every chain of host classes up to depth 3 x %d leaf kinds; proto side: all subsets of ALL "
                 "modelled fields x 6 assignments (quick: 4 for the 13-field video message); operation sequences A/B/B2/D on "
                 "one entity for every entity form x 2 base contents x every modifiable field x every other alphabet "
                 "value / unset, by property setter and by attribute object, and C between 3 contents; media type: %d entity "
                 "classes (the generic one with each of 8 contents) x 16 mediatype values received (2 envelopes) and 15 "
                 "composed%s" % (
                     len(CTX_HOSTS), len(KINDS), len(MT_CLASSES),
                     "" if ctx.quick else "; thorough: independent per-field values (4^n, n<=8; 3x3^n above), extreme values"),
        "violating_cases": failing_cases,
    })
    ctx.assume("4-byte float fields (duration, speed_in_mps) are given exactly representable values; other floats are doubles")
    ctx.assume("DocumentAttributes.file_length and its downloadable-media base file_length name one wire field; "
               "the generated sender sets them to the same value")
    ctx.assume("constructor parameters without default that the converter assigns unconditionally (image width/height, "
               "mimetype, file_length, file_sha256, contact name/vcard, group_id, message key remote_jid/from_me/id) "
               "are always set on the attribute side; a revoke key's participant is optional (absent in 1:1 chats)")
    ctx.assume("integers stay within the proto field's range (all modelled integer fields are unsigned; negative values "
               "only for float/double fields); ContactMessage.vcard is a bytes field in this tree's e2e.proto")
    ctx.assume("google.protobuf (pure python) serialises/parses correctly; the reference builder uses it directly")
    ctx.assume("operation sequences: a downloadable-media context info is replaced but never removed (MediaAttributes."
               "context_info asserts a ContextInfoAttributes instance); the document-level file_length alias is not modified")


def replay(ctx, case):
    env.fix_clock()
    side = case.get("side")
    if side == "attr":
        vs, _, _ = run_attr_spec(case["spec"])
    elif side == "proto":
        vs, _, _ = run_proto_spec(case["spec"])
    elif side == "mt":
        vs = run_mt_item(tuple(case["item"]))[0]
    elif side == "seq":
        it = case["item"]
        vs = run_seq_item((it[0], it[1], it[2], it[3], it[4]))[0]
    elif side in ("accessor", "setter"):
        vs = []
        for kind, cls_e in ACCESSOR_CLASSES:
            if kind == case["kind"] and cls_e.__name__ == case.get("entity", cls_e.__name__):
                vs += run_accessors(kind, cls_e)[0]
        want = case.get("prop", "media_specific_attributes")
        vs = [v for v in vs if v[0].split(":")[2] == want]
    else:
        return []
    return [v[:4] for v in consolidate(vs)]
