"""C11 Concurrent senders never corrupt the encrypted stream.

Controlled-scheduler exploration (E3) on the real coder/noise/segments/network layers after a completed
handshake (handshake on the default schedule; the preemption budget applies afterwards): 2-4 sender threads
(application threads entering at the top, the keep-alive entering at the iq layer - both a direct sendIq caller
and the library's real YowPingThread -, and the network thread answering server pings) each send 1-2 stanzas.
Oracle, per execution: the byte stream at the dispatcher is a sequence of whole frames, the strict in-order
responder decrypts every one of them, the multiset of decoded stanzas equals the multiset sent, each thread's
stanzas keep their order, no thread is left blocked, no exception escapes.
"""
from vf import env
env.bootstrap()

from vf.harness import noise as H
from vf.explore import sched as S
from vf.explore import dfs
from vf.runner import shuffled

from yowsup.structs.protocoltreenode import ProtocolTreeNode
from yowsup.layers.protocol_iq.layer import YowIqProtocolLayer
from yowsup.layers.protocol_iq.protocolentities import PingIqProtocolEntity

PROPERTY = "C11"
LEVEL = "model_checking"
MOD = "vf.props.c11_concurrent_senders"


def server_ping(i):
    return ProtocolTreeNode("iq", {"type": "get", "xmlns": "urn:xmpp:ping", "id": "sp%d" % i, "from": "s.whatsapp.net"})


def run_case(case, prefix):
    apps = case.get("apps", [2, 2])             # stanzas per application thread
    direct_ping = case.get("direct_ping", 0)    # a thread calling YowIqProtocolLayer.sendIq(ping) n times
    real_ping = case.get("real_ping", False)    # the library's YowPingThread, one interval
    early = case.get("early", 0)                # a sender that does not wait for the login to complete
    server_pings = case.get("server_pings", 0)  # network thread answers n server pings
    variant = case.get("variant", "IK")
    w = H.World(variant=variant, burst=0, with_success=True, ping_interval=1 if real_ping else 0)
    sc = S.Scheduler(prefix, trace_filter=H.trace_filter, line_filter=H.line_filter if case.get("lines") else None)
    iq = [l for l in w.par.sublayers if isinstance(l, YowIqProtocolLayer)][0]
    go = {"senders": False}

    def net():
        w.connect()
        w.dispatchers[0].fire_connected()
        while True:
            had = len(w.server_out[0]) > 0
            sc.wait_until(lambda: len(w.server_out[0]) > 0, "server bytes")
            if had:
                # back in select() between two socket events: the other threads ran meanwhile for free
                sc.env_point("next socket event")
            w.deliver(0, len(w.server_out[0]))

    sent = {}
    early_results = []

    def early_sender():
        # e.g. a keep-alive or an impatient application: sends as soon as the connection exists
        sc.wait_until(lambda: w.state() in ("handshake", "transport"), "connection exists")
        for k in range(early):
            node = H.out_stanza(k, "early")
            try:
                w.stack.send(H.NodeEntity(node))
                sent.setdefault("early", []).append(H.node_key(node))
                early_results.append("ok")
            except S.SchedAbort:
                raise
            except Exception as e:
                early_results.append(type(e).__name__)      # refused: counts as not sent

    def make_waiting_app(name, n):
        def app():
            sc.wait_until(lambda: w.state() == "transport" and w.responders and w.responders[0].phase == "transport", "session up")
            for k in range(n):
                node = H.out_stanza(k, name)
                sent.setdefault(name, []).append(H.node_key(node))
                w.stack.send(H.NodeEntity(node))
        return app

    first = [("net", net)]
    if early:
        # everything in one phase: the early sender overlaps the handshake, the application threads start sending the
        # moment the session is up - whatever the library does with the early stanza may overlap them
        first.append(("early", early_sender))
        for i, n in enumerate(apps):
            first.append(("app%d" % i, make_waiting_app("t%d" % i, n)))
    status = sc.run_phase(first, timeout=600.0)
    setup_points = len(sc.points) if not early else 0
    setup_ok = (w.state() == "transport" and w.responders[0].phase == "transport"
                and any(type(e).__name__ == "SuccessProtocolEntity" for e in w.app.received))

    def make_app(name, n):
        def app():
            for k in range(n):
                node = H.out_stanza(k, name)
                sent.setdefault(name, []).append(H.node_key(node))
                if case.get("entry") == "coder":
                    # a sender that hands stanzas to the coder layer itself (a stack whose top is the coder, or a
                    # layer above it that does not serialise its callers): no lock of an upper layer protects it
                    w.coder.send(node)
                else:
                    w.stack.send(H.NodeEntity(node))
        return app

    def pinger():
        for k in range(direct_ping):
            ping = PingIqProtocolEntity()
            sent.setdefault("ping", []).append(H.node_key(ping.toProtocolTreeNode()))
            iq.sendIq(ping)

    def srv():
        # the server writes pings; the (already running) network thread delivers them and the iq layer answers
        for k in range(server_pings):
            w.server_send(0, server_ping(k))

    error = None
    blocked = []
    if setup_ok:
        fns = [("app%d" % i, make_app("t%d" % i, n)) for i, n in enumerate(apps)] if not early else []
        if direct_ping:
            fns.append(("pinger", pinger))
        if server_pings:
            srv()
        if real_ping:
            sc.tick(1)
        try:
            status = sc.run_phase(fns, timeout=600.0)
        except (S.HarnessStuck, S.ReplayDivergence) as e:
            error = e
        blocked = [(t.name, t.wait_desc) for t in sc.blocked()]
    pts = [(1, 0, ce) if i < setup_points else (n, c, ce) for i, (n, c, ce) in enumerate(S.summarize_points(sc))]
    log = list(sc.log)
    sc.shutdown()
    if error is not None:
        raise error
    v = []

    def bad(sig, what, detail=None):
        v.append(("C11:" + sig, what, dict(case), detail))

    if not setup_ok and not early:
        bad("setup-failed", "handshake on the default schedule did not complete", {"state": w.state()})
        return pts, v, ("setup",)
    for ent in log:
        if ent[0] == "thread-exception":
            bad("thread-exception:%s:%s" % (ent[1], ent[2]), "exception escaped in thread %s: %s %s" % (ent[1], ent[2], ent[3]), ent)
    stuck = [b for b in blocked if not (b[0] == "net" or (b[1] or "").startswith("timer:"))]
    if stuck:
        bad("deadlock", "sender threads left blocked: %s" % stuck, {"blocked": blocked, "locks": w.locks()})
    r = w.responders[0]
    if r.errors:
        bad("peer-cannot-decrypt", "strict in-order peer failed on the client's byte stream: %s" % r.errors[0], r.errors)
    if r.buf:
        bad("partial-frame", "%d trailing bytes do not form a whole frame" % len(r.buf))
    # decoded stanzas vs sent
    try:
        got = [H.node_key(n) for n in w.decoded_client_stanzas(0)]
    except Exception as e:
        got = None
        bad("undecodable-frame", "peer decrypted a frame that is not a stanza: %r" % (e,))
    if got is not None and not r.errors:
        exp = []
        for name, lst in sent.items():
            exp.extend(lst)
        pongs = [g for g in got if g[0] == "iq" and dict(g[1]).get("type") == "result"]
        pings = [g for g in got if g[0] == "iq" and dict(g[1]).get("type") == "get" and dict(g[1]).get("xmlns") == "w:p"
                 and g not in exp]
        rest = [g for g in got if g not in pongs and g not in pings]
        if sorted(map(repr, rest)) != sorted(map(repr, exp)):
            bad("stanza-multiset", "stanzas received by the peer differ from the stanzas sent (lost or duplicated)",
                {"got": [g[0] + ":" + dict(g[1]).get("id", dict(g[1]).get("name", "")) for g in rest], "sent": len(exp)})
        else:
            for name, lst in sent.items():
                idx = [rest.index(x) for x in lst]
                if idx != sorted(idx):
                    bad("per-thread-order", "stanzas of one sender arrived out of order", {"thread": name, "positions": idx})
        if sorted(dict(p[1]).get("id") for p in pongs) != ["sp%d" % k for k in range(server_pings)]:
            bad("pong-multiset", "pongs on the wire do not match the server pings", [dict(p[1]).get("id") for p in pongs])
        if real_ping and len(pings) != 1:
            bad("keepalive-ping", "expected exactly one keep-alive ping on the wire, saw %d" % len(pings))
        if not real_ping and pings:
            bad("stray-ping", "unexpected ping stanzas", len(pings))
    held = [k for k, x in w.locks().items() if x]
    if held and not stuck:
        bad("lock-held", "locks still held at quiescence: %s" % held)
    obs = (tuple(g[0] + dict(g[1]).get("id", "") for g in (got or [])), tuple(sorted(b[0] for b in blocked)))
    return pts, v, obs


def cases_for(tier):
    quick = tier == "quick"
    cases = [
        {"apps": [1, 1]},
        {"apps": [2, 2]},
        {"apps": [1, 1, 1]},
        {"apps": [2], "direct_ping": 1},
        {"apps": [1], "real_ping": True},
        {"apps": [2], "server_pings": 1},
        {"apps": [1], "direct_ping": 1, "server_pings": 1},
        {"apps": [1], "early": 1},
        {"apps": [1, 1], "entry": "coder"},
        {"apps": [2, 1], "entry": "coder"},
    ]
    if not quick:
        cases += [
            {"apps": [2, 1, 1]},
            {"apps": [1, 1], "real_ping": True, "server_pings": 1},
            {"apps": [1, 1], "direct_ping": 1, "server_pings": 2},
            {"apps": [2, 2], "variant": "XX"},
            {"apps": [1, 1, 1, 1]},
            {"apps": [1, 1], "early": 2, "variant": "XX"},
            {"apps": [1, 1, 1], "entry": "coder"},
            {"apps": [1, 1], "entry": "coder", "direct_ping": 1},
        ]
    return cases


def _small(c):
    return sum(c.get("apps", [])) <= 2 and len(c.get("apps", [])) <= 2


# thorough: cases whose bound-2 space was measured to be small enough to be explored completely
CORE2 = [
    {"apps": [1, 1]},
    {"apps": [2, 2]},
    {"apps": [1, 1, 1]},
    {"apps": [2], "direct_ping": 1},
    {"apps": [1], "real_ping": True},
    {"apps": [2], "server_pings": 1},
    {"apps": [1], "direct_ping": 1, "server_pings": 1},
    {"apps": [2, 2], "variant": "XX"},
    {"apps": [2, 1, 1]},
    {"apps": [1, 1, 1, 1]},
    {"apps": [1, 1], "entry": "coder"},
    {"apps": [2, 1], "entry": "coder"},
]


def run(ctx):
    cases = shuffled(cases_for(ctx.tier), ctx.seed, "c11")
    if ctx.quick:
        phases = [{"name": "bound1", "cases": cases, "bound": 1, "free_bound": 2, "cap": 60000}]
    else:
        lc = []
        for c in cases:
            if _small(c):
                d = dict(c)
                d["lines"] = True
                lc.append(d)
        phases = [
            {"name": "bound1", "cases": cases, "bound": 1, "free_bound": 2},
            {"name": "lines-bound1", "cases": lc, "bound": 1, "free_bound": 1},
            {"name": "bound2-core", "cases": [c for c in cases if c in CORE2], "bound": 2, "free_bound": 1},
        ]
    st, phase_summ = dfs.explore_phases(ctx, MOD, "run_case", phases)
    # part 2: the real asyncore dispatcher's write path over a scripted socket (vf/props/c11_dispatcher.py)
    from vf.props import c11_dispatcher as DSP
    dst, dsumm = dfs.explore_phases(ctx, DSP.MOD, "run_disp", [{"name": "socket-write-path", "cases": DSP.cases_for(ctx.tier),
                                                               "bound": 1 if ctx.quick else 2, "free_bound": 2}], chunksize=2)
    phase_summ = phase_summ + dsumm
    st.executions += dst.executions
    st.points += dst.points
    st.capped = st.capped or dst.capped
    if len(st.observations) < 400000:
        st.observations.update(("socket", o) for o in dst.observations)
    p1 = run_case(cases[0], (0, {}))
    p2 = run_case(cases[0], (0, {}))
    if p1 != p2:
        raise RuntimeError("nondeterministic replay of the default schedule")
    for c in cases[:3]:
        ctx.sample(c)
    ctx.coverage.update({
        "states": st.points,
        "transitions": st.points,
        "traces_validated_against_impl": st.executions,
        "executions": st.executions,
        "cases": len(cases),
        "phases": phase_summ,
        "preemption_bound": max(p["bound"] for p in phases),
        "preemption_bound_completed_all_cases": 1 if not st.capped else None,
        "by_preemptions": {str(k): n for k, n in sorted(st.by_preemptions.items())},
        "executions_per_case": {str(k): n for k, n in st.per_case.items()},
        "max_scheduling_points_per_execution": st.max_points,
        "distinct_outcomes": len(st.observations),
        "exhaustive": not st.capped,
        "explanation": "states/transitions = scheduling points visited by the stateless search; every execution runs the real layers",
    })
    ctx.assume("scheduling points: CLock/CQueue operations, thread spawn/exit, PY_START of functions in yowsup/layers/** and "
               "consonance protocol/transport/streams (entity and codec modules excluded)")
    ctx.assume("handshake runs on the default schedule before the senders start (C04 explores handshake interleavings)")
    ctx.assume("socket part: statement-level scheduling points inside yowsup's asyncore dispatcher and asyncore's write path; the socket is "
               "scripted (takes a prefix of a write, or nothing, then everything); one sender at a time, as under the segments layer's lock")


def replay(ctx, case):
    case = dict(case)
    pf = dfs.schedule_from_case(case)
    case.pop("schedule", None)
    if "budgets" in case:
        from vf.props import c11_dispatcher as DSP
        return DSP.run_disp(case, pf)[1]
    pts, v, obs = run_case(case, pf)
    return v
