"""C20 Registration requests: token, parameter encoding and parameter encryption.

Bounded-exhaustive exploration of the real AndroidYowsupEnv.getToken, WARequest.urlencode /
urlencodeParams / encryptParams and of whole WACodeRequest / WARegRequest / WAExistsRequest sends
(network seam `WARequest.sendRequest` and recipient key seam `WARequest.ENC_PUBKEY` rebound), compared
with vf.ref.registration (stdlib hmac, urllib.parse decoding, X25519 + AES-GCM from `cryptography`).

The oracle for the encoding is the statement: the standard decoder returns the original value, every
escape is lower-case hex, and '-', '_', '~' never appear unescaped in an encoded value.
"""
import os
import shutil
import hashlib
import tempfile
import itertools
import urllib.parse

from vf import env
env.bootstrap()

from yowsup.env import YowsupEnv
from yowsup.env.env_android import AndroidYowsupEnv
from yowsup.common.http import warequest as wr_mod
from yowsup.common.http.warequest import WARequest
from axolotl.ecc.djbec import DjbECPublicKey
from vf.ref import registration as rr
from vf.runner import shuffled

PROPERTY = "C20"
LEVEL = "exploration"

RECIPIENT_SEEDS = [hashlib.sha256(b"vf/c20/recipient/%d" % i).digest() for i in range(4)]

# 24 bytes: the three specially escaped ones, the reserved/ambiguous ones, boundaries of the byte range
ALPHABET24 = b"-_~.%+ &=/?#aZ09\x00\x7f\x80\xff\n*!'"
assert len(ALPHABET24) == 24 and len(set(ALPHABET24)) == 24


def _exc(e):
    return "%s: %s" % (type(e).__name__, str(e)[:160])


# ------------------------------------------------------------------------------------------------ token

def token_numbers():
    nums = [""]
    for L in range(1, 5):
        nums.extend("".join(t) for t in itertools.product("0123456789", repeat=L))
    for L in range(7, 16):
        nums.extend(["0" * L, "9" * L, ("1234567890" * 2)[:L], ("9876543210" * 2)[:L], "1" + "0" * (L - 1),
                     ("3141592653589793")[:L]])
    return nums


def check_tokens(nums):
    vs = []
    envs = [("AndroidYowsupEnv()", AndroidYowsupEnv()), ("YowsupEnv.getEnv('android')", YowsupEnv.getEnv("android"))]
    cls = AndroidYowsupEnv
    n = 0
    for num in nums:
        exp = rr.token(cls._KEY, cls._SIGNATURE, cls._MD5_CLASSES, num)
        lclass = "empty" if num == "" else ("short" if len(num) <= 4 else "realistic")
        case = {"token_number": num}
        for name, e in envs[:1] if len(num) in (2, 3, 4) else envs:
            n += 1
            try:
                got = e.getToken(num)
            except Exception as ex:
                vs.append(("C20:token-raises:" + lclass, "getToken(%r) raised %s" % (num, _exc(ex)), case, _exc(ex)))
                continue
            if not isinstance(got, (bytes, str)):
                vs.append(("C20:token-type", "getToken returned %s" % type(got).__name__, case, None))
                continue
            gb = got if isinstance(got, bytes) else got.encode()
            if gb != exp:
                vs.append(("C20:token-mismatch:" + lclass,
                           "getToken(%r) differs from b64(HMAC-SHA1(key[:64], signature||classes_md5||number))" % num,
                           case, {"got": gb, "expected": exp}))
    return vs, n


# ---------------------------------------------------------------------------------------------- urlencode

def value_class(v):
    if isinstance(v, bytes):
        return "bytes"
    if isinstance(v, str):
        if all(ord(c) < 0x80 for c in v):
            return "str-ascii"
        if all(ord(c) < 0x800 for c in v):
            return "str-2byte"
        if all(ord(c) < 0x10000 for c in v):
            return "str-bmp"
        return "str-astral"
    return "int"


def case_value(v):
    if isinstance(v, bytes):
        return {"value_type": "bytes", "hex": v.hex()}
    if isinstance(v, str):
        return {"value_type": "str", "codepoints": [ord(c) for c in v]}
    return {"value_type": "int", "int": str(v)}


def value_from_case(c):
    if c["value_type"] == "bytes":
        return bytes.fromhex(c["hex"])
    if c["value_type"] == "str":
        return "".join(chr(x) for x in c["codepoints"])
    return int(c["int"])


def check_value(v, vs):
    """-> True when the encoding contained at least one escape (non-trivial)."""
    vc = value_class(v)
    try:
        enc = WARequest.urlencode(v)
    except Exception as e:
        vs.append(("C20:urlencode-raises:" + vc, "urlencode(%r) raised %s" % (v, _exc(e)), case_value(v), _exc(e)))
        return False
    for d in rr.encoding_defects(enc):
        vs.append(("C20:urlencode-%s:%s" % (d, vc), "urlencode(%r) = %r: %s" % (v, enc, d), case_value(v),
                   {"encoded": enc}))
    if not isinstance(enc, str):
        return False
    orig = rr.original_bytes(v)
    try:
        dec = rr.decode_value(enc)
    except Exception as e:
        vs.append(("C20:urlencode-undecodable:" + vc, "standard decoder raised on %r: %s" % (enc, _exc(e)),
                   case_value(v), {"encoded": enc}))
        return "%" in enc
    if dec != orig:
        vs.append(("C20:urlencode-roundtrip:" + vc,
                   "unquote(urlencode(%r)) = %r, not the original %r" % (v, dec, orig), case_value(v),
                   {"encoded": enc, "decoded": dec, "original": orig}))
    elif isinstance(v, str) and urllib.parse.unquote(enc, errors="strict") != v:
        vs.append(("C20:urlencode-roundtrip:" + vc, "text unquote(urlencode(%r)) differs" % v, case_value(v),
                   {"encoded": enc}))
    return "%" in enc


def check_values(spec):
    """spec: ('list', [values]) or ('cp', lo, hi, step): single-code-point strings (surrogates skipped)."""
    vs = []
    n = nontriv = 0
    outcomes = set()
    if spec[0] == "list":
        it = spec[1]
    else:
        it = (chr(cp) for cp in range(spec[1], spec[2], spec[3]) if not 0xD800 <= cp <= 0xDFFF)
    for v in it:
        before = len(vs)
        esc = check_value(v, vs)
        n += 1
        nontriv += 1 if esc else 0
        outcomes.add((value_class(v), esc, len(vs) > before))
    return vs, n, nontriv, sorted(outcomes)


def value_specs(quick):
    specs = []
    singles_b = [bytes([b]) for b in range(256)]
    singles_s = [chr(b) for b in range(256)]
    pairs_b = [bytes([a, b]) for a in ALPHABET24 for b in ALPHABET24]
    pairs_s = [chr(a) + chr(b) for a in ALPHABET24 for b in ALPHABET24]
    ints = [0, -1, 2 ** 63, 1, 10, -(2 ** 63), 5976]
    longer = [b"", "", b"ZVfdIWbiUnWtuJNHkVuVL3Qsr/o=", "01ffb061-3114-4076-94e4-9252f2f93e4e",
              bytes(range(256)), "".join(chr(c) for c in (0x41, 0xE9, 0x20AC, 0x1F600, 0x7E, 0x5F, 0x2D)),
              ALPHABET24 * 2, ALPHABET24.decode("latin-1")]
    specs.append(("list", ints + singles_b + singles_s))
    specs.append(("list", pairs_b))
    specs.append(("list", pairs_s))
    specs.append(("list", longer))
    if quick:
        specs.append(("cp", 0x100, 0x800, 1))
        # strided subset of the rest + the encoding-length and surrogate boundaries
        for lo in range(0x800, 0x110000, 0x10000):
            specs.append(("cp", lo, min(lo + 0x10000, 0x110000), 11))
        specs.append(("list", [chr(c) for c in (0x7FF, 0x800, 0xD7FF, 0xE000, 0xFFFD, 0xFFFE, 0xFFFF, 0x10000,
                                                  0x10FFFE, 0x10FFFF)]))
    else:
        for lo in range(0x100, 0x110000, 0x2000):
            specs.append(("cp", lo, min(lo + 0x2000, 0x110000), 1))
    return specs


# ----------------------------------------------------------------------------- parameter lists / encryption

PARAM_POOL = [
    ("cc", "49"),
    ("in", "1234-5_6~7"),
    ("token", b"ZVfd+WbiU/o="),
    ("pid", 5976),
    ("id", b"\x00\xff-_~%&="),
    ("reason", ""),
    ("e_regid", -1),
    ("fdid", "€=\xe9&\U0001f600"),
]


def all_param_lists():
    out = [()]
    for L in (1, 2, 3):
        out.extend(itertools.product(range(len(PARAM_POOL)), repeat=L))
    return out


class CountingCurve(object):
    """Stands in for `warequest.Curve`: delegates to the real one and records every key generation."""
    real = wr_mod.Curve
    generated = []

    @staticmethod
    def generateKeyPair():
        kp = CountingCurve.real.generateKeyPair()
        CountingCurve.generated.append(kp)
        return kp

    def __getattr__(self, name):
        return getattr(CountingCurve.real, name)


def expected_pairs(params):
    return [(k, rr.original_bytes(v)) for k, v in params]


def check_blob(result, params, recipient, gen, case, site, vs):
    """Open one encryptParams result; -> ephemeral public key bytes or None."""
    if not (isinstance(result, list) and len(result) == 1 and isinstance(result[0], tuple) and len(result[0]) == 2
            and result[0][0] == "ENC" and isinstance(result[0][1], (bytes, str))):
        vs.append(("C20:encrypt-shape:" + site, "encryptParams did not return [('ENC', payload)]: %r" % (result,),
                   case, None))
        return None
    if len(gen) != 1:
        vs.append(("C20:encrypt-keygen-count:" + site,
                   "encryptParams performed %d key generations instead of exactly one" % len(gen), case, len(gen)))
    try:
        eph, pt = recipient.open_blob(result[0][1])
    except Exception as e:
        vs.append(("C20:encrypt-not-decryptable:" + site,
                   "the ENC blob does not open with the private key of the server key used: %s" % _exc(e), case, _exc(e)))
        return None
    if len(gen) >= 1:
        kp = gen[-1]
        pub = bytes(kp.publicKey.getPublicKey())
        if eph != pub:
            vs.append(("C20:encrypt-ephemeral-not-embedded:" + site,
                       "the public key in the blob is not the key generated during this call", case,
                       {"embedded": eph, "generated": pub}))
        if rr.x25519_public_from_private(kp.privateKey.getPrivateKey()) != pub:
            vs.append(("C20:encrypt-ephemeral-inconsistent:" + site, "generated key pair is not a curve25519 pair",
                       case, None))
    exp = expected_pairs(params)
    try:
        text = pt.decode("ascii")
        got = rr.split_params(text)
    except Exception as e:
        vs.append(("C20:encrypt-plaintext-unparseable:" + site, "decrypted blob is not k=v&k=v text: %s" % _exc(e),
                   case, {"plaintext": pt}))
        return eph
    if got != exp:
        same_set = sorted(got) == sorted(exp)
        vs.append(("C20:encrypt-plaintext-%s:%s" % ("order" if same_set else "content", site),
                   "decrypted blob %s" % ("has the parameters in a different order" if same_set
                                          else "does not decode to the original parameters"),
                   case, {"got": got, "expected": exp}))
    try:
        enc_now = WARequest.urlencodeParams(list(params))
    except Exception as e:
        enc_now = None
    if enc_now is not None and text != enc_now:
        vs.append(("C20:encrypt-plaintext-not-urlencodeParams:" + site,
                   "decrypted blob differs from urlencodeParams(params)", case, {"got": text, "expected": enc_now}))
    return eph


def check_lists(chunk):
    """chunk: list of index tuples into PARAM_POOL."""
    vs = []
    n = 0
    recipients = [rr.Recipient(s) for s in RECIPIENT_SEEDS]
    saved = wr_mod.Curve
    wr_mod.Curve = CountingCurve()
    req = WARequest.__new__(WARequest)       # encryptParams/urlencodeParams use no instance state
    try:
        for idxs in chunk:
            params = [PARAM_POOL[i] for i in idxs]
            case = {"param_list": list(idxs)}
            site = "len%d" % len(idxs)
            # -- urlencodeParams: order and values
            try:
                s = WARequest.urlencodeParams(list(params))
                n += 1
                got = rr.split_params(s)
            except Exception as e:
                vs.append(("C20:params-raises:" + site, "urlencodeParams(%r): %s" % (params, _exc(e)), case, _exc(e)))
                continue
            exp = expected_pairs(params)
            if got != exp:
                same_set = sorted(got) == sorted(exp)
                vs.append(("C20:params-%s:%s" % ("order" if same_set else "content", site),
                           "urlencodeParams(%r) = %r decodes to %r" % (params, s, got), case,
                           {"got": got, "expected": exp}))
            for part in (s.split("&") if s else []):
                for d in rr.encoding_defects(part.partition("=")[2]):
                    vs.append(("C20:params-%s:%s" % (d, site), "urlencodeParams(%r) = %r: %s" % (params, s, d), case, None))
            # -- encryptParams against each recipient, twice
            for ri, rec in enumerate(recipients):
                c2 = dict(case, recipient=ri)
                ephs = []
                for rep in (0, 1):
                    del CountingCurve.generated[:]
                    try:
                        n += 1
                        res = req.encryptParams(list(params), DjbECPublicKey(rec.public_bytes))
                    except Exception as e:
                        vs.append(("C20:encrypt-raises:" + site, "encryptParams raised %s" % _exc(e), c2, _exc(e)))
                        continue
                    eph = check_blob(res, params, rec, list(CountingCurve.generated), c2, site, vs)
                    if eph is not None:
                        ephs.append(eph)
                        if rep == 0:
                            other = recipients[(ri + 1) % len(recipients)]
                            try:
                                other.open_blob(res[0][1])
                                vs.append(("C20:encrypt-wrong-recipient-opens:" + site,
                                           "the blob also opens with a private key that does not match the server key used",
                                           c2, None))
                            except Exception:
                                pass
                if len(ephs) == 2 and ephs[0] == ephs[1]:
                    vs.append(("C20:encrypt-ephemeral-reused:" + site,
                               "two encryptParams calls embedded the same ephemeral public key", c2, {"ephemeral": ephs[0]}))
    finally:
        wr_mod.Curve = saved
    return vs, n


# ---------------------------------------------------------------------------------- whole requests (seams)

class FakeResponse(object):
    status = 200

    def read(self):
        return b'{"status":"fail","reason":"incorrect"}'


E2E_KINDS = ("code-new", "code-existing", "register", "exists")
E2E_NUMBERS = [("49", "1234567"), ("1", "2025550123"), ("44", "7911123456"), ("91", "987654321012")]


def check_request(item):
    ri, kind = item
    cc, national = E2E_NUMBERS[ri]
    from yowsup.config.v1.config import Config
    from yowsup.registration.coderequest import WACodeRequest
    from yowsup.registration.regrequest import WARegRequest
    from yowsup.registration.existsrequest import WAExistsRequest
    vs = []
    case = {"request": kind, "recipient": ri}
    site = "request-" + kind
    rec = rr.Recipient(RECIPIENT_SEEDS[ri])
    tmp = tempfile.mkdtemp(prefix="vf-c20-", dir=env.scratch_root())
    old_xdg = os.environ.get("XDG_CONFIG_HOME")
    os.environ["XDG_CONFIG_HOME"] = tmp       # profile storage (axolotl.db) goes to scratch
    captured = []

    def fake_send(host, port, path, headers, params, reqType="GET", preview=False):
        captured.append((host, path, params, list(CountingCurve.generated)))
        del CountingCurve.generated[:]
        return FakeResponse()

    saved = (WARequest.__dict__["sendRequest"], WARequest.__dict__["ENC_PUBKEY"], wr_mod.Curve)
    calls = 0
    try:
        WARequest.sendRequest = staticmethod(fake_send)
        WARequest.ENC_PUBKEY = DjbECPublicKey(rec.public_bytes)
        wr_mod.Curve = CountingCurve()
        ident = None if kind == "code-new" else b"\x2d\x5f\x7e" + bytes(range(17))      # starts with - _ ~
        cfg = Config(phone=cc + national, cc=cc, mcc="262", mnc="1", sim_mcc="0", sim_mnc="0", id=ident)
        if kind.startswith("code"):
            req = WACodeRequest("sms", cfg)
        elif kind == "register":
            req = WARegRequest(cfg, "123-456")
        else:
            req = WAExistsRequest(cfg)
        del CountingCurve.generated[:]
        req.send()
        calls = len(captured)
        want_paths = {"code-new": ["/v2/code"], "code-existing": ["/v2/exist", "/v2/code"],
                      "register": ["/v2/register"], "exists": ["/v2/exist"]}[kind]
        if [c[1] for c in captured] != want_paths:
            vs.append(("C20:request-sequence:" + site, "requests sent: %r, expected %r" % ([c[1] for c in captured], want_paths),
                       case, None))
        ephs = []
        exp_token = rr.token(AndroidYowsupEnv._KEY, AndroidYowsupEnv._SIGNATURE, AndroidYowsupEnv._MD5_CLASSES, national)
        for n, (host, path, params, gen) in enumerate(captured):
            last = n == len(captured) - 1
            # the outer request's own parameter list is observable; the inner exists-request's is not
            plist = list(req.params) if last else None
            if plist is None:
                eph = None
                try:
                    eph, pt = rec.open_blob(params[0][1])
                    pairs = rr.split_params(pt.decode("ascii"))
                except Exception as e:
                    vs.append(("C20:encrypt-not-decryptable:" + site, "inner request blob does not open: %s" % _exc(e), case, _exc(e)))
                    continue
                if len(gen) != 1:
                    vs.append(("C20:encrypt-keygen-count:" + site, "%d key generations for one request" % len(gen), case, len(gen)))
            else:
                eph = check_blob(params, plist, rec, gen, case, site, vs)
                if eph is None:
                    continue
                pairs = expected_pairs(plist)
                # and the blob as it goes on the wire: ENC=<quoted base64> must decode back to the payload
                wire = WARequest.urlencodeParams(params)
                back = rr.split_params(wire)
                payload = params[0][1] if isinstance(params[0][1], bytes) else params[0][1].encode()
                if back != [("ENC", payload)]:
                    vs.append(("C20:params-content:" + site, "ENC parameter does not survive query encoding", case, {"wire": wire[:80]}))
            ephs.append(eph)
            d = dict(pairs)
            if d.get("cc") != cc.encode() or d.get("in") != national.encode():
                vs.append(("C20:request-number:" + site, "cc/in parameters are %r/%r" % (d.get("cc"), d.get("in")), case, None))
            if path in ("/v2/code", "/v2/exist"):
                if d.get("token") != exp_token:
                    vs.append(("C20:token-mismatch:" + site,
                               "token parameter of %s is not the reference token of the national number" % path, case,
                               {"got": d.get("token"), "expected": exp_token}))
            if ident is not None and d.get("id") != ident:
                vs.append(("C20:request-id:" + site, "id parameter does not decode to the configured identity", case,
                           {"got": d.get("id"), "expected": ident}))
        if len(set(ephs)) != len(ephs):
            vs.append(("C20:encrypt-ephemeral-reused:" + site, "two requests embedded the same ephemeral key", case, None))
    except Exception as e:
        import traceback
        vs.append(("C20:request-raises:" + site, "building/sending a %s request raised %s" % (kind, _exc(e)), case,
                   traceback.format_exc()[-1500:]))
    finally:
        WARequest.sendRequest = saved[0]
        WARequest.ENC_PUBKEY = saved[1]
        wr_mod.Curve = saved[2]
        if old_xdg is None:
            os.environ.pop("XDG_CONFIG_HOME", None)
        else:
            os.environ["XDG_CONFIG_HOME"] = old_xdg
        shutil.rmtree(tmp, ignore_errors=True)
    return vs, calls


# ---------------------------------------------------------------------------------------------------- run

def _chunks(seq, n):
    return [seq[i:i + n] for i in range(0, len(seq), n)]


def run(ctx):
    evaluations = 0
    # tokens
    nums = token_numbers()
    tchunks = _chunks(nums, 800)
    tv = []
    for (vs, n) in ctx.pmap(check_tokens, shuffled(tchunks, ctx.seed, "c20t")):
        tv.extend(vs)
        evaluations += n
    tv.sort(key=lambda v: (len(v[2]["token_number"]), v[2]["token_number"]))
    ctx.add_violations(tv)
    ctx.sample({"token_number": nums[1], "token": AndroidYowsupEnv().getToken(nums[1])})

    # single values
    specs = value_specs(ctx.quick)
    order = shuffled(list(enumerate(specs)), ctx.seed, "c20v")
    res = ctx.pmap(_values_star, order)
    res.sort(key=lambda r: r[0])
    nvalues = nontrivial_values = 0
    outcomes = set()
    for (i, (vs, n, nt, oc)) in res:
        ctx.add_violations(vs)
        nvalues += n
        nontrivial_values += nt
        outcomes.update(tuple(o) for o in oc)
    evaluations += nvalues
    ctx.sample({"value": "-_~", "encoded": WARequest.urlencode("-_~")})
    ctx.sample({"value": "€", "encoded": WARequest.urlencode("€")})

    # lists + encryption
    lists = all_param_lists()
    lchunks = _chunks(lists, 12)
    order = shuffled(list(enumerate(lchunks)), ctx.seed, "c20l")
    res = ctx.pmap(_lists_star, order)
    res.sort(key=lambda r: r[0])
    ncalls = 0
    for (i, (vs, n)) in res:
        ctx.add_violations(vs)
        ncalls += n
    evaluations += ncalls
    ctx.sample({"param_list": [list(map(repr, PARAM_POOL[i])) for i in lists[-1]], "recipients": len(RECIPIENT_SEEDS)})

    # whole requests through the seams
    e2e = [(ri, kind) for ri in range(len(E2E_NUMBERS)) for kind in E2E_KINDS]
    order = shuffled(list(enumerate(e2e)), ctx.seed, "c20e")
    res = ctx.pmap(_request_star, order)
    res.sort(key=lambda r: r[0])
    nreq = 0
    for (i, (vs, n)) in res:
        ctx.add_violations(vs)
        nreq += n
    evaluations += nreq
    ctx.sample({"request": "code-existing", "number": E2E_NUMBERS[0], "seams": ["WARequest.sendRequest", "WARequest.ENC_PUBKEY", "warequest.Curve"]})

    k = AndroidYowsupEnv
    ctx.coverage.update({
        "evaluations": evaluations,
        "distinct_nontrivial": nontrivial_values + (len(lists) - 1),
        "rule": "distinct values whose encoding contains at least one escape (quoting path taken) plus distinct "
                "non-empty parameter lists that were encoded, encrypted for 4 recipients and opened with the reference",
        "exhaustive": True,
        "token_numbers": len(nums),
        "values_encoded": nvalues,
        "values_with_escape": nontrivial_values,
        "parameter_lists": len(lists),
        "encrypt_and_params_calls": ncalls,
        "whole_requests_sent": nreq,
        "distinct_outcomes": len(outcomes),
        "unicode": "all scalar values" if not ctx.quick else "all < 0x800, every 11th above, boundaries",
        "constants_sha256": hashlib.sha256((k._KEY + "|" + k._SIGNATURE + "|" + k._MD5_CLASSES).encode()).hexdigest(),
        "bound": "numbers: '' + all digit strings of length 1..4 + 6 per length 7..15; values: 7 ints, 256 bytes, 256 "
                 "latin-1 chars, 24x24 pairs as bytes and as str, unicode singles; lists: all sequences of length 0..3 "
                 "over %d parameters x 4 recipients x 2 calls; 16 whole requests" % len(PARAM_POOL),
    })
    ctx.assume("the key/signature/classes-md5 constants in env_android.py are WhatsApp's for the advertised version "
               "(the construction is checked, not the constants; their sha256 is recorded in coverage)")
    ctx.assume("python-axolotl's curve25519 agreement is only trusted through the check that `cryptography` X25519 "
               "derives the same AES-GCM key (the blob opens)")


def _values_star(a):
    return a[0], check_values(a[1])


def _lists_star(a):
    return a[0], check_lists(a[1])


def _request_star(a):
    return a[0], check_request(a[1])


def replay(ctx, case):
    vs = []
    if "token_number" in case:
        return check_tokens([case["token_number"]])[0]
    if "value_type" in case:
        check_value(value_from_case(case), vs)
        return vs
    if "request" in case:
        return check_request((case["recipient"], case["request"]))[0]
    if "param_list" in case:
        return check_lists([tuple(case["param_list"])])[0]
    return vs
