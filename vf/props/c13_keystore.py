"""C13 Key store durability and crash atomicity (E2 histories + E4 sqlite crash points).

Code under test: the real LiteAxolotlStore and its five Lite*Store parts on a
real sqlite file in a scratch directory.  Records are real python-axolotl
records (a session negotiated by a real SessionBuilder, prekeys / signed
prekeys / identity keys from Curve, a sender key record with a real state) and
are compared by their serialised bytes.

Part 1 (durability).  Per table family, EVERY sequence of store-API calls of
length <= L over an alphabet with 2 keys x 2 values (3 keys for sender keys)
plus `reopen` (close the connection the way a process exit does - no commit -
and open a new LiteAxolotlStore on the same file) is executed on a fresh store.
A reference model (dict per table, ordered list for signed prekeys) is stepped
alongside: every call's return value / exception must be the model's, and after
the last call a battery of ALL load functions must agree with the model.  All
prefixes are histories too, so every step of every history is checked, with
and without reads in between.  Own identity key pair and registration id must
never change.

Part 2 (crash atomicity).  The LAST call of every history runs under the
crash-point enumerator (vf/explore/crashsql.py): before and after every
statement and commit the scratch directory (db + -journal) is copied; each
distinct image is what kill -9 at that instant leaves on disk.  A fresh
LiteAxolotlStore is opened on each image and the same battery is run: every
record must hold its value from before or from after the call (never missing
when it existed before and exists after, never a third value), records the call
does not touch must be unchanged, own identity unchanged, aggregate loads
consistent with the recovered records.

Part 1b (record (de)serialisation, `text_factory = bytes`).  After every history the database as it is on disk is
copied, every record / key column (identities.public_key/private_key, sessions.record, prekeys.record,
signed_prekeys.record, sender_keys.record) is rewritten to storage class TEXT with the same bytes - the shape of an
axolotl.db written by yowsup under Python 2.7 - and a fresh LiteAxolotlStore on that copy must pass the same battery
against the model as a plain reopen (`legacy-text-storage:<record kind | raises-open | raises-load>`).

Reporting.  A history is reported only when none of its proper prefixes (all of them enumerated histories) already
leaves the live store in disagreement with the model; per signature the shortest history is kept, independent of
VERIF_SEED.  Signatures name the call site: `crash-lost:<call>` (record existed before, exists after, missing at a
crash point inside <call>), `crash-neither` / `crash-collateral` / `crash-aggregate` / `crash-unrecoverable:<call>`,
`idle-crash-loses:<last writer>` (image taken before the call's first statement already lacks what earlier calls
stored), `reopen:<last writer>:<record kind>` (lost or changed by close + open), `state:<call>:<record kind|load>`
(live store wrong right after <call>), `result:<reader>` / `raises:<call>`.

Re-storing a one-time / signed prekey id that is still present: the model allows
either "refused with sqlite3.IntegrityError, nothing changed" (what the pinned
code does) or "replaced" - both are all-or-nothing; the encryption layer only
stores freshly numbered ids.
"""
import os
import shutil
import hashlib
import tempfile
import itertools

from vf import env
env.bootstrap()

from vf.explore import crashsql
from vf.explore.bfs import bfs

from yowsup.axolotl.store.sqlite import liteaxolotlstore as las_mod
from yowsup.axolotl.store.sqlite.liteaxolotlstore import LiteAxolotlStore

from axolotl.ecc.curve import Curve
from axolotl.identitykey import IdentityKey
from axolotl.util.keyhelper import KeyHelper
from axolotl.state.prekeyrecord import PreKeyRecord
from axolotl.state.signedprekeyrecord import SignedPreKeyRecord
from axolotl.state.prekeybundle import PreKeyBundle
from axolotl.sessionbuilder import SessionBuilder
from axolotl.groups.senderkeyname import SenderKeyName
from axolotl.groups.state.senderkeyrecord import SenderKeyRecord
from axolotl.axolotladdress import AxolotlAddress

PROPERTY = "C13"
LEVEL = "fault_enumeration"

DB = "axolotl.db"

# ----------------------------------------------------------------------------------------------
# keys and values (real records).  Built once per process tree, before the pool is forked.
# ----------------------------------------------------------------------------------------------
RECIPIENTS = ["491511234567", "14155550123"]            # usernames, as the encryption layer passes them
DEVICE = 1                                              # the only device id yowsup ever uses
PREKEY_IDS = [2, 1]                                     # insertion order of the simplest history != id order
SIGNED_IDS = [0, 1]
SENDER_NAMES = [("491511234567-1400000000", "491511234567"),
                ("491511234567-1400000000", "14155550123"),
                ("14155550123-1500000000", "491511234567")]

V = {}            # name -> objects
LOOKUP = {}       # serialised bytes -> symbolic value


def _build_session_records():
    from axolotl.tests.inmemoryaxolotlstore import InMemoryAxolotlStore
    alice = InMemoryAxolotlStore()
    bob = InMemoryAxolotlStore()
    out = []
    for n in range(2):
        pk = Curve.generateKeyPair()
        spk = Curve.generateKeyPair()
        sig = Curve.calculateSignature(bob.getIdentityKeyPair().getPrivateKey(), spk.getPublicKey().serialize())
        bundle = PreKeyBundle(bob.getLocalRegistrationId(), 1, 31337 + n, pk.getPublicKey(), 22 + n,
                              spk.getPublicKey(), sig, bob.getIdentityKeyPair().getPublicKey())
        # second round runs on top of the first session: S1 carries an archived previous state
        SessionBuilder(alice, alice, alice, alice, "peer", 1).processPreKeyBundle(bundle)
        out.append(alice.loadSession("peer", 1).serialize())
    return out


def build_values():
    if V:
        return
    from axolotl.state.sessionrecord import SessionRecord
    sess = _build_session_records()
    assert sess[0] != sess[1] and len(sess[1]) > len(sess[0])
    V["session"] = [SessionRecord(serialized=s) for s in sess]
    V["session_bytes"] = sess
    V["identity"] = [KeyHelper.generateIdentityKeyPair().getPublicKey() for _ in range(2)]
    V["identity_bytes"] = [i.getPublicKey().serialize() for i in V["identity"]]
    V["prekey"] = [[PreKeyRecord(pid, Curve.generateKeyPair()) for _ in range(2)] for pid in PREKEY_IDS]
    ident = KeyHelper.generateIdentityKeyPair()
    spks = []
    for sid in SIGNED_IDS:
        row = []
        for n in range(2):
            kp = Curve.generateKeyPair()
            sig = Curve.calculateSignature(ident.getPrivateKey(), kp.getPublicKey().serialize())
            row.append(SignedPreKeyRecord(sid, 1600000000000 + 1000 * n + sid, kp, sig))
        spks.append(row)
    V["signed"] = spks
    sk = []
    for n in range(2):
        r = SenderKeyRecord()
        r.setSenderKeyState(1000 + n, n, KeyHelper.generateSenderKey(), KeyHelper.generateSenderSigningKey())
        if n == 1:      # second value carries two states (as after a processed re-distribution)
            r.addSenderKeyState(2000, 3, KeyHelper.generateSenderKey(), KeyHelper.generateSenderSigningKey().getPublicKey())
        sk.append(r)
    V["sender"] = sk
    V["sender_names"] = [SenderKeyName(g, AxolotlAddress(u, 0)) for g, u in SENDER_NAMES]
    for i, s in enumerate(sess):
        LOOKUP[("session", s)] = i
    for ki, row in enumerate(V["prekey"]):
        for vi, r in enumerate(row):
            LOOKUP[("prekey", r.serialize())] = (ki, vi)
    for ki, row in enumerate(V["signed"]):
        for vi, r in enumerate(row):
            LOOKUP[("signed", r.serialize())] = (ki, vi)
    for i, r in enumerate(sk):
        LOOKUP[("sender", r.serialize())] = i
    assert len(LOOKUP) == 2 + 4 + 4 + 2, "record values are not pairwise distinct"


def sym(kind, data):
    """Serialised bytes -> symbolic value; bytes that are none of ours stay visible as a digest."""
    if type(data) is not bytes:
        return ("not-bytes", type(data).__name__)
    k = LOOKUP.get((kind, data))
    if k is None:
        return ("unknown-bytes", len(data), hashlib.sha1(data).hexdigest()[:10])
    return k


# ----------------------------------------------------------------------------------------------
# real store handling
# ----------------------------------------------------------------------------------------------
def conn_of(store):
    return store.sessionStore.dbConn


def close_store(store):
    """What process exit does to the store: the connection goes away without a commit."""
    conn_of(store).close()


def own_of(store):
    kp = store.getIdentityKeyPair()
    reg = store.getLocalRegistrationId()
    if kp is None or reg is None:
        return None
    return (kp.getPublicKey().getPublicKey().serialize(), kp.getPrivateKey().serialize(), reg)


class Real(object):
    """The real store plus the identity it was born with."""

    def __init__(self, path):
        self.path = path
        self.store = LiteAxolotlStore(path)
        self.own0 = own_of(self.store)

    def reopen(self):
        close_store(self.store)
        self.store = LiteAxolotlStore(self.path)

    def own_status(self, store=None):
        o = own_of(store or self.store)
        if o is None:
            return "missing"
        if type(o[2]) is not int or type(o[0]) is not bytes or type(o[1]) is not bytes:
            return "wrong-types"
        return "same" if o == self.own0 else "changed"


OK_NONE = ("ok", None)
MISSING_KEY = ("raises", "InvalidKeyIdException")
REFUSED = ("raises", "IntegrityError")


def outcome_of(fn):
    try:
        return ("ok", fn())
    except Exception as e:          # the class name is the observation; the oracle decides
        return ("raises", type(e).__name__)


# ----------------------------------------------------------------------------------------------
# families: alphabet, reference model, battery
# ----------------------------------------------------------------------------------------------
class Family(object):
    name = None
    writers = ()

    def alphabet(self, writers_only=False):
        raise NotImplementedError

    def is_writer(self, op):
        return op[0] in self.writers

    def initial(self):
        raise NotImplementedError

    def model_step(self, m, op):
        """-> list of allowed (outcome, new model); first entry = what the pinned code is expected to do."""
        raise NotImplementedError

    def real_step(self, real, op):
        raise NotImplementedError

    def battery(self, store):
        """-> (records {key: value}, aggregates {name: value}) read through every load function."""
        raise NotImplementedError

    def expected(self, m):
        raise NotImplementedError

    def aggs_unordered(self, records):
        """aggregates implied by a set of per-record values, order-insensitive (used only for mixed recoveries)."""
        return {}

    def norm_unordered(self, aggs):
        return aggs


def _set(t, i, v):
    t = list(t)
    t[i] = v
    return tuple(t)


class Sessions(Family):
    name = "sessions"
    writers = ("storeSession", "deleteSession", "deleteAllSessions")

    def __init__(self, nkeys=2, nvals=2):
        self.nk, self.nv = nkeys, nvals

    def alphabet(self, writers_only=False):
        ks, vs = range(self.nk), range(self.nv)
        ops = [["storeSession", k, v] for k in ks for v in vs]
        ops += [["deleteSession", k] for k in ks]
        ops += [["deleteAllSessions", k] for k in ks]
        if not writers_only:
            ops += [["loadSession", k] for k in ks]
            ops += [["containsSession", k] for k in ks]
            ops += [["getSubDeviceSessions", k] for k in ks]
        return ops

    def initial(self):
        return (None,) * self.nk

    def model_step(self, m, op):
        n = op[0]
        if n == "storeSession":
            return [(OK_NONE, _set(m, op[1], op[2]))]
        if n in ("deleteSession", "deleteAllSessions"):
            return [(OK_NONE, _set(m, op[1], None))]
        if n == "loadSession":
            return [(("ok", m[op[1]]), m)]
        if n == "containsSession":
            return [(("ok", m[op[1]] is not None), m)]
        if n == "getSubDeviceSessions":
            return [(("ok", (DEVICE,) if m[op[1]] is not None else ()), m)]

    @staticmethod
    def _load(store, r):
        rec = store.loadSession(r, DEVICE)
        return None if rec.isFresh() else sym("session", rec.serialize())

    def real_step(self, real, op):
        s, n = real.store, op[0]
        r = RECIPIENTS[op[1]]
        if n == "storeSession":
            return outcome_of(lambda: s.storeSession(r, DEVICE, V["session"][op[2]]))
        if n == "deleteSession":
            return outcome_of(lambda: s.deleteSession(r, DEVICE))
        if n == "deleteAllSessions":
            return outcome_of(lambda: s.deleteAllSessions(r))
        if n == "loadSession":
            return outcome_of(lambda: self._load(s, r))
        if n == "containsSession":
            return outcome_of(lambda: s.containsSession(r, DEVICE))
        if n == "getSubDeviceSessions":
            return outcome_of(lambda: tuple(s.getSubDeviceSessions(r)))

    def battery(self, store):
        recs = {}
        for k in range(self.nk):
            r = RECIPIENTS[k]
            recs["session/%d" % k] = (self._load(store, r), store.containsSession(r, DEVICE),
                                      tuple(store.getSubDeviceSessions(r)))
        return recs, {}

    def expected(self, m):
        recs = {}
        for k in range(self.nk):
            recs["session/%d" % k] = (m[k], True, (DEVICE,)) if m[k] is not None else (None, False, ())
        return recs, {}


class Identities(Family):
    name = "identities"
    writers = ("saveIdentity",)

    def __init__(self, nkeys=2, nvals=2):
        self.nk, self.nv = nkeys, nvals

    def alphabet(self, writers_only=False):
        ks, vs = range(self.nk), range(self.nv)
        ops = [["saveIdentity", k, v] for k in ks for v in vs]
        if not writers_only:
            ops += [["isTrustedIdentity", k, v] for k in ks for v in vs]
            ops += [["getIdentityKeyPair"], ["getLocalRegistrationId"]]
        return ops

    def initial(self):
        return (None,) * self.nk

    def model_step(self, m, op):
        n = op[0]
        if n == "saveIdentity":
            return [(OK_NONE, _set(m, op[1], op[2]))]
        if n == "isTrustedIdentity":
            return [(("ok", m[op[1]] is None or m[op[1]] == op[2]), m)]
        if n in ("getIdentityKeyPair", "getLocalRegistrationId"):
            return [(("ok", "same"), m)]

    def real_step(self, real, op):
        s, n = real.store, op[0]
        if n == "saveIdentity":
            return outcome_of(lambda: s.saveIdentity(RECIPIENTS[op[1]], V["identity"][op[2]]))
        if n == "isTrustedIdentity":
            return outcome_of(lambda: s.isTrustedIdentity(RECIPIENTS[op[1]], V["identity"][op[2]]))
        if n == "getIdentityKeyPair":
            def f():
                kp = s.getIdentityKeyPair()
                got = (kp.getPublicKey().getPublicKey().serialize(), kp.getPrivateKey().serialize())
                return "same" if got == real.own0[:2] else "changed"
            return outcome_of(f)
        if n == "getLocalRegistrationId":
            return outcome_of(lambda: "same" if s.getLocalRegistrationId() == real.own0[2] else "changed")

    @staticmethod
    def _pin(trusts):
        """isTrustedIdentity for both candidate keys -> which key is pinned (None: nothing pinned, trust on first use)."""
        if trusts == (True, True):
            return None
        if trusts in ((True, False), (False, True)):
            return ("pinned", trusts.index(True))
        return ("pinned-to-neither", trusts)

    def battery(self, store):
        recs = {}
        for k in range(self.nk):
            recs["identity/%d" % k] = self._pin(tuple(store.isTrustedIdentity(RECIPIENTS[k], V["identity"][v])
                                                      for v in range(2)))
        return recs, {}

    def expected(self, m):
        return dict(("identity/%d" % k, None if m[k] is None else ("pinned", m[k])) for k in range(self.nk)), {}


SENT_SETS = [[0], [1], [0, 1]]


class PreKeys(Family):
    name = "prekeys"
    writers = ("storePreKey", "removePreKey", "setAsSent")

    def __init__(self, nkeys=2, nvals=2):
        self.nk, self.nv = nkeys, nvals

    def alphabet(self, writers_only=False):
        ks, vs = range(self.nk), range(self.nv)
        ops = [["storePreKey", k, v] for k in ks for v in vs]
        ops += [["removePreKey", k] for k in ks]
        ops += [["setAsSent", ss] for ss in SENT_SETS if max(ss) < self.nk]
        if not writers_only:
            ops += [["loadPreKey", k] for k in ks]
            ops += [["containsPreKey", k] for k in ks]
            ops += [["loadUnsentPendingPreKeys"], ["loadPendingPreKeys"], ["loadMaxPreKeyId"]]
        return ops

    def initial(self):
        return (None,) * self.nk        # per key: None | (value index, sent)

    @staticmethod
    def _aggs(m):
        present = [(k, e[0]) for k, e in enumerate(m) if e is not None]
        return {"loadUnsentPendingPreKeys": tuple(sorted((k, e[0]) for k, e in enumerate(m) if e is not None and not e[1])),
                "loadPendingPreKeys": tuple(sorted(present)),
                "loadPreKeys": tuple(sorted(present)),
                "loadMaxPreKeyId": max([PREKEY_IDS[k] for k, _ in present] or [0])}

    def model_step(self, m, op):
        n = op[0]
        if n == "storePreKey":
            k, v = op[1], op[2]
            if m[k] is None:
                return [(OK_NONE, _set(m, k, (v, False)))]
            return [(REFUSED, m), (OK_NONE, _set(m, k, (v, False)))]
        if n == "removePreKey":
            return [(OK_NONE, _set(m, op[1], None))]
        if n == "setAsSent":
            for k in op[1]:
                if m[k] is not None:
                    m = _set(m, k, (m[k][0], True))
            return [(OK_NONE, m)]
        if n == "loadPreKey":
            return [((("ok", (op[1], m[op[1]][0])) if m[op[1]] is not None else MISSING_KEY), m)]
        if n == "containsPreKey":
            return [(("ok", m[op[1]] is not None), m)]
        return [(("ok", self._aggs(m)[n]), m)]

    @staticmethod
    def _list(recs):
        return tuple(sorted((sym("prekey", r.serialize()) for r in recs), key=repr))

    def real_step(self, real, op):
        s, n = real.store, op[0]
        if n == "storePreKey":
            return outcome_of(lambda: s.storePreKey(PREKEY_IDS[op[1]], V["prekey"][op[1]][op[2]]))
        if n == "removePreKey":
            return outcome_of(lambda: s.removePreKey(PREKEY_IDS[op[1]]))
        if n == "setAsSent":
            return outcome_of(lambda: s.preKeyStore.setAsSent([PREKEY_IDS[k] for k in op[1]]))
        if n == "loadPreKey":
            return outcome_of(lambda: sym("prekey", s.loadPreKey(PREKEY_IDS[op[1]]).serialize()))
        if n == "containsPreKey":
            return outcome_of(lambda: s.containsPreKey(PREKEY_IDS[op[1]]))
        if n == "loadUnsentPendingPreKeys":
            return outcome_of(lambda: self._list(s.preKeyStore.loadUnsentPendingPreKeys()))
        if n == "loadPendingPreKeys":
            return outcome_of(lambda: self._list(s.preKeyStore.loadPendingPreKeys()))
        if n == "loadMaxPreKeyId":
            return outcome_of(lambda: s.preKeyStore.loadMaxPreKeyId())

    def battery(self, store):
        unsent = self._list(store.preKeyStore.loadUnsentPendingPreKeys())
        unsent_ids = [r.getId() for r in store.preKeyStore.loadUnsentPendingPreKeys()]
        recs = {}
        for k in range(self.nk):
            o = outcome_of(lambda: sym("prekey", store.loadPreKey(PREKEY_IDS[k]).serialize()))
            if o == MISSING_KEY:
                val = None
            elif o[0] == "ok":
                val = o[1]
            else:
                val = o
            recs["prekey/%d" % k] = (val, store.containsPreKey(PREKEY_IDS[k]), unsent_ids.count(PREKEY_IDS[k]))
        aggs = {"loadUnsentPendingPreKeys": unsent,
                "loadPendingPreKeys": self._list(store.preKeyStore.loadPendingPreKeys()),
                "loadPreKeys": self._list(store.loadPreKeys()),
                "loadMaxPreKeyId": store.preKeyStore.loadMaxPreKeyId()}
        return recs, aggs

    def expected(self, m):
        recs = {}
        for k in range(self.nk):
            e = m[k]
            recs["prekey/%d" % k] = ((k, e[0]), True, 0 if e[1] else 1) if e is not None else (None, False, 0)
        return recs, self._aggs(m)

    def aggs_unordered(self, records):
        m = []
        for k in range(self.nk):
            val, _, unsent = records["prekey/%d" % k]
            m.append(None if val is None else (val[1], not unsent))
        return self._aggs(tuple(m))


class SignedPreKeys(Family):
    name = "signed_prekeys"
    writers = ("storeSignedPreKey", "removeSignedPreKey")

    def __init__(self, nkeys=2, nvals=2):
        self.nk, self.nv = nkeys, nvals

    def alphabet(self, writers_only=False):
        ks, vs = range(self.nk), range(self.nv)
        ops = [["storeSignedPreKey", k, v] for k in ks for v in vs]
        ops += [["removeSignedPreKey", k] for k in ks]
        if not writers_only:
            ops += [["loadSignedPreKey", k] for k in ks]
            ops += [["containsSignedPreKey", k] for k in ks]
            ops += [["loadSignedPreKeys"]]
        return ops

    def initial(self):
        return ()                       # ordered list of (key index, value index), oldest first

    def model_step(self, m, op):
        n = op[0]
        d = dict(m)
        if n == "storeSignedPreKey":
            k, v = op[1], op[2]
            if k not in d:
                return [(OK_NONE, m + ((k, v),))]
            in_place = tuple((kk, v if kk == k else vv) for kk, vv in m)
            at_end = tuple(e for e in m if e[0] != k) + ((k, v),)
            return [(REFUSED, m), (OK_NONE, in_place), (OK_NONE, at_end)]
        if n == "removeSignedPreKey":
            return [(OK_NONE, tuple(e for e in m if e[0] != op[1]))]
        if n == "loadSignedPreKey":
            return [((("ok", (op[1], d[op[1]])) if op[1] in d else MISSING_KEY), m)]
        if n == "containsSignedPreKey":
            return [(("ok", op[1] in d), m)]
        if n == "loadSignedPreKeys":
            return [(("ok", m), m)]

    def real_step(self, real, op):
        s, n = real.store, op[0]
        if n == "storeSignedPreKey":
            return outcome_of(lambda: s.storeSignedPreKey(SIGNED_IDS[op[1]], V["signed"][op[1]][op[2]]))
        if n == "removeSignedPreKey":
            return outcome_of(lambda: s.removeSignedPreKey(SIGNED_IDS[op[1]]))
        if n == "loadSignedPreKey":
            return outcome_of(lambda: sym("signed", s.loadSignedPreKey(SIGNED_IDS[op[1]]).serialize()))
        if n == "containsSignedPreKey":
            return outcome_of(lambda: s.containsSignedPreKey(SIGNED_IDS[op[1]]))
        if n == "loadSignedPreKeys":
            return outcome_of(lambda: tuple(sym("signed", r.serialize()) for r in s.loadSignedPreKeys()))

    def battery(self, store):
        recs = {}
        for k in range(self.nk):
            o = outcome_of(lambda: sym("signed", store.loadSignedPreKey(SIGNED_IDS[k]).serialize()))
            val = None if o == MISSING_KEY else (o[1] if o[0] == "ok" else o)
            recs["signed/%d" % k] = (val, store.containsSignedPreKey(SIGNED_IDS[k]))
        return recs, {"loadSignedPreKeys": tuple(sym("signed", r.serialize()) for r in store.loadSignedPreKeys())}

    def expected(self, m):
        d = dict(m)
        recs = {}
        for k in range(self.nk):
            recs["signed/%d" % k] = ((k, d[k]), True) if k in d else (None, False)
        return recs, {"loadSignedPreKeys": m}

    def aggs_unordered(self, records):
        return {"loadSignedPreKeys": tuple(sorted(records["signed/%d" % k][0] for k in range(self.nk)
                                                  if records["signed/%d" % k][0] is not None))}

    def norm_unordered(self, aggs):
        return {"loadSignedPreKeys": tuple(sorted(aggs["loadSignedPreKeys"], key=repr))}


class SenderKeys(Family):
    name = "sender_keys"
    writers = ("storeSenderKey",)

    def __init__(self, nkeys=3, nvals=2):
        self.nk, self.nv = nkeys, nvals

    def alphabet(self, writers_only=False):
        ks, vs = range(self.nk), range(self.nv)
        ops = [["storeSenderKey", k, v] for k in ks for v in vs]
        if not writers_only:
            ops += [["loadSenderKey", k] for k in ks]
        return ops

    def initial(self):
        return (None,) * self.nk

    def model_step(self, m, op):
        if op[0] == "storeSenderKey":
            return [(OK_NONE, _set(m, op[1], op[2]))]
        if op[0] == "loadSenderKey":
            return [(("ok", m[op[1]]), m)]

    @staticmethod
    def _load(store, k):
        rec = store.loadSenderKey(V["sender_names"][k])
        return None if rec.isEmpty() else sym("sender", rec.serialize())

    def real_step(self, real, op):
        s = real.store
        if op[0] == "storeSenderKey":
            return outcome_of(lambda: s.storeSenderKey(V["sender_names"][op[1]], V["sender"][op[2]]))
        if op[0] == "loadSenderKey":
            return outcome_of(lambda: self._load(s, op[1]))

    def battery(self, store):
        return dict(("senderkey/%d" % k, self._load(store, k)) for k in range(self.nk)), {}

    def expected(self, m):
        return dict(("senderkey/%d" % k, m[k]) for k in range(self.nk)), {}


class Mixed(Family):
    """One key, one value per table, writers only: no table's update disturbs another table
    (sessions and pinned identities share the recipient; pinned identities share a table with the own identity)."""
    name = "mixed"

    def __init__(self):
        self.parts = [Sessions(1, 1), Identities(1, 1), PreKeys(1, 1), SignedPreKeys(1, 1), SenderKeys(1, 1)]
        self.by_op = {}
        for i, p in enumerate(self.parts):
            for op in p.alphabet(False):
                self.by_op[op[0]] = i
        self.writers = tuple(w for p in self.parts for w in p.writers)

    def alphabet(self, writers_only=False):
        return [op for p in self.parts for op in p.alphabet(True)]

    def initial(self):
        return tuple(p.initial() for p in self.parts)

    def model_step(self, m, op):
        i = self.by_op[op[0]]
        return [(o, _set(m, i, nm)) for o, nm in self.parts[i].model_step(m[i], op)]

    def real_step(self, real, op):
        return self.parts[self.by_op[op[0]]].real_step(real, op)

    def battery(self, store):
        recs, aggs = {}, {}
        for p in self.parts:
            r, a = p.battery(store)
            recs.update(r)
            aggs.update(a)
        return recs, aggs

    def expected(self, m):
        recs, aggs = {}, {}
        for p, pm in zip(self.parts, m):
            r, a = p.expected(pm)
            recs.update(r)
            aggs.update(a)
        return recs, aggs

    def aggs_unordered(self, records):
        out = {}
        for p in self.parts:
            out.update(p.aggs_unordered(records))
        return out

    def norm_unordered(self, aggs):
        aggs = dict(aggs)
        aggs.update(self.parts[3].norm_unordered(aggs))
        return aggs


FAMILIES = {}
FAM_ORDER = ["sessions", "identities", "prekeys", "signed_prekeys", "sender_keys", "mixed"]


def families():
    if not FAMILIES:
        for f in (Sessions(), Identities(), PreKeys(), SignedPreKeys(), SenderKeys(), Mixed()):
            FAMILIES[f.name] = f
    return FAMILIES


# ----------------------------------------------------------------------------------------------
# one history: durability + crash points of its last call
# ----------------------------------------------------------------------------------------------
def opname(op):
    return op[0]


def fmt_op(op):
    return "%s(%s)" % (op[0], ",".join(str(a) for a in op[1:]))


def fmt_hist(hist):
    return " ; ".join(fmt_op(o) for o in hist) or "(empty)"


def diff_obs(got, exp):
    return dict((k, {"observed": got.get(k), "expected": exp.get(k)}) for k in sorted(set(got) | set(exp))
                if got.get(k) != exp.get(k))


def kind_of(key):
    return key.split("/")[0]


class HistResult(object):
    def __init__(self):
        self.violations = []
        self.legacy_images = 0        # final on-disk states re-read with TEXT storage class
        self.legacy_cells = 0         # record cells converted BLOB -> TEXT for that
        self.live_dirty = False       # a Part-1 violation: the live store disagrees with the model from here on
        self.evaluations = 0          # battery comparisons against the model (live + recovered images)
        self.boundaries = 0
        self.images = 0
        self.mid_update_images = 0    # recovered images that contain a hot -journal next to the database
        self.final_model = None
        self.final_obs = None
        self.outcome = None


RUN_SCRATCH = [None]      # per-run scratch root made by run() before the pool forks; removed by the parent at the end


def run_history(fam_name, hist, crash=True):
    """Execute one history on a fresh real store; returns HistResult."""
    build_values()
    crashsql.install()
    fam = families()[fam_name]
    res = HistResult()
    case = {"family": fam_name, "history": [list(o) for o in hist]}
    scratch = tempfile.mkdtemp(prefix="c13-", dir=RUN_SCRATCH[0] or env.scratch_root())
    work = os.path.join(scratch, "live")
    os.mkdir(work)
    real = None
    try:
        assert las_mod.sqlite3 is crashsql.SHIM
        first_open = crashsql.CrashRecorder(work) if (crash and not hist) else None
        try:
            with crashsql.recording(first_open):
                real = Real(os.path.join(work, DB))
        except Exception as e:
            res.violations.append(("C13:raises:open", "opening a fresh store raised %r" % e, case, repr(e)))
            return res
        if not isinstance(conn_of(real.store), crashsql.BoundaryConnection):
            raise RuntimeError("store did not get the instrumented connection")
        m = fam.initial()
        last_writer = None
        for i, op in enumerate(hist):
            is_last = i == len(hist) - 1
            pre = m
            recorder = crashsql.CrashRecorder(work) if (crash and is_last) else None
            # -- the real call ---------------------------------------------------------------
            with crashsql.recording(recorder):
                if op[0] == "reopen":
                    got = outcome_of(real.reopen)
                    alts = [(OK_NONE, m)]
                else:
                    got = fam.real_step(real, op)
                    alts = fam.model_step(m, op)
            match = [a for a in alts if a[0] == got]
            if not match:
                exp = [a[0] for a in alts]
                if got[0] == "raises":
                    res.violations.append(("C13:raises:%s" % opname(op),
                                           "%s raised %s after [%s]" % (fmt_op(op), got[1], fmt_hist(hist[:i])),
                                           case, {"observed": got, "allowed": exp}))
                else:
                    res.violations.append(("C13:result:%s" % opname(op),
                                           "%s returned a value that contradicts the stored data, after [%s]"
                                           % (fmt_op(op), fmt_hist(hist[:i])), case, {"observed": got, "allowed": exp}))
                res.live_dirty = True
                return res
            if got[0] == "ok" and len(match) > 1:
                # several allowed successors for "ok" (replace in place / at end): take the one the store shows
                obs = fam.battery(real.store)
                match = [a for a in match if fam.expected(a[1]) == obs] or match
            m = match[0][1]
            prev_writer = last_writer
            if fam.is_writer(op) and got[0] == "ok":
                last_writer = opname(op)
            if not is_last:
                continue
            # -- battery on the live store after the last call ---------------------------------
            try:
                recs, aggs = fam.battery(real.store)
                own = real.own_status()
            except Exception as e:
                res.violations.append(("C13:raises:battery-after-%s" % opname(op),
                                       "a load function raised %r after [%s]" % (e, fmt_hist(hist)), case, repr(e)))
                res.live_dirty = True
                return res
            res.evaluations += 1
            erecs, eaggs = fam.expected(m)
            phase = ("reopen:%s" % (last_writer or "none")) if op[0] == "reopen" else ("state:%s" % opname(op))
            rec_diff = diff_obs(recs, erecs)
            for key, d in rec_diff.items():
                res.violations.append(("C13:%s:%s" % (phase, kind_of(key)),
                                       "after [%s] the store shows %s = %r, the stored data say %r"
                                       % (fmt_hist(hist), key, d["observed"], d["expected"]), case, {key: d}))
            if not rec_diff:
                # list / max loads are reported on their own only when every single-record load is right
                for key, d in diff_obs(aggs, eaggs).items():
                    res.violations.append(("C13:%s:%s" % (phase, key),
                                           "after [%s] %s() returns %r, the stored data say %r"
                                           % (fmt_hist(hist), key, d["observed"], d["expected"]), case, {key: d}))
            if own != "same":
                res.violations.append(("C13:%s:own-identity" % phase,
                                       "after [%s] own identity key pair / registration id is %s" % (fmt_hist(hist), own),
                                       case, own))
            if res.violations:
                res.live_dirty = True
            res.final_model = m
            res.final_obs = (tuple(sorted(recs.items())), tuple(sorted(aggs.items())), own)
            # -- crash points of the last call ---------------------------------------------------
            if recorder is not None and not res.live_dirty:     # a wrong live store makes before/after meaningless
                check_crash_points(fam, real, recorder, op, pre, m, hist, case, scratch, res, prev_writer)
        if not hist:
            recs, aggs = fam.battery(real.store)
            res.evaluations += 1
            erecs, eaggs = fam.expected(m)
            if (recs, aggs) != (erecs, eaggs) or real.own_status() != "same":
                d = dict(diff_obs(recs, erecs), **diff_obs(aggs, eaggs))
                res.violations.append(("C13:state:fresh", "a fresh store does not read as empty: %s"
                                       % "; ".join("%s = %r, expected %r" % (k, v["observed"], v["expected"])
                                                   for k, v in d.items()), case, d))
                res.live_dirty = True
            res.final_model = m
            res.final_obs = (tuple(sorted(recs.items())), tuple(sorted(aggs.items())), "same")
            if first_open is not None and not res.live_dirty:
                check_first_open_crash(fam, first_open, case, scratch, res)
        if crash and not res.violations:
            check_legacy_text(fam, real, m, hist, case, scratch, work, res)
        return res
    finally:
        if real is not None:
            try:
                close_store(real.store)
            except Exception:
                pass
        shutil.rmtree(scratch, ignore_errors=True)


def check_crash_points(fam, real, recorder, op, pre, post, hist, case, scratch, res, prev_writer=None):
    pre_recs, pre_aggs = fam.expected(pre)
    post_recs, post_aggs = fam.expected(post)
    res.boundaries = len(recorder.boundaries)
    points = recorder.crash_points()
    res.images = len(points)
    site = opname(op)
    for n, (img, bounds) in enumerate(points):
        at = bounds[0].label()
        ccase = dict(case, crash_at=at)
        cdir = os.path.join(scratch, "crash%d" % n)
        crashsql.write_dir_image(img, cdir)
        store2 = None
        try:
            try:
                store2 = LiteAxolotlStore(os.path.join(cdir, DB))
                recs, aggs = fam.battery(store2)
                own = real.own_status(store2)
            except Exception as e:
                res.violations.append(("C13:crash-unrecoverable:%s" % site,
                                       "process death at %s of %s (after [%s]): the store cannot be reopened/read: %r"
                                       % (at, fmt_op(op), fmt_hist(hist[:-1])), ccase, repr(e)))
                continue
        finally:
            if store2 is not None:
                close_store(store2)
        res.evaluations += 1
        if len(img) > 1:
            res.mid_update_images += 1
        if own != "same" and n > 0:
            res.violations.append(("C13:crash-own-identity:%s" % site,
                                   "process death at %s of %s: own identity / registration id %s" % (at, fmt_op(op), own),
                                   ccase, own))
        if n == 0 and (recs != pre_recs or own != "same"):
            # image taken before the call's first statement = process death while idle after the earlier calls:
            # what those calls stored is not on disk.  One finding, attributed to the last earlier writer; the
            # other images of this call are not judged on that basis.
            d = diff_obs(recs, pre_recs)
            res.violations.append(("C13:idle-crash-loses:%s" % (prev_writer or "open"),
                                   "process death while idle after [%s] (i.e. before %s starts): %s"
                                   % (fmt_hist(hist[:-1]), fmt_op(op),
                                      "; ".join("%s is %r, stored was %r" % (k, v["observed"], v["expected"])
                                                for k, v in d.items()) or "own identity %s" % own),
                                   ccase, {"records": d, "own": own}))
            return
        for key in sorted(pre_recs):
            g, a, b = recs.get(key), pre_recs[key], post_recs[key]
            if g == a or g == b:
                continue
            absent = erec_absent(fam, key)
            if g == absent and a != absent and b != absent:
                sig, why = "crash-lost", "existed before, exists after, MISSING in between"
            elif a == b:
                sig, why = "crash-collateral", "a record the call does not change"
            else:
                sig, why = "crash-neither", "neither the previous nor the new value"
            res.violations.append(("C13:%s:%s" % (sig, site),
                                   "process death at %s of %s (after [%s]): %s is %r (%s; before %r, after %r)"
                                   % (at, fmt_op(op), fmt_hist(hist[:-1]), key, g, why, a, b),
                                   ccase, {"record": key, "recovered": g, "before": a, "after": b,
                                           "files_on_disk": bounds[0].files}))
        # aggregate loads must be consistent with the recovered records
        if recs == pre_recs:
            want = [pre_aggs] + ([post_aggs] if recs == post_recs else [])
            gota = aggs
        elif recs == post_recs:
            want, gota = [post_aggs], aggs
        else:
            want, gota = [fam.norm_unordered(fam.aggs_unordered(recs))] if all(
                recs.get(k) in (pre_recs[k], post_recs[k]) for k in pre_recs) else [], fam.norm_unordered(aggs)
        if want and gota not in want:
            d = diff_obs(gota, want[0])
            for key in d:
                res.violations.append(("C13:crash-aggregate:%s:%s" % (site, key),
                                       "process death at %s of %s (after [%s]): %s() = %r does not match the recovered records"
                                       % (at, fmt_op(op), fmt_hist(hist[:-1]), key, d[key]["observed"]),
                                       ccase, {key: d[key], "records": recs}))


# every column that holds key material / a serialised record (schemas in store/sqlite/lite*store.py)
RECORD_COLUMNS = [("identities", "public_key"), ("identities", "private_key"), ("sessions", "record"),
                  ("prekeys", "record"), ("signed_prekeys", "record"), ("sender_keys", "record")]


def to_legacy_text_storage(dbpath):
    """Give the file the on-disk shape of an axolotl.db written by yowsup under Python 2.7, where a bound `str` is
    stored with storage class TEXT: same bytes, TEXT instead of BLOB, in every record / key column.  Uses the plain
    sqlite3 module (not the code under test).  Returns the number of cells converted; checks its own work."""
    import sqlite3
    conn = sqlite3.connect(dbpath)
    conn.text_factory = bytes
    n = 0
    try:
        for table, col in RECORD_COLUMNS:
            q = "SELECT _id, %s FROM %s ORDER BY _id" % (col, table)
            before = conn.execute(q).fetchall()
            cur = conn.execute("UPDATE %s SET %s = CAST(%s AS TEXT) WHERE typeof(%s) = 'blob'" % (table, col, col, col))
            n += cur.rowcount
            after = conn.execute(q).fetchall()
            types = set(r[0] for r in conn.execute("SELECT typeof(%s) FROM %s" % (col, table)).fetchall())
            if after != before or not types <= set([b"text", b"null"]):      # text_factory=bytes: typeof() is bytes too
                raise RuntimeError("harness: CAST to TEXT changed bytes or left a blob in %s.%s" % (table, col))
        conn.commit()
    finally:
        conn.close()
    return n


def check_legacy_text(fam, real, m, hist, case, scratch, work, res):
    """(De)serialisation side of durability: the file as it is on disk after the history, with every record column
    rewritten to TEXT storage class (what a Python-2.7 yowsup wrote), must read back through a fresh
    LiteAxolotlStore exactly as a plain reopen does - that is what `text_factory = bytes` is for."""
    ldir = os.path.join(scratch, "legacy")
    crashsql.write_dir_image(crashsql.read_dir_image(work), ldir)
    path = os.path.join(ldir, DB)
    res.legacy_cells += to_legacy_text_storage(path)
    res.legacy_images += 1
    lcase = dict(case, legacy_text_storage=True)
    where = "after [%s], file with TEXT-typed record columns (as written under python 2.7)" % fmt_hist(hist)
    store2 = None
    try:
        try:
            store2 = LiteAxolotlStore(path)
        except Exception as e:
            res.violations.append(("C13:legacy-text-storage:raises-open", "%s: opening the store raised %r" % (where, e),
                                   lcase, repr(e)))
            return
        try:
            recs, aggs = fam.battery(store2)
            own = real.own_status(store2)
        except Exception as e:
            res.violations.append(("C13:legacy-text-storage:raises-load", "%s: a load function raised %r" % (where, e),
                                   lcase, repr(e)))
            return
    finally:
        if store2 is not None:
            close_store(store2)
    res.evaluations += 1
    erecs, eaggs = fam.expected(m)
    bad = []
    for key, d in diff_obs(recs, erecs).items():
        bad.append(("C13:legacy-text-storage:%s" % kind_of(key), key, d))
    if not bad:
        for key, d in diff_obs(aggs, eaggs).items():
            bad.append(("C13:legacy-text-storage:%s" % key, key, d))
    if own != "same":
        bad.append(("C13:legacy-text-storage:own-identity", "own identity", {"observed": own, "expected": "same"}))
    if not bad:
        return
    # attribute to the storage class only when the very same image reads correctly with its BLOB columns
    # (otherwise data were not on disk in the first place: the reopen / crash histories report that)
    pdir = os.path.join(scratch, "plain")
    crashsql.write_dir_image(crashsql.read_dir_image(work), pdir)
    store3 = None
    try:
        store3 = LiteAxolotlStore(os.path.join(pdir, DB))
        plain = fam.battery(store3) + (real.own_status(store3),)
    except Exception:
        plain = None
    finally:
        if store3 is not None:
            close_store(store3)
    if plain != (erecs, eaggs, "same"):
        return
    for sig, key, d in bad:
        res.violations.append((sig, "%s: %s reads as %r, stored was %r" % (where, key, d["observed"], d["expected"]),
                               lcase, {key: d}))


def check_first_open_crash(fam, recorder, case, scratch, res):
    """Process death while the very first open creates the tables and the own identity: whatever is on disk must
    open as an empty store with an own identity that from then on stays the same."""
    res.boundaries = len(recorder.boundaries)
    points = recorder.crash_points()
    res.images = len(points)
    empty = fam.expected(fam.initial())
    for n, (img, bounds) in enumerate(points):
        at = bounds[0].label()
        ccase = dict(case, crash_at=at)
        cdir = os.path.join(scratch, "crash%d" % n)
        crashsql.write_dir_image(img, cdir)
        try:
            r2 = Real(os.path.join(cdir, DB))
            try:
                obs = fam.battery(r2.store)
                r2.reopen()
                own = "missing" if r2.own0 is None else r2.own_status()
            finally:
                close_store(r2.store)
        except Exception as e:
            res.violations.append(("C13:crash-unrecoverable:open",
                                   "process death at %s of the first open: the store cannot be opened/read: %r" % (at, e),
                                   ccase, repr(e)))
            continue
        res.evaluations += 1
        if obs != empty or own != "same":
            res.violations.append(("C13:crash-first-open", "process death at %s of the first open leaves a store that "
                                   "does not read as empty or has no stable own identity (%s)" % (at, own), ccase,
                                   {"observed": obs, "own": own}))


_ABSENT = {}


def erec_absent(fam, key):
    """The battery value of `key` in an empty store of this family."""
    k = (fam.name, key)
    if k not in _ABSENT:
        _ABSENT[k] = fam.expected(fam.initial())[0][key]
    return _ABSENT[k]


# ----------------------------------------------------------------------------------------------
# enumeration
# ----------------------------------------------------------------------------------------------
REOPEN = ["reopen"]


def all_histories(fam, depth, writers_only=False, min_depth=0):
    alpha = fam.alphabet(writers_only) + [REOPEN]
    for n in range(min_depth, depth + 1):
        for h in itertools.product(alpha, repeat=n):
            yield list(h)


_DIRTY = {}


def prefix_dirty(fam_name, hist):
    """True when a proper prefix of hist (itself an enumerated history) already leaves the live store in
    disagreement with the model: everything after that is a consequence, reported once at the shortest history.
    Crash-point findings of a prefix do not count: they say nothing about the live store."""
    for n in range(0, len(hist)):
        k = (fam_name, repr(hist[:n]))
        if k not in _DIRTY:
            _DIRTY[k] = run_history(fam_name, hist[:n], crash=False).live_dirty
        if _DIRTY[k]:
            return True
    return False


def work_chunk(item):
    """Worker: run a list of histories of one family; return violations + counters."""
    fam_name, hists = item
    fam = families()[fam_name]
    out = {"family": fam_name, "violations": [], "histories": 0, "evaluations": 0, "boundaries": 0, "images": 0,
           "mid": 0, "nontrivial": 0, "models": set(), "outcomes": set(), "violating_histories": 0, "suppressed": 0,
           "legacy_images": 0, "legacy_cells": 0}
    for h in hists:
        r = run_history(fam_name, h)
        out["histories"] += 1
        out["evaluations"] += r.evaluations
        out["boundaries"] += r.boundaries
        out["images"] += r.images
        out["mid"] += r.mid_update_images
        out["legacy_images"] += r.legacy_images
        out["legacy_cells"] += r.legacy_cells
        if h and fam.is_writer(h[-1]) and r.images >= 2:
            out["nontrivial"] += 1      # histories are pairwise distinct by construction
        if r.final_model is not None:
            out["models"].add(r.final_model)
            out["outcomes"].add(hash(r.final_obs))
        if r.violations:
            out["violating_histories"] += 1
            if prefix_dirty(fam_name, h):
                out["suppressed"] += 1          # an enumerated proper prefix already shows the store going wrong
                continue
        for v in r.violations:
            out["violations"].append(((len(h), FAM_ORDER.index(fam_name)), v))
    # keep only the shortest case per signature (set of cases is seed-independent, so is the choice)
    best = {}
    for ln, v in out["violations"]:
        k = (ln, repr(v[2]))
        if v[0] not in best or k < best[v[0]][0]:
            best[v[0]] = (k, v)
    out["nviol"] = len(out["violations"])
    out["violations"] = [(k, v) for k, v in best.values()]
    return out


def closure_bfs(fam_name):
    """E2 with state merging on the REAL store's battery: shows which abstract store contents are reachable and
    that the histories enumerated above visit all of them (the frontier empties before the depth bound)."""
    build_values()
    fam = families()[fam_name]
    alpha = fam.alphabet(True) + [REOPEN]

    def build(hist):
        return run_history(fam_name, hist, crash=False)

    def enabled(st, hist):
        return alpha

    def canon(st):
        return st.final_obs

    def check(st, hist):
        return st.violations

    r = bfs(build, enabled, canon, check, max_depth=8)
    return (fam_name, r.states, r.transitions, r.max_depth, len(r.violations))


def run(ctx):
    RUN_SCRATCH[0] = tempfile.mkdtemp(prefix="c13run-", dir=env.scratch_root())
    try:
        _run(ctx)
    finally:
        # also sweeps what workers leave behind when the pool is torn down early
        shutil.rmtree(RUN_SCRATCH[0], ignore_errors=True)
        RUN_SCRATCH[0] = None


def _run(ctx):
    from vf.runner import shuffled
    build_values()
    crashsql.install()
    fams = families()
    depth = 3 if ctx.quick else 4
    extra = 4 if ctx.quick else 5         # writers + reopen only, one step deeper
    items = []
    plan = {}
    for name, fam in fams.items():
        hs = list(all_histories(fam, depth))
        seen = set(repr(h) for h in hs)
        if name != "mixed":
            deeper = [h for h in all_histories(fam, extra, writers_only=True, min_depth=depth + 1)]
        else:
            deeper = []
        plan[name] = {"alphabet": len(fam.alphabet()) + 1, "full_alphabet_depth": depth, "histories_full": len(hs),
                      "writers_alphabet": len(fam.alphabet(True)) + 1,
                      "writers_only_depth": extra if deeper else None, "histories_writers_deeper": len(deeper)}
        hs = hs + deeper
        assert len(set(repr(h) for h in hs)) == len(hs)
        hs = shuffled(hs, ctx.seed, "c13/" + name)
        step = 40
        for i in range(0, len(hs), step):
            items.append((name, hs[i:i + step]))
    items = shuffled(items, ctx.seed, "c13/items")

    tot = {"histories": 0, "evaluations": 0, "boundaries": 0, "images": 0, "mid": 0, "nontrivial": 0, "nviol": 0,
           "legacy_images": 0, "legacy_cells": 0,
           "violating_histories": 0, "suppressed": 0}
    per_fam = dict((n, {"histories": 0, "crash_points": 0, "crash_images_recovered": 0, "model_states": set()})
                   for n in fams)
    outcomes = set()
    best = {}
    for out in ctx.pimap(work_chunk, items):
        for k in tot:
            tot[k] += out[k]
        pf = per_fam[out["family"]]
        pf["histories"] += out["histories"]
        pf["crash_points"] += out["boundaries"]
        pf["crash_images_recovered"] += out["images"]
        pf["model_states"] |= out["models"]
        outcomes |= set((out["family"], o) for o in out["outcomes"])
        for k, v in out["violations"]:
            if v[0] not in best or k < best[v[0]][0]:
                best[v[0]] = (k, v)
    # report smallest case per signature, signatures in a fixed order
    for sig in sorted(best):
        ctx.add_violations([best[sig][1]])
    ctx.violation_count = max(ctx.violation_count, tot["violating_histories"])

    closure = {}
    for name, states, transitions, maxd, nv in ctx.pimap(closure_bfs, sorted(fams)):
        closure[name] = {"abstract_states": states, "transitions": transitions, "closed_at_depth": maxd}

    for name in sorted(fams):
        per_fam[name]["model_states"] = len(per_fam[name]["model_states"])
        per_fam[name].update(plan[name])
    ctx.sample({"family": "sessions", "history": [["storeSession", 0, 0], ["storeSession", 0, 1]],
                "crash_points": "before/after DELETE, commit, INSERT, commit of the last call"})
    ctx.sample({"family": "prekeys", "history": [["storePreKey", 0, 0], ["setAsSent", [0]], ["reopen"]]})
    ctx.sample({"family": "mixed", "history": [["saveIdentity", 0, 0], ["storeSession", 0, 0], ["reopen"]]})
    ctx.coverage.update({
        "evaluations": tot["evaluations"],
        "distinct_nontrivial": tot["nontrivial"],
        "rule": "distinct histories whose last call is a writer and whose execution produced >= 2 different on-disk "
                "images (i.e. at least one real mid-update crash point was recovered and compared)",
        "exhaustive": True,
        "histories": tot["histories"],
        "crash_points": tot["boundaries"],
        "crash_images_recovered": tot["images"],
        "images_with_hot_journal": tot["mid"],
        "legacy_text_storage_reopens": tot["legacy_images"],
        "legacy_text_cells_converted": tot["legacy_cells"],
        "per_family": per_fam,
        "closure_bfs": closure,
        "distinct_outcomes": len(outcomes),
        "bound": "every call sequence of length <= %d over the full per-family alphabet (readers, writers, reopen) and "
                 "of length <= %d over writers + reopen; every statement/commit boundary of the last call as crash point"
                 % (depth, extra),
        "violating_histories": tot["violating_histories"],
        "violating_histories_with_violating_prefix": tot["suppressed"],
    })
    ctx.assume("sqlite commits atomically and recovers a hot journal correctly; crash = process death (kill -9), "
               "not power loss: every completed write() is on disk")
    ctx.assume("record values are fresh random key material per run (python-axolotl draws from os.urandom); the store "
               "treats records as opaque blobs, so the verdict does not depend on them")
    ctx.assume("device id is always 1 and recipient ids are numeric usernames, as in yowsup.axolotl.manager")
    ctx.assume("re-storing a prekey / signed prekey id that is still present may be refused with IntegrityError "
               "(store unchanged) - the encryption layer numbers new prekeys past the current maximum")


def replay(ctx, case):
    build_values()
    crashsql.install()
    r = run_history(case["family"], case["history"])
    return r.violations
