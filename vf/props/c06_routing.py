"""C06 Exactly-once routing of stanzas and entities through the assembled stack.

Exploration (E1): kind table x 32 configurations x field vectors, every case one execution of the REAL layer set
hosted in a real YowStack between a BottomProbe and a TopProbe (vf/harness/protostack.py): 16 selections of the
optional groups / media / privacy / profiles modules x {without, with} the three encryption layers.

Reference model = the KIND TABLE below, written by hand from the layers' handle maps (DESIGN Appendix A): for
every outgoing entity an application can send and every incoming stanza a server can send it says which module
owns it, which entity class must arrive at the application side, which earlier request an iq reply belongs to and
which mandatory answers the layer set may write downward while handling it.  The stanzas / entities themselves
come from the shape generators of vf/ref/shapes.py (shared with C09).

Oracle (from the statement)
  outgoing, owner selected   exactly one stanza at the BottomProbe, strictly equal to entity.toProtocolTreeNode();
                             nothing at the TopProbe.  With the encryption layers a message must arrive as exactly
                             one <message> with the same id / recipient whose children are all <enc> (contents: C03).
  incoming, owner selected   exactly one entity at the TopProbe, of the class the table names, whose
                             re-serialisation equals the stanza (conventions of C09); at the BottomProbe only the
                             mandatory answers the table allows (their number and fields are C07's subject).
  iq replies                 the request is first sent through the top (fills the owner's registry), its id is
                             copied into the reply.
  owner NOT selected         nothing at the TopProbe, nothing at the BottomProbe except an allowed mandatory
                             answer, and no exception.
  always                     no exception escapes.
  assembly                   before anything else every configuration is assembled twice in one process: the layer
                             set must be the 11 basic layers plus exactly the selected modules' layers, each once.
  scenarios (two steps)      TextMessage.out+KeyFetch / +GroupInfo (encryption layers): a send that first needs a
                             library-internal key fetch / group info request; the reply consumed by the send layer
                             is still forwarded upward by the receive layer and must be ignored by every protocol
                             layer: exactly one enc envelope at the bottom, nothing at the top.
                             IncomingReceipt+SentMessage: a receipt for a message sent just before (held in the
                             send layer's queue when encryption is on) reaches the top exactly once.

Signature "C06:<kind>:<what>[:<config-class>]": the config class (e.g. media-off, enc-on) is computed from the
set of configurations in which the kind fails and is present only when the failure depends on it.
"""
import hashlib

from vf import env
env.bootstrap()

from vf.ref import shapes as S
from vf.harness import protostack as P
from vf.runner import shuffled
from yowsup.structs import ProtocolTreeNode, ProtocolEntity

PROPERTY = "C06"
LEVEL = "exploration"

N = ProtocolTreeNode


# ==================================================================================================
# the kind table (reference model)
# ==================================================================================================
class Kind(object):
    def __init__(self, name, direction, shape=None, module=None, enc=False, message=False, cls=None, request=None,
                 down=None, top=True, gen=None, note=None, down_exactly=None):
        self.name = name                # used in signatures
        self.direction = direction      # 'out' | 'in'
        self.shape = shape              # generator in vf/ref/shapes.py (None: gen)
        self.module = module            # optional module that owns the kind (None = basic layer)
        self.enc = enc                  # True: owned by the encryption layers
        self.message = message          # outgoing <message>: wrapped into an enc envelope when encryption is on
        self.cls = cls                  # incoming: name of the entity class expected at the top
        self.request = request          # iq reply: outgoing shape to send first
        self.down = down                # incoming: class of mandatory answers allowed at the bottom
        self.top = top                  # incoming: False = handled by the library itself, nothing for the application
        self.gen = gen                  # custom generator f(vector) -> (stanza, expected re-serialisation | None, defaults)
        self.note = note
        self.down_exactly = down_exactly  # owner selected: exactly this many of the allowed answers (else: C07 counts)

    def supported(self, cfg):
        return cfg.has(self.module) and (cfg.enc or not self.enc)


KINDS = []


def _clsname(shape):
    return S.SHAPES[shape].clsname


def out(shape, module=None, message=False, name=None):
    KINDS.append(Kind(name or shape, "out", shape, module, message=message))


def inc(shape, module=None, down=None, top=True, cls=None, name=None):
    KINDS.append(Kind(name or shape, "in", shape, module, cls=cls or _clsname(shape), down=down, top=top))


def reply(shape, request, module=None, cls=None):
    KINDS.append(Kind("%s<-%s" % (shape, request), "in", shape, module, cls=cls or _clsname(shape), request=request))


def custom(name, gen, module=None, enc=False, cls=None, down=None, top=True, note=None, down_exactly=None):
    KINDS.append(Kind(name, "in", None, module, enc=enc, cls=cls, down=down, top=top, gen=gen, note=note,
                      down_exactly=down_exactly))


# ---- outgoing: tag-routed basics --------------------------------------------------------------------
out("OutgoingReceipt")                    # receipts: tag
out("OutgoingAck")                        # acks: tag
out("OutgoingChatstate")                  # chatstate: tag
out("Presence.out")
out("AvailablePresence")
out("UnavailablePresence")
out("SubscribePresence")
out("UnsubscribePresence")                # presence: tag
out("Call.out")                           # calls: tag
out("Notification.out")                   # notifications: tag
# ---- outgoing iq: by xmlns / class ---------------------------------------------------------------------
out("PingIq")                             # iq layer, w:p (registry)
out("PushIq")
out("PropsIq")
out("CryptoIq")
out("GetKeysIq")
out("SetKeysIq")                          # iq layer: urn:xmpp:whatsapp:push, w, urn:xmpp:whatsapp:account, encrypt
out("LastseenIq")                         # presence layer, jabber:iq:last
out("CleanIq")                            # ib layer, by class
out("GetSyncIq")                          # contacts layer, urn:xmpp:whatsapp:sync
for _n in ("CreateGroupsIq", "InfoGroupsIq", "LeaveGroupsIq", "ListGroupsIq", "SubjectGroupsIq",
           "ParticipantsGroupsIq", "AddParticipantsIq", "PromoteParticipantsIq", "DemoteParticipantsIq",
           "RemoveParticipantsIq"):
    out(_n, "groups")                     # groups layer, class in HANDLE
out("RequestUploadIq", "media")           # media layer, w:m + set
out("PrivacyListIq", "privacy")           # privacy layer, jabber:iq:privacy
for _n in ("GetPictureIq", "SetPictureIq", "ListPicturesIq", "GetPrivacyIq", "SetPrivacyIq", "SetStatusIq",
           "GetStatusesIq"):
    out(_n, "profiles")                   # profiles layer: w:profile:picture, privacy, isinstance status
# ---- outgoing messages ---------------------------------------------------------------------------------
for _n in ("TextMessage.out", "TextMessage.forward", "ExtendedTextMessage.out", "BroadcastTextMessage"):
    out(_n, None, message=True)           # messages layer, getType() == "text"
for _n in ("ImageMessage.out", "StickerMessage.out", "AudioMessage.out", "VideoMessage.out", "DocumentMessage.out",
           "LocationMessage.out", "ContactMessage.out", "ExtendedTextMediaMessage.out"):
    out(_n, "media", message=True)        # media layer, getType() == "media"

# ---- incoming: auth ------------------------------------------------------------------------------------
inc("StreamFeatures")
inc("Success")
inc("Failure")
inc("StreamError.conflict")
inc("StreamError.other")
# ---- incoming: tag-routed basics -----------------------------------------------------------------------
inc("IncomingAck")
inc("IncomingReceipt")                    # with encryption: via the send layer (nothing queued), then receipts
inc("IncomingChatstate")
inc("Presence.in")
inc("DirtyIb")
inc("OfflineIb")
inc("AccountIb")
inc("Call.in", down="call")
# ---- incoming: notifications ---------------------------------------------------------------------------
inc("SetPictureNotification", down="notification-ack")
inc("DeletePictureNotification", down="notification-ack")
inc("StatusNotification", down="notification-ack")
for _n in ("AddContactNotification", "RemoveContactNotification", "UpdateContactNotification",
           "ContactsSyncNotification"):
    inc(_n, down="notification-ack")      # entity by the contacts layer, ack by the notifications layer
for _n in ("SubjectGroupsNotification", "CreateGroupsNotification", "AddGroupsNotification",
           "RemoveGroupsNotification"):
    inc(_n, "groups", down="notification-ack")
# encrypt notifications never reach the application: with the encryption layers the control layer consumes them
# (ack + key upload / key fetch), without them the notifications layer treats them as an unknown type (ack)
inc("RequestKeysEncryptNotification", down="encrypt", top=False)
inc("IdentityChangeEncryptNotification", down="encrypt", top=False)
# ---- incoming: messages --------------------------------------------------------------------------------
inc("TextMessage.in")
inc("ExtendedTextMessage.in")
for _n in ("ImageMessage.in", "StickerMessage.in", "AudioMessage.in", "VideoMessage.in", "DocumentMessage.in",
           "LocationMessage.in", "ContactMessage.in", "ExtendedTextMediaMessage.in"):
    inc(_n, "media", down="receipt")      # down: media module absent -> a receipt would be a mandatory answer (C07)
inc("MediaMessage.in", "media", down="receipt", top=False)   # unknown mediatype: receipt only (C07)
# ---- incoming: iq replies ------------------------------------------------------------------------------
inc("ResultSyncIq")                       # contacts layer: matched by the <sync> child, no registry
reply("ResultIq", "PingIq")
reply("ResultLastseenIq", "LastseenIq")
reply("ErrorIq", "LastseenIq")
reply("SuccessCreateGroupsIq", "CreateGroupsIq", "groups")
reply("SuccessLeaveGroupsIq", "LeaveGroupsIq", "groups")
reply("SuccessAddParticipantsIq", "AddParticipantsIq", "groups")
reply("FailureAddParticipantsIq", "AddParticipantsIq", "groups")
reply("SuccessRemoveParticipantsIq", "RemoveParticipantsIq", "groups")
reply("ListParticipantsResultIq", "ParticipantsGroupsIq", "groups")
reply("InfoGroupsResultIq", "InfoGroupsIq", "groups")
reply("ListGroupsResultIq", "ListGroupsIq", "groups")
for _n in ("SubjectGroupsIq", "PromoteParticipantsIq", "DemoteParticipantsIq"):
    reply("ResultIq", _n, "groups")
for _n in ("CreateGroupsIq", "LeaveGroupsIq", "InfoGroupsIq", "SubjectGroupsIq", "PromoteParticipantsIq",
           "DemoteParticipantsIq", "RemoveParticipantsIq"):
    reply("ErrorIq", _n, "groups")
reply("ResultRequestUploadIq", "RequestUploadIq", "media")
reply("ErrorIq", "RequestUploadIq", "media")
reply("ResultGetPictureIq", "GetPictureIq", "profiles")
reply("ResultPrivacyIq", "GetPrivacyIq", "profiles")
reply("ResultPrivacyIq", "SetPrivacyIq", "profiles")
reply("ResultStatusesIq", "GetStatusesIq", "profiles")
reply("ResultIq", "SetStatusIq", "profiles")
for _n in ("GetPictureIq", "SetPictureIq", "GetPrivacyIq", "SetPrivacyIq", "GetStatusesIq", "SetStatusIq"):
    reply("ErrorIq", _n, "profiles")


# ---- incoming kinds without a shape in vf/ref/shapes.py ---------------------------------------------------
def _g_ib_ignored(v):
    child = ("edge_routing", "attestation", "fbip")[v % 3]
    return N("ib", {"from": "s.whatsapp.net"}, [N(child, {}, None, b"\x01\x02" if v % 2 else None)]), None, ()


def _g_ping_in(v):
    return N("iq", {"type": "get", "xmlns": "urn:xmpp:ping", "id": S.ALPHABETS["id"][v % 6],
                    "from": "s.whatsapp.net", "t": S.ALPHABETS["ts"][v % 3]}, [N("ping")] if v % 2 else None), None, ()


def _g_notification_unknown(v):
    typ = ("features", "web", "server_sync")[v % 3]
    attrs = {"id": S.ALPHABETS["id"][v % 6], "from": S.U[v % 6], "t": S.ALPHABETS["ts"][v % 3], "type": typ}
    if v % 2:
        attrs["participant"] = S.U[(v + 1) % 6]
    return N("notification", attrs, [N(("feature", "action", "sync")[v % 3], {"v": "1"})]), None, ()


def _g_enc(kind, mtype, mediatype):
    def gen(v):
        pt = S.ALPHABETS["pb:" + kind][v % 3]
        attrs = {"id": S.ALPHABETS["id"][v % 6], "from": P.PEER_JID, "t": S.ALPHABETS["ts"][v % 3], "type": mtype,
                 "notify": S.ALPHABETS["text"][v % 6]}
        if v % 2:
            attrs["offline"] = S.ALPHABETS["flag"][(v // 2) % 2]
        enc_attrs = {"type": "pkmsg", "v": "2"}
        proto_attrs = {}
        if mediatype:
            enc_attrs["mediatype"] = mediatype
            proto_attrs["mediatype"] = mediatype
        stanza = N("message", dict(attrs), [N("enc", enc_attrs, None, P.encrypted_for_us(pt))])
        # the stanza the protocol layers must present: same header, payload in the clear
        plain = N("message", dict(attrs), [N("proto", proto_attrs, None, pt)])
        return stanza, plain, [("/message", "offline", "0")]      # offline absent == "0" (documented default)
    return gen


custom("Ib.ignored", _g_ib_ignored, top=False, note="edge_routing / attestation / fbip: ignored by design")
custom("ServerPing", _g_ping_in, top=False, down="pong", note="answered by the iq layer (C07), nothing upward")
custom("Notification.unknown", _g_notification_unknown, top=False, down="notification-ack")
custom("EncryptedText.in", _g_enc("conversation", "text", None), enc=True, cls="TextMessageProtocolEntity",
       note="pkmsg from a peer, decrypted by the receive layer, presented by the messages layer")
custom("EncryptedExtendedText.in", _g_enc("extended_text", "text", None), enc=True,
       cls="ExtendedTextMessageProtocolEntity")
custom("EncryptedImage.in", _g_enc("image", "media", "image"), module="media", enc=True, down="receipt",
       cls="ImageDownloadableMediaMessageProtocolEntity")



# ---- incoming GROUP messages, real ciphertext from the library's own send path of a peer ---------------------
def _g_group(scenario, payload_kind):
    def gen(v):
        attrs = {"id": S.ALPHABETS["id"][v % 6], "t": S.ALPHABETS["ts"][v % 3], "notify": S.ALPHABETS["text"][v % 6]}
        if v % 2:
            attrs["offline"] = S.ALPHABETS["flag"][(v // 2) % 2]
        stanza, plain = P.group_message_for_us(scenario, payload_kind, v, attrs)
        return stanza, plain, [("/message", "offline", "0")]
    return gen


for _sc, _what in (("first-nosession", "first message of a peer we have no session with: pkmsg(sender key) + skmsg"),
                   ("first-session", "first message of a peer with an established session: msg(sender key) + skmsg"),
                   ("later", "sender key already known: skmsg only")):
    custom("EncryptedGroupText.%s.in" % _sc, _g_group(_sc, "text"), enc=True, cls="TextMessageProtocolEntity",
           note=_what)
    custom("EncryptedGroupImage.%s.in" % _sc, _g_group(_sc, "image"), module="media", enc=True, down="receipt",
           cls="ImageDownloadableMediaMessageProtocolEntity", note=_what)
# sender key never distributed to us: nothing to present, the receive layer asks for a re-send exactly once
custom("EncryptedGroupText.unknown-senderkey.in", _g_group("unknown-senderkey", "text"), enc=True, top=False,
       down="retry", down_exactly=1)
custom("EncryptedGroupImage.unknown-senderkey.in", _g_group("unknown-senderkey", "image"), enc=True, top=False,
       down="retry", down_exactly=1)

# shapes deliberately outside the table, with the reason (DESIGN Appendix A)
NOT_KINDS = {
    "UnregisterIq": "never passes its xmlns to the base class, no layer claims it (Appendix A)",
    "PongResultIq": "written by the iq layer itself in answer to a server ping (C07), not an application entity",
    "EncryptedMessage.out": "built by the encryption send layer, not by applications",
    "Proto": "child node built by the encryption receive layer, not a stanza",
    "RetryOutgoingReceipt": "built by the encryption receive layer (C03)",
    "RetryIncomingReceipt": "retry handling of the encryption send layer (C03)",
    "EncryptedMessage.in": "random ciphertext: undecryptable-message handling is C03's subject; real ciphertext is "
                           "covered by the Encrypted*.in kinds",
    "ResultGetKeysIq": "reply to the library-internal key fetch (C03 / C08)",
}


def is_enc_envelope(node, want_id, want_to):
    """one <message> for this entity whose payload children are all <enc> (directly, or per recipient inside
    <participants><to jid>), and no plaintext <proto> anywhere"""
    if not isinstance(node, ProtocolTreeNode) or node.tag != "message":
        return False
    if node["id"] != want_id or node["to"] != want_to:
        return False
    kids = node.getAllChildren()
    if not kids:
        return False
    n_enc = 0
    for c in kids:
        if c.tag == "enc":
            n_enc += 1
        elif c.tag == "participants":
            for to in c.getAllChildren():
                if to.tag != "to" or not to.getAllChildren() or any(e.tag != "enc" for e in to.getAllChildren()):
                    return False
                n_enc += len(to.getAllChildren())
        else:
            return False
    return n_enc >= 1


# ---- library-internal requests of the encryption send layer (Appendix A: the reply it consumes is still
# forwarded upward by the receive layer as an unknown-id iq and must be ignored by every protocol layer) --------
def _s_internal_reply(recipient, request_xmlns, make_reply):
    def scenario(st, cfg, v):
        from yowsup.layers.protocol_messages.protocolentities import TextMessageProtocolEntity
        findings = []
        entity = TextMessageProtocolEntity(("body_data", "Gr\u00fc\u00dfe", "x")[v % 3], to=recipient)
        want = entity.toProtocolTreeNode()
        exc = st.send(entity)
        sent, got = st.take()
        shown = {"config": cfg.key, "entity": S.render(want), "step1_bottom": [_render(n) for n in sent],
                 "step1_top": [_render(g) for g in got]}
        if exc is not None:
            return [("raises:%s" % type(exc).__name__, dict(shown, raised=P.brief(exc), at=P.where(exc)))], False
        reqs = [n for n in sent if isinstance(n, ProtocolTreeNode) and n.tag == "iq" and n["xmlns"] == request_xmlns]
        if len(sent) != 1 or len(reqs) != 1 or got:
            return [("internal-request-not-single", shown)], False
        reply = make_reply(reqs[0]["id"])
        exc = st.inject(reply)
        sent, got = st.take()
        shown.update({"reply": S.render(reply)[:500], "bottom": [_render(n) for n in sent], "top": [_render(g) for g in got]})
        if exc is not None:
            return [("raises:%s" % type(exc).__name__, dict(shown, raised=P.brief(exc), at=P.where(exc)))], False
        if got:
            findings.append(("reply-delivered-upward", shown))
        msgs = [n for n in sent if isinstance(n, ProtocolTreeNode) and n.tag == "message"]
        if not msgs:
            findings.append(("not-sent", shown))
        elif len(msgs) > 1:
            findings.append(("duplicated", dict(shown, count=len(msgs))))
        elif not is_enc_envelope(msgs[0], want["id"], want["to"]):
            findings.append(("not-an-enc-envelope", shown))
        if len(sent) != len(msgs):
            findings.append(("extra-stanza-down", shown))
        return findings, not findings
    return scenario


def _s_receipt_for_sent(st, cfg, v):
    """a delivery / read receipt for a message sent just before (with the encryption layers the send layer holds
    that message in its queue and decides whether the receipt goes upward) -> one IncomingReceipt at the top"""
    from yowsup.layers.protocol_messages.protocolentities import TextMessageProtocolEntity
    to = (S.U[0], S.U[1], S.G[0])[v % 3]
    entity = TextMessageProtocolEntity(("body_data", "Gr\u00fc\u00dfe", "x")[v % 3], to=to)
    exc = st.send(entity)
    sent, got = st.take()
    shown = {"config": cfg.key, "step1_bottom": [_render(n) for n in sent]}
    if exc is not None or len(sent) != 1 or got:
        return [], False                         # reported by TextMessage.out
    attrs = {"id": entity.getId(), "from": to, "t": S.ALPHABETS["ts"][v % 3]}
    if v % 2:
        attrs["type"] = "read"
    if "-" in to:
        attrs["participant"] = S.U[2]
    receipt = N("receipt", attrs)
    exc = st.inject(receipt)
    sent, got = st.take()
    shown.update({"stanza": S.render(receipt), "bottom": [_render(n) for n in sent], "top": [_render(g) for g in got]})
    if exc is not None:
        return [("raises:%s" % type(exc).__name__, dict(shown, raised=P.brief(exc), at=P.where(exc)))], False
    findings = []
    if sent:
        findings.append(("extra-stanza-down", shown))
    if not got:
        findings.append(("not-delivered", shown))
    elif len(got) > 1:
        findings.append(("duplicated", dict(shown, count=len(got))))
    elif type(got[0]).__name__ != "IncomingReceiptProtocolEntity":
        findings.append(("wrong-entity", shown))
    else:
        diffs = P.incoming_diffs(receipt, got[0].toProtocolTreeNode())
        if diffs:
            findings.append(("fields-differ", dict(shown, differences=[repr(d)[:200] for d in diffs[:6]])))
    return findings, not findings


def scenario_kind(name, fn, note=None, enc=True):
    k = Kind(name, "out" if enc else "in", None, None, enc=enc, message=True, note=note)
    k.scenario = fn
    KINDS.append(k)


scenario_kind("TextMessage.out+KeyFetch",
              _s_internal_reply(P.FRESH_USER, "encrypt", lambda i: P.key_result_node(i, [P.FRESH_USER])),
              note="recipient without session: key fetch by the send layer, reply, then one enc envelope")
scenario_kind("TextMessage.out+GroupInfo",
              _s_internal_reply(P.FRESH_GROUP, "w:g2",
                                lambda i: P.group_info_result_node(i, P.FRESH_GROUP, [S.U[0], S.U[1], P.ME_JID])),
              note="group without sender key: group info request by the send layer, reply, then one enc envelope")
scenario_kind("IncomingReceipt+SentMessage", lambda st, cfg, v: _s_receipt_for_sent(st, cfg, v), enc=False,
              note="receipt for a message sent before (queued in the encryption send layer when present)")

# Judgement call: the statement asks for one entity carrying the stanza's fields, not for a class.  The handlers
# call ResultIqProtocolEntity.fromProtocolTreeNode, which is inherited and yields the base class; it carries
# every field of the documented <iq type="result" id from/> stanza, so it is accepted.
CLASS_ALSO = {"ResultIqProtocolEntity": ("IqProtocolEntity",)}

KIND = dict((k.name, k) for k in KINDS)
assert len(KIND) == len(KINDS), "duplicate kind name"
for _k in KINDS:
    if not hasattr(_k, "scenario"):
        _k.scenario = None


def down_allowed(kind, cfg, node, stanza=None):
    """is this stanza one of the mandatory answers the table allows for the kind (their count is C07's)"""
    d = kind.down
    if not isinstance(node, ProtocolTreeNode):
        return False
    if d == "retry":
        return cfg.enc and node.tag == "receipt" and node["type"] == "retry" and stanza is not None \
            and node["id"] == stanza["id"] and node["to"] == stanza["from"] \
            and node["participant"] == stanza["participant"]
    if d == "notification-ack":
        return node.tag == "ack" and node["class"] == "notification"
    if d == "call":
        return node.tag == "receipt" or (node.tag == "ack" and node["class"] == "call")
    if d == "receipt":
        return node.tag == "receipt"
    if d == "pong":
        return node.tag == "iq" and node["type"] == "result"
    if d == "encrypt":
        if node.tag == "ack" and node["class"] == "notification":
            return True
        return cfg.enc and node.tag == "iq" and node["xmlns"] == "encrypt"
    return False


# ==================================================================================================
# cases
# ==================================================================================================
def case_list(kind, thorough):
    """[(mask, vector)] for a kind, simplest first"""
    if kind.gen is not None or kind.scenario is not None:
        return [(0, v) for v in range(6 if thorough else 3)]
    cases = []
    seen = set()
    for c in S.gen_cases(kind.shape, presence_subsets=thorough, vectors=6 if thorough else 3):
        if (c.mask, c.vector) not in seen:
            seen.add((c.mask, c.vector))
            cases.append((c.mask, c.vector))
    return cases


def _request_case(kind, mask, vector):
    """the request sent before an iq reply: all optional parts iff the reply has any, same vector"""
    probe = S.build_case(kind.request, 0, 0)
    full = (1 << probe.nparts) - 1
    return S.build_case(kind.request, full if mask else 0, vector)


def _render(x):
    if isinstance(x, ProtocolTreeNode):
        return S.render(x)[:600]
    if isinstance(x, ProtocolEntity):
        try:
            return "%s %s" % (type(x).__name__, S.render(x.toProtocolTreeNode())[:500])
        except Exception as e:
            return "%s (toProtocolTreeNode raises %s)" % (type(x).__name__, P.brief(e))
    return repr(x)[:200]


def run_case(kind, cfg, mask, vector):
    """-> (findings [(what, detail)], nontrivial key | None, observation vector)"""
    findings = []
    supported = kind.supported(cfg)
    if kind.scenario is not None:
        if not supported:
            return [], None, ("scenario-skipped",)          # without the encryption layers: plain TextMessage.out
        with P.ProtoStack(cfg) as st:
            findings, ok = kind.scenario(st, cfg, vector)
        return findings, (("scenario", kind.name, vector) if ok else None), ("scenario", ok, len(findings))
    with P.ProtoStack(cfg) as st:
        stanza = expected = entity = None
        defaults = ()
        # ---- build the input after the id reset of ProtoStack ---------------------------------------------
        if kind.direction == "out":
            case = S.build_case(kind.shape, mask, vector)
            if case.error is not None or case.entity is None:
                return [], None, ("ctor-error",)           # constructor failures are C09's subject
            entity = case.entity
        elif kind.gen is not None:
            stanza, expected, defaults = kind.gen(vector)
        else:
            case = S.build_case(kind.shape, mask, vector)
            stanza, defaults = case.node, case.defaults
        if kind.request is not None:
            req = _request_case(kind, mask, vector)
            if req.entity is None:
                return [], None, ("ctor-error",)
            exc = st.send(req.entity)
            sent, got = st.take()
            if exc is not None:
                return [], None, ("request-raises",)       # reported by the outgoing kind of the request
            if supported and len(sent) != 1:
                return [], None, ("request-not-sent",)     # reported by the outgoing kind of the request
            if not supported and (sent or got):
                return [], None, ("request-leaks",)        # reported by the outgoing kind of the request
            stanza.attributes["id"] = req.entity.getId()
        before = S.canon(stanza) if stanza is not None else None

        # ---- stimulate ------------------------------------------------------------------------------------
        exc = st.send(entity) if kind.direction == "out" else st.inject(stanza)
        sent, got = st.take()
        obs = (kind.direction, supported, len(sent), len(got), tuple(sorted(type(g).__name__ for g in got)),
               type(exc).__name__ if exc is not None else None)
        shown = {"config": cfg.key, "bottom": [_render(n) for n in sent], "top": [_render(g) for g in got]}
        if stanza is not None:
            shown["stanza"] = S.render(stanza)[:600]
        if exc is not None:
            findings.append(("raises:%s" % type(exc).__name__, dict(shown, raised=P.brief(exc), at=P.where(exc))))
            return findings, None, obs
        nontrivial = None

        # ---- outgoing -------------------------------------------------------------------------------------
        if kind.direction == "out":
            try:
                want = entity.toProtocolTreeNode()
            except Exception as e:
                return [("raises:%s" % type(e).__name__, dict(shown, raised=P.brief(e), at=P.where(e)))], None, obs
            shown["entity"] = S.render(want)[:600]
            if got:
                findings.append(("delivered-upward", shown))
            if not supported:
                if sent:
                    findings.append(("absent-module-sends", shown))
                return findings, None, obs
            if not sent:
                findings.append(("not-sent", shown))
            elif len(sent) > 1:
                findings.append(("duplicated", dict(shown, count=len(sent))))
            else:
                node = sent[0]
                if not isinstance(node, ProtocolTreeNode):
                    findings.append(("not-a-stanza", shown))
                elif kind.message and cfg.enc:
                    if not is_enc_envelope(node, want["id"], want["to"]):
                        findings.append(("not-an-enc-envelope", shown))
                    nontrivial = ("out", kind.name, mask, vector, "enc")
                else:
                    diffs = P.outgoing_diffs(want, node)
                    if diffs:
                        findings.append(("wrong-stanza", dict(shown, differences=[repr(d)[:200] for d in diffs[:6]])))
                    nontrivial = ("out", kind.name, mask, vector, "plain")
            return findings, nontrivial, obs

        # ---- incoming -------------------------------------------------------------------------------------
        if S.canon(stanza) != before:
            findings.append(("stanza-mutated", dict(shown, after=S.render(stanza)[:600])))
        extra = [n for n in sent if not down_allowed(kind, cfg, n, stanza)]
        if extra:
            findings.append(("extra-stanza-down", dict(shown, extra=[_render(n) for n in extra])))
        if supported and kind.down_exactly is not None and len(sent) - len(extra) != kind.down_exactly:
            findings.append(("%s-count" % kind.down, dict(shown, expected=kind.down_exactly,
                                                          observed=len(sent) - len(extra))))
        if not supported or not kind.top:
            if got:
                findings.append(("absent-module-delivers" if kind.top else "delivered-upward", shown))
            if kind.top is False and supported and not findings:
                nontrivial = ("in", kind.name, mask, vector, "consumed")
            return findings, nontrivial, obs
        if not got:
            findings.append(("not-delivered", shown))
        elif len(got) > 1:
            findings.append(("duplicated", dict(shown, count=len(got))))
        else:
            ent = got[0]
            if type(ent).__name__ not in (kind.cls,) + CLASS_ALSO.get(kind.cls, ()):
                findings.append(("wrong-entity", dict(shown, expected_class=kind.cls)))
            else:
                try:
                    back = ent.toProtocolTreeNode()
                except Exception as e:
                    findings.append(("reserialise-raises:%s" % type(e).__name__,
                                     dict(shown, raised=P.brief(e), at=P.where(e))))
                    return findings, None, obs
                diffs = P.incoming_diffs(expected if expected is not None else stanza, back, defaults)
                if diffs:
                    findings.append(("fields-differ", dict(shown, differences=[repr(d)[:200] for d in diffs[:6]])))
                nontrivial = ("in", kind.name, mask, vector, "enc" if kind.enc else "plain")
        return findings, nontrivial, obs


def run_item(item):
    """one worker item: a configuration x a slice of the kind table"""
    cfgkey, names, thorough = item
    cfg = P.Config.from_key(cfgkey)
    P.prepare() if cfg.enc else P.patch_clocks()
    raw = []
    evals = 0
    nontrivial = set()
    outcomes = set()
    for name in names:
        kind = KIND[name]
        for idx, (mask, vector) in enumerate(case_list(kind, thorough)):
            findings, nt, obs = run_case(kind, cfg, mask, vector)
            evals += 1
            outcomes.add(obs)
            if nt is not None:
                nontrivial.add(cfgkey + "/" + hashlib.sha1(repr(nt).encode()).hexdigest()[:12])
            for what, detail in findings:
                raw.append((name, what, cfgkey, idx, mask, vector, kind.supported(cfg), detail))
    return raw, evals, nontrivial, outcomes


def aggregate(raw, prefix="C06"):
    """raw findings -> violation tuples with config-class signatures; first case = simplest config, first case"""
    groups = {}
    for name, what, cfgkey, idx, mask, vector, supported, detail in raw:
        groups.setdefault((name, what, supported), []).append((P.CONFIG_KEYS.index(cfgkey), idx, cfgkey, mask, vector, detail))
    out = []
    order = [k.name for k in KINDS]
    for (name, what, supported) in sorted(groups, key=lambda g: (order.index(g[0]), g[1], not g[2])):
        items = sorted(groups[(name, what, supported)], key=lambda x: x[:2])
        kind = KIND[name]
        applicable = [c.key for c in P.CONFIGS if kind.supported(c) == supported]
        cls = P.config_class(set(i[2] for i in items), applicable)
        sig = "%s:%s:%s" % (prefix, name, what) + (":" + cls if cls else "")
        _, idx, cfgkey, mask, vector, detail = items[0]
        nconf = len(set(i[2] for i in items))
        line = "%s (%s, owner %s%s): %s in %d of the %d configurations where the owner is %s (first: %s)" % (
            name, "scenario" if kind.scenario else "outgoing entity" if kind.direction == "out" else "incoming stanza",
            kind.module or ("encryption layers" if kind.enc else "basic layers"),
            " + encryption layers" if kind.enc and kind.module else "", what, nconf, len(applicable),
            "selected" if supported else "left out", cfgkey)
        case = {"kind": name, "config": cfgkey, "mask": mask, "vector": vector}
        out.append((sig, line, case, dict(detail, failing_configs=sorted(set(i[2] for i in items)),
                                          failing_cases=len(items))))
    return out


def self_test():
    """the table must account for every shape of vf/ref/shapes.py (kind or stated reason)"""
    used = set(k.shape for k in KINDS if k.shape) | set(k.request for k in KINDS if k.request)
    missing = sorted(set(S.SHAPES) - used - set(NOT_KINDS))
    return missing


# ==================================================================================================
# order independence: what happens to a stanza does not depend on which stanza went through the same stack before it
# (without the encryption layers nothing in the protocol layers is meant to carry over from one stanza to the next,
# except the registry entry of a request, and requests are not part of this alphabet)
# ==================================================================================================
def _pair_input(kind, mask, vector):
    if kind.scenario is not None or kind.request is not None:
        return None
    if kind.direction == "out":
        case = S.build_case(kind.shape, mask, vector)
        if case.error is not None or case.entity is None:
            return None
        return case.entity
    if kind.gen is not None:
        return kind.gen(vector)[0]
    return S.build_case(kind.shape, mask, vector).node


def _pair_input_correlated(ka, a, kb, vector):
    if ka.direction != "in" or kb.direction != "in" or kb.gen is not None or not kb.shape:
        return None
    if not isinstance(a, ProtocolTreeNode):
        return None
    c0 = S.build_case(kb.shape, 0, vector)
    full = (1 << len(c0.parts)) - 1
    b = S.build_case(kb.shape, full, vector).node
    if not isinstance(b, ProtocolTreeNode):
        return None
    shared = 0
    for attr in ("id", "from", "participant"):
        if a[attr] is not None and b[attr] is not None:
            b.attributes[attr] = a[attr]
            shared += 1
        elif attr == "participant" and a[attr] is None and b[attr] is not None and shared:
            del b.attributes[attr]      # same parties: the first stanza named no participant (an optional part)
    return b if shared else None


def _pair_observe(st, kind, inp):
    exc = st.send(inp) if kind.direction == "out" else st.inject(inp)
    sent, got = st.take()

    def cn(x):
        if isinstance(x, ProtocolTreeNode):
            return S.canon(x)
        try:
            return (type(x).__name__, S.canon(x.toProtocolTreeNode()))
        except Exception as e:
            return (type(x).__name__, "unserialisable:" + type(e).__name__)
    return (type(exc).__name__ if exc is not None else None, tuple(cn(n) for n in sent), tuple(cn(g) for g in got))


def run_pairs(item):
    cfgkey, name_a, names_b = item
    cfg = P.Config.from_key(cfgkey)
    P.patch_clocks()
    ka = KIND[name_a]
    raw = []
    n = 0
    for name_b in names_b:
        kb = KIND[name_b]
        for (va, vb, correlated) in ((0, 0, False), (1, 2, False), (0, 1, True)):
            import copy
            with P.ProtoStack(cfg) as st:
                a, b = _pair_input(ka, 0, va), _pair_input(kb, 0, vb)
                if a is None or b is None:
                    break
                if correlated:
                    # the second stanza carries every optional part and names the same message and parties as the
                    # first one (a read receipt after the delivery receipt of one message, a stanza delivered again
                    # with offline=...): still nothing of the first may decide what happens to the second
                    b = _pair_input_correlated(ka, a, kb, vb)
                    if b is None:
                        continue
                try:
                    b2 = copy.deepcopy(b)      # the very same input (some constructors draw random defaults)
                except Exception:
                    break
                _pair_observe(st, ka, a)
                after = _pair_observe(st, kb, b)
            with P.ProtoStack(cfg) as st:
                fresh = _pair_observe(st, kb, b2)
            n += 1
            if after != fresh:
                raw.append(("C06:%s:depends-on-earlier-stanza" % name_b,
                            "%s is handled differently after %s went through the same stack than on a fresh stack (configuration %s)"
                            % (name_b, name_a, cfgkey),
                            {"pair": [name_a, name_b], "config": cfgkey},
                            {"after_earlier": repr(after)[:500], "on_fresh_stack": repr(fresh)[:500]}))
                break
    return raw, n


def run(ctx):
    thorough = not ctx.quick
    P.prepare()                      # template store provisioned once; forked workers inherit it
    for m in self_test():
        ctx.violation("C06:harness:shape-unaccounted:%s" % m,
                      "shape %s is neither a kind of the routing table nor excluded with a reason" % m)
    # the layer sets themselves: every configuration assembled repeatedly in one process must consist of the 11
    # basic layers plus exactly the selected modules' layers ("nothing is duplicated", "a module that was left out")
    bad, builds = P.assembly_preflight(passes=2)
    if bad:
        for what, cfgkey, n, detail in bad:
            ctx.violation("C06:assembly:%s" % what,
                          "protocol layer set of configuration %s (assembly no. %d in the process) differs from the "
                          "model: %s %s" % (cfgkey, n, what, detail["problem"]), {"assembly": True}, detail)
        ctx.note("layer sets are wrong: the kind table was not explored (every routing result would be derived noise)")
        ctx.coverage.update({"evaluations": builds, "distinct_nontrivial": builds, "exhaustive": False,
                             "rule": "stack assemblies compared with the model of the layer set (exploration aborted)",
                             "distinct_outcomes": 2})
        return
    names = [k.name for k in KINDS]
    nchunks = 4
    items = []
    for cfg in P.CONFIGS:
        for i in range(nchunks):
            items.append((cfg.key, names[i::nchunks], thorough))
    items = shuffled(items, ctx.seed, "c06")
    raw, evals, nontrivial, outcomes = [], 0, set(), set()
    for r, e, nt, oc in ctx.pmap(run_item, items):
        raw.extend(r)
        evals += e
        nontrivial |= nt
        outcomes |= oc
    ctx.add_violations(aggregate(raw))

    # ordered pairs on one stack, without the encryption layers: every kind after every kind (thorough) / after one
    # representative kind per owner and direction (quick)
    plain = [k for k in KINDS if k.scenario is None and k.request is None]
    if thorough:
        firsts = [k.name for k in plain]
    else:
        seen, firsts = set(), []
        for k in plain:
            key = (k.direction, k.module, getattr(k, "down", None))
            if key not in seen:
                seen.add(key)
                firsts.append(k.name)
    pair_cfgs = [c.key for c in P.CONFIGS if not c.enc and all(getattr(c, m) for m in P.MODULES)]
    pitems = [(ck, a, [k.name for k in plain]) for ck in pair_cfgs for a in firsts]
    # every kind after a stanza of its own kind (quick tier too): the correlated variant of run_pairs then is "the
    # same message and parties again" - a second receipt for one message, a stanza the server delivers again
    pitems += [(ck, k.name, [k.name]) for ck in pair_cfgs for k in plain if k.name not in firsts]
    praw, npairs = [], 0
    for r, n in ctx.pmap(run_pairs, shuffled(pitems, ctx.seed, "c06-pairs")):
        praw.extend(r)
        npairs += n
    ctx.add_violations(sorted(praw, key=lambda v: v[0]))
    evals += npairs
    ctx.coverage["ordered_pairs_on_one_stack"] = npairs

    per_dir = {"out": sum(1 for k in KINDS if k.direction == "out"), "in": sum(1 for k in KINDS if k.direction == "in")}
    ctx.sample({"kind": "TextMessage.out", "configs": P.CONFIG_KEYS[:3] + ["..."] + P.CONFIG_KEYS[-1:],
                "cases(mask,vector)": case_list(KIND["TextMessage.out"], thorough)[:6]})
    ctx.sample({"kind": "SuccessCreateGroupsIq<-CreateGroupsIq", "owner": "groups",
                "stanza": S.render(S.build_case("SuccessCreateGroupsIq", 0, 0).node)})
    ctx.sample({"kind": "EncryptedText.in", "owner": "encryption layers",
                "presented_as": S.render(KIND["EncryptedText.in"].gen(0)[1])})
    ctx.coverage.update({
        "evaluations": evals,
        "distinct_nontrivial": len(nontrivial),
        "rule": "distinct (configuration, kind, field vector) executions in which the owning module was selected and "
                "the positive oracle was reached: exactly one stanza at the bottom compared with the entity's "
                "serialisation (or recognised as one enc envelope), exactly one entity at the top re-serialised and "
                "compared with the stanza, or a library-consumed kind leaving only its allowed answers",
        "exhaustive": True,
        "bound": "kind table (%d kinds: %d outgoing, %d incoming incl. %d iq replies with their request) x 32 "
                 "configurations x %s" % (len(KINDS), per_dir["out"], per_dir["in"],
                                          sum(1 for k in KINDS if k.request),
                                          "all subsets of the optional parts x 6 vectors" if thorough else
                                          "{no optional part, all optional parts} x >= 3 vectors"),
        "kinds": len(KINDS),
        "kinds_outgoing": per_dir["out"],
        "kinds_incoming": per_dir["in"],
        "configurations": len(P.CONFIGS),
        "distinct_outcomes": len(outcomes),
        "shapes_excluded": NOT_KINDS,
    })
    ctx.assume("the kind table (owner module, entity class, request of a reply, allowed mandatory answers) is the "
               "hand-written reference model of DESIGN Appendix A")
    ctx.assume("mandatory answers written downward while an incoming stanza is handled (notification ack, call "
               "receipt / ack, receipt for an unpresentable message, pong, key upload / key fetch after an encrypt "
               "notification) are only recognised here; their number and fields are checked by C07")
    ctx.assume("with the encryption layers an outgoing message is only counted: one <message> with the entity's id "
               "and recipient whose children are all <enc>; the template key store has a session / sender key for "
               "every recipient of the value alphabets")
    ctx.assume("stanza comparison conventions of C09 (numeric attributes by value, children per tag, documented "
               "defaults, <proto> up to protobuf defaults)")


def replay(ctx, case):
    """re-run the recorded (kind, optional parts, vector) in all 32 configurations, so that the configuration
    class of the signature is recomputed the same way as in run()"""
    if case.get("pair"):
        return run_pairs((case["config"], case["pair"][0], [case["pair"][1]]))[0]
    if case.get("assembly"):
        bad, _ = P.assembly_preflight(passes=2)
        return [("C06:assembly:%s" % what, "layer set of %s (assembly no. %d) differs from the model" % (k, n), case, d)
                for what, k, n, d in bad]
    kind = KIND[case["kind"]]
    raw = []
    for cfg in P.CONFIGS:
        findings, _, _ = run_case(kind, cfg, case["mask"], case["vector"])
        for what, detail in findings:
            raw.append((kind.name, what, cfg.key, 0, case["mask"], case["vector"], kind.supported(cfg), detail))
    return aggregate(raw)
