"""C19 Account configuration survives serialisation and is saved atomically.

Part 1 (round trip, exhaustive): every subset of the 16 Config fields x 3 value vectors per
format x {JSON, key=value} x load path {path with extension, path without extension (type
guessed by trial parse), profile name never used before, profile name (overwriting a config
of the other format), YowProfile, file written by an independent reference writer}.  The
oracle is the identity: the loaded Config must equal the saved one field by field (type and
value, key material compared as raw bytes), observed by our own field extraction, never by
the library's __eq__.  In addition the text the library writes is parsed by an independent
reader and must be the documented mapping (field name -> text / base64, __version__).
Value sweeps: every code point of a range as a text value, every byte value and every length
0..70 for the binary fields.

Part 2 (crash atomicity, E4): for (old, new) configuration pairs the real
ConfigManager.save / YowProfile.write_config / YowNoiseLayer._on_protocol_state_changed
runs over the instrumented file layer (vf.explore.crashfile); EVERY crash point (after
open-truncate, after every written prefix, after close, before/after every rename, mkdir,
remove, fsync) is materialised and loaded with the real ConfigManager.load: it must yield
the old or the new configuration; afterwards a fresh save on the crashed directory must
succeed and load as the new configuration (a stale temp file must not be in the way).

Part 3 (locale axis): a few dozen configurations with non-ASCII / control / lone-surrogate text values are
saved and loaded in {this process, a child interpreter with an ASCII locale encoding} in all four
combinations; every combination must load an equal configuration (the file must not depend on the locale
of the process that wrote it).

The user config dir is redirected by rebinding `yowsup.common.tools.user_config_dir`; the
real home directory is never touched (the redirect raises when no scratch root is set).
"""
import os
import json
import base64
import shutil
import tempfile
import itertools

from vf import env
env.bootstrap()

import yowsup.common.tools as T
import yowsup.config.manager as M
import yowsup.profile.profile as P
from yowsup.config.manager import ConfigManager
from yowsup.config.v1.config import Config
from yowsup.profile.profile import YowProfile
from consonance.structs.keypair import KeyPair
from consonance.structs.publickey import PublicKey
from consonance.structs.privatekey import PrivateKey

from vf.explore import crashfile

PROPERTY = "C19"
LEVEL = "fault_enumeration"

JSON, KEYVAL = "json", "keyval"
TYPE = {JSON: ConfigManager.TYPE_JSON, KEYVAL: ConfigManager.TYPE_KEYVAL}
EXT = {JSON: "json", KEYVAL: "yo"}
OTHER = {JSON: KEYVAL, KEYVAL: JSON}

FIELDS = ["phone", "cc", "login", "password", "pushname", "id", "mcc", "mnc", "sim_mcc", "sim_mnc",
          "client_static_keypair", "server_static_public", "expid", "fdid", "edge_routing_info",
          "chat_dns_domain"]
NF = len(FIELDS)
BINARY = ("id", "expid", "edge_routing_info")      # plain bytes, base64 in the file
FULL = (1 << NF) - 1

# --------------------------------------------------------------------------- redirect of the config dir
_ROOT = [None]


def _fake_user_config_dir(appname=None, *a, **k):
    if _ROOT[0] is None:
        raise RuntimeError("C19 harness: config dir used without a scratch root")
    return os.path.join(_ROOT[0], appname) if appname else _ROOT[0]


T.user_config_dir = _fake_user_config_dir


def set_root(root):
    _ROOT[0] = root


def profile_dir(profile):
    return os.path.join(_ROOT[0], "yowsup", profile)


# --------------------------------------------------------------------------- value vectors
def _b(seed, n):
    return bytes(((seed * 131 + i * 29 + (i * i) % 7) & 0xFF) for i in range(n))


_COMMON_BIN = [
    {"id": _b(1, 20), "expid": _b(2, 16), "edge_routing_info": b"\x08\x02\x08\x05",
     "client_static_keypair": bytes(range(64)), "server_static_public": _b(3, 32)},
    {"id": b"\xfb\xff\xfe" * 6 + b"\xff\xff", "expid": b"\xff" * 16, "edge_routing_info": _b(9, 47),
     "client_static_keypair": b"\xff" * 31 + b"\x7f" + b"\x00" * 31 + b"\x01", "server_static_public": b"\xfb\xef\xbe" * 10 + b"\x3e\x3f"},
    {"id": b"", "expid": b"\x00", "edge_routing_info": b"",
     "client_static_keypair": b"\x00" * 64, "server_static_public": b"\x00" * 32},
]

VECTORS = {
    JSON: [
        dict(_COMMON_BIN[0], phone="491234567890", cc="49", login="491234567890", password="secret", pushname="Alice",
             mcc="262", mnc="02", sim_mcc="000", sim_mnc="000", fdid="8c3b1f8e-51a8-4d5e-9d6a-0f2f6b1c2d3e",
             chat_dns_domain="fb"),
        dict(_COMMON_BIN[1], phone="+49 (0)123", cc="049", login="4912345@s.whatsapp.net", password="pä\x01ss ",
             pushname="Zoë \x00\x1f\x7f \"q\" \\ \n\t\r  ‮ \U0001F680 #;= ", mcc="001", mnc="1",
             sim_mcc="٢٦٢", sim_mnc=" 02 ", fdid="ǅ-\x7f-fdid\n", chat_dns_domain="g.whatsapp.net\x00"),
        dict(_COMMON_BIN[2], phone="0", cc="", login="0", password="", pushname="", mcc="000", mnc="00", sim_mcc="",
             sim_mnc="0", fdid="null", chat_dns_domain=" #; = "),
    ],
    KEYVAL: [
        dict(_COMMON_BIN[0], phone="491234567890", cc="49", login="491234567890", password="secret", pushname="Alice",
             mcc="262", mnc="02", sim_mcc="000", sim_mnc="000", fdid="8c3b1f8e-51a8-4d5e-9d6a-0f2f6b1c2d3e",
             chat_dns_domain="fb"),
        dict(_COMMON_BIN[1], phone="+49(0)123", cc="049", login="4912345@s.whatsapp.net", password="p=w'd",
             pushname="Zoë = \"Q\" \\ \U0001F680 a-b", mcc="001", mnc="1", sim_mcc="٢٦٢", sim_mnc="0-2",
             fdid="A=B==", chat_dns_domain="g.whatsapp.net"),
        dict(_COMMON_BIN[2], phone="0", cc="", login="0", password="", pushname="", mcc="000", mnc="00", sim_mcc="",
             sim_mnc="0", fdid="null", chat_dns_domain="x=y"),
    ],
}
NV = 3


def values_for(mask, vi, fmt, variant=0, override=None):
    """field name -> raw python value (str, bytes; keys as raw bytes) for the chosen subset."""
    vec = VECTORS[fmt][vi]
    out = {}
    for i, name in enumerate(FIELDS):
        if mask >> i & 1:
            out[name] = vec[name]
    if variant:
        # a different account state: other server key, other routing info, other push name
        if "server_static_public" in out:
            out["server_static_public"] = _b(40 + variant, 32)
        if "edge_routing_info" in out:
            out["edge_routing_info"] = _b(50 + variant, 9)
        if "pushname" in out:
            out["pushname"] = "Bob%d" % variant
        if "client_static_keypair" in out and variant >= 2:
            out["client_static_keypair"] = _b(60 + variant, 64)
    if override:
        out.update(override)
    return out


def make_config(vals):
    kw = dict(vals)
    if "client_static_keypair" in kw:
        raw = kw["client_static_keypair"]
        kw["client_static_keypair"] = KeyPair(PublicKey(raw[32:]), PrivateKey(raw[:32]))
    if "server_static_public" in kw:
        kw["server_static_public"] = PublicKey(kw["server_static_public"])
    return Config(**kw)


def want_obs(vals):
    out = {"version": ("int", 1)}
    for name in FIELDS:
        if name not in vals:
            out[name] = ("None",)
        elif name == "client_static_keypair":
            out[name] = ("KeyPair", vals[name][:32], vals[name][32:])
        elif name == "server_static_public":
            out[name] = ("PublicKey", vals[name])
        else:
            out[name] = (type(vals[name]).__name__, vals[name])
    return out


def observe(config):
    """Our own field extraction (no library __eq__)."""
    out = {}
    for name in ["version"] + FIELDS:
        v = getattr(config, "_" + name, ("<attribute missing>",))
        if v is None:
            out[name] = ("None",)
        elif isinstance(v, KeyPair):
            pr = v.private.data if isinstance(v.private, PrivateKey) else v.private
            pu = v.public.data if isinstance(v.public, PublicKey) else v.public
            out[name] = ("KeyPair", pr, pu)
        elif isinstance(v, PublicKey):
            out[name] = ("PublicKey", v.data)
        else:
            out[name] = (type(v).__name__, v)
    return out


def diff(want, config):
    """-> None when equal, else (field, kind, want, got) of the first differing field."""
    if not isinstance(config, Config):
        return ("<object>", "not-a-Config", "Config", type(config).__name__)
    got = observe(config)
    for name in ["version"] + FIELDS:
        w, g = want[name], got[name]
        if w == g and all(type(a) is type(b) for a, b in zip(w, g)):
            continue
        if g == ("None",):
            kind = "lost"
        elif w == ("None",):
            kind = "invented"
        elif w[0] != g[0]:
            kind = "type"
        else:
            kind = "value"
        return (name, kind, w, g)
    return None


# --------------------------------------------------------------------------- reference format (independent)
def ref_dict(vals, fmt):
    d = {"__version__": 1}
    for name, v in vals.items():
        d[name] = base64.b64encode(v).decode("ascii") if isinstance(v, bytes) else v
    if fmt == KEYVAL:
        d = {k: str(v) for k, v in d.items()}
    return d


def ref_write(vals, fmt):
    d = ref_dict(vals, fmt)
    if fmt == JSON:
        return json.dumps(d, indent=4, sort_keys=True)
    return "\n".join("%s=%s" % (k, d[k]) for k in sorted(d))


def ref_read(text, fmt):
    if fmt == JSON:
        return json.loads(text)
    out = {}
    for line in text.split("\n"):
        k, v = line.split("=", 1)
        out[k] = v
    return out


# --------------------------------------------------------------------------- part 1: one round-trip case
def exc_name(e):
    return type(e).__name__


def emsg(e, n=120):
    """Exception text without the random scratch directory name (keeps the one-line description stable)."""
    t = str(e)
    if _ROOT[0]:
        t = t.replace(os.path.dirname(_ROOT[0]), "<scratch>")
    return t[:n]


class Tally(object):
    def __init__(self):
        self.vs = {}
        self.loads = 0
        self.nontrivial = 0
        self.outcomes = set()
        self.paths = {}

    def v(self, sig, what, case, detail=None):
        if sig not in self.vs:
            self.vs[sig] = (sig, what, case, detail)

    def result(self):
        return (list(self.vs.values()), self.loads, self.nontrivial, sorted(self.outcomes), self.paths)


def load_compare(tally, mgr, fmt, pathlabel, target, want, case, nontrivial, loader=None):
    """Run the real loader on target, compare field-wise.  -> True when equal."""
    # one signature per load site: the profile variants (never used / first ever / existing) differ in how the
    # file got there, not in how it is loaded; the variant stays in the description and in the case
    sigpath = "profile" if pathlabel.startswith("profile") else pathlabel
    tally.loads += 1
    tally.paths[pathlabel] = tally.paths.get(pathlabel, 0) + 1
    if nontrivial:
        tally.nontrivial += 1
    try:
        cfg = loader() if loader else mgr.load(target)
    except Exception as e:
        tally.outcomes.add((fmt, pathlabel, "raises:" + exc_name(e)))
        tally.v("C19:raises:load:%s:%s:%s" % (fmt, sigpath, exc_name(e)),
                "loading a %s config via %s raised %s: %s" % (fmt, pathlabel, exc_name(e), emsg(e)),
                dict(case, path=pathlabel), {"exception": repr(e)[:300]})
        return False
    if cfg is None:
        tally.outcomes.add((fmt, pathlabel, "not-loaded"))
        tally.v("C19:roundtrip:%s:%s:not-loaded" % (fmt, sigpath),
                "a saved %s config was not found when loaded via %s" % (fmt, pathlabel), dict(case, path=pathlabel))
        return False
    d = diff(want, cfg)
    if d is not None:
        name, kind, w, g = d
        tally.outcomes.add((fmt, pathlabel, "diff:%s:%s" % (name, kind)))
        tally.v("C19:roundtrip:%s:%s:%s:%s" % (fmt, sigpath, name, kind),
                "field %s differs (%s) after %s save + load via %s" % (name, kind, fmt, pathlabel),
                dict(case, path=pathlabel), {"field": name, "saved": w, "loaded": g})
        return False
    tally.outcomes.add((fmt, pathlabel, "equal"))
    return True


def write_text(path, text):
    with open(path, "w") as f:        # same default encoding as the library's open(path, 'r')
        f.write(text)


def clear_dir(d):
    shutil.rmtree(d, ignore_errors=True)


def rt_case(tally, mgr, filesdir, mask, vi, fmt, override=None, tag=None, profile="491234567890", exts=None):
    case = {"part": "roundtrip", "mask": mask, "vector": vi, "format": fmt}
    if tag is not None:
        case["sweep"] = tag
    vals = values_for(mask, vi, fmt, override=override)
    want = want_obs(vals)
    nt = bool(vals)
    stype = TYPE[fmt]
    try:
        cfg = make_config(vals)
        text = mgr.config_to_str(cfg, stype)
    except Exception as e:
        tally.v("C19:raises:serialize:%s:%s" % (fmt, exc_name(e)), "config_to_str(%s) raised %s: %s" % (fmt, exc_name(e), e),
                case, repr(e)[:300])
        return
    # -- conformance of the written text, read by the independent reader
    try:
        seen = ref_read(text, fmt)
    except Exception as e:
        seen = "unparseable: %r" % e
    exp = ref_dict(vals, fmt)
    if seen != exp:
        bad = "<whole>"
        if isinstance(seen, dict):
            bad = sorted(k for k in set(seen) | set(exp) if seen.get(k, ("absent",)) != exp.get(k, ("absent",)))[0]
        tally.v("C19:format:%s:written:%s" % (fmt, bad),
                "the %s text written for a config is not the documented mapping (key %s)" % (fmt, bad), case,
                {"written": seen if not isinstance(seen, dict) else seen.get(bad, "<absent>"),
                 "expected": exp.get(bad, "<absent>") if isinstance(exp, dict) else None})

    # -- explicit paths: with extension(s), without extension
    targets = [("path-ext" if e == EXT[fmt] else "path-ext(.%s)" % e, os.path.join(filesdir, "acct." + e))
               for e in (exts or [EXT[fmt]])]
    targets.append(("path-noext", os.path.join(filesdir, "acct")))
    for label, path in targets:
        if os.path.exists(path):
            os.remove(path)
        try:
            mgr.save("unused", cfg, stype, dest=path)
        except Exception as e:
            tally.v("C19:raises:save-dest:%s" % exc_name(e),
                    "ConfigManager.save(dest=path) raised %s: %s" % (exc_name(e), e), dict(case, path=label),
                    repr(e)[:300])
            write_text(path, text)      # what `yowsup-cli config > file` leaves: the library's own text
        load_compare(tally, mgr, fmt, label, path, want, case, nt)
    # -- a file in the documented format written by the reference writer
    ref_text = ref_write(vals, fmt)
    if ref_text != text:                    # identical text was already loaded through path-ext
        path = os.path.join(filesdir, "ref." + EXT[fmt])
        write_text(path, ref_text)
        load_compare(tally, mgr, fmt, "ref-written", path, want, case, nt)

    # -- profile never used before (its directory does not exist)
    pdir = profile_dir(profile)
    clear_dir(pdir)
    try:
        mgr.save(profile, cfg, stype)
        fresh_ok = True
    except Exception as e:
        fresh_ok = False
        tally.outcomes.add((fmt, "profile-fresh", "save-raises:" + exc_name(e)))
        tally.v("C19:raises:save-profile-fresh:%s" % exc_name(e),
                "first ever save to a profile (no directory yet) raised %s: %s" % (exc_name(e), emsg(e, 100)),
                dict(case, path="profile-fresh"), repr(e)[:300])
    if fresh_ok:
        load_compare(tally, mgr, fmt, "profile-fresh", profile, want, case, nt)

    # -- existing profile that holds a different config in the OTHER format
    clear_dir(pdir)
    os.makedirs(pdir)
    try:
        mgr.save(profile, make_config(values_for(FULL, 0, OTHER[fmt], variant=1)), TYPE[OTHER[fmt]])
    except Exception:
        pass                                # reported by the case that saves that format
    try:
        mgr.save(profile, cfg, stype)
    except Exception as e:
        tally.v("C19:raises:save-profile:%s:%s" % (fmt, exc_name(e)), "save to an existing profile raised %s: %s" % (exc_name(e), e),
                dict(case, path="profile"), repr(e)[:300])
    else:
        load_compare(tally, mgr, fmt, "profile", profile, want, case, nt)

    # -- YowProfile (always JSON)
    if fmt == JSON:
        clear_dir(pdir)
        os.makedirs(pdir)
        try:
            YowProfile(profile).write_config(cfg)
        except Exception as e:
            tally.v("C19:raises:save-yowprofile:%s" % exc_name(e), "YowProfile.write_config raised %s: %s" % (exc_name(e), e),
                    dict(case, path="yowprofile"), repr(e)[:300])
        else:
            load_compare(tally, mgr, fmt, "yowprofile", profile, want, case, nt,
                         loader=lambda: YowProfile(profile).config)


class Scratch(object):
    def __enter__(self):
        self.root = tempfile.mkdtemp(prefix="c19-", dir=env.scratch_root())
        self.prev = _ROOT[0]
        set_root(os.path.join(self.root, "cfg"))
        self.files = os.path.join(self.root, "files")
        os.makedirs(self.files)
        os.makedirs(os.path.join(self.root, "cfg", "yowsup"))
        return self

    def __exit__(self, *exc):
        set_root(self.prev)
        shutil.rmtree(self.root, ignore_errors=True)
        return False


def vectors_of(mask, quick):
    """thorough: all vectors for every subset.  quick: all vectors for subsets with <= 2 fields set or <= 2 fields
    unset, one vector (rotating with the subset) for the others."""
    pc = bin(mask).count("1")
    if not quick or pc <= 2 or pc >= NF - 2:
        return list(range(NV))
    return [(mask + pc) % NV]


def rt_chunk(arg):
    masks, quick = arg
    tally = Tally()
    mgr = ConfigManager()
    with Scratch() as s:
        for mask in masks:
            for vi in vectors_of(mask, quick):
                for fmt in (JSON, KEYVAL):
                    rt_case(tally, mgr, s.files, mask, vi, fmt)
    return tally.result()


# --------------------------------------------------------------------------- value sweeps
def keyval_ok(ch):
    return ch.isprintable() and ch not in "#;"


QUICK_TEXT = [(0, 0x3100), (0xD7F0, 0xD800), (0xE000, 0xE010), (0xFE00, 0xFE10),
              (0xFFF0, 0x10010), (0x1F600, 0x1F610), (0x10FFF0, 0x110000)]


def text_ranges(quick):
    return QUICK_TEXT if quick else [(0, 0x110000)]


def sweep_items(quick):
    """(kind, argument) work items; each is a full rt_case with one overridden field."""
    items = []
    for a, b in text_ranges(quick):
        a -= a % GROUP
        for lo in range(a, b, GROUP * 64):
            items.append(("text", lo, min(lo + GROUP * 64, b)))
    items.append(("bytes", 0, 256))
    items.append(("len", 0, 71))
    return items


SWEEP_MASK = (1 << FIELDS.index("phone")) | (1 << FIELDS.index("pushname")) | (1 << FIELDS.index("client_static_keypair")) \
    | (1 << FIELDS.index("id")) | (1 << FIELDS.index("edge_routing_info"))


TEXT_SINGLE = ["phone", "cc", "login", "password", "mcc", "mnc", "sim_mcc", "sim_mnc", "fdid", "chat_dns_domain"]
GROUP = len(TEXT_SINGLE)


def sweep_override(tag, fmt):
    """tag = [kind, x].  text: the GROUP code points from x on, one per text field (as the whole value for JSON, as
    first and last character for key=value) and all of them together in the push name."""
    kind, x = tag
    if kind == "text":
        cps = [c for c in range(x, min(x + GROUP, 0x110000)) if not 0xD800 <= c <= 0xDFFF]
        ov = {}
        if fmt == JSON:
            for name, c in zip(TEXT_SINGLE, cps):
                ov[name] = chr(c)
            ov["pushname"] = "".join(chr(c) for c in cps)
        else:
            ok = []
            for name, c in zip(TEXT_SINGLE, cps):
                ch = chr(c)
                if not keyval_ok(ch):
                    continue
                ok.append(ch)
                ov[name] = "a" + ch + "b" if ch.isspace() else ch + "b" + ch
            ov["pushname"] = "a" + "".join(ok) + "b"
        return ov
    if kind == "bytes":
        return {"id": bytes([x]) * 20, "edge_routing_info": bytes([x]), "client_static_keypair": bytes([x]) * 64,
                "server_static_public": bytes([x]) * 32, "expid": bytes([x, x])}
    return {"id": _b(x, x), "edge_routing_info": _b(x + 1, 70 - x), "expid": _b(x + 2, x % 17)}


def sweep_chunk(item):
    kind, lo, hi = item
    tally = Tally()
    mgr = ConfigManager()
    with Scratch() as s:
        for x in range(lo, hi, GROUP if kind == "text" else 1):
            for fmt in (JSON, KEYVAL):
                tag = [kind, x]
                rt_case(tally, mgr, s.files, FULL, 0, fmt, override=sweep_override(tag, fmt), tag=tag)
    return tally.result()


# --------------------------------------------------------------------------- extras: naming of paths and profiles
def extras_chunk(_):
    tally = Tally()
    mgr = ConfigManager()
    with Scratch() as s:
        for vi in range(NV):
            for mask in (FULL, SWEEP_MASK):
                rt_case(tally, mgr, s.files, mask, vi, JSON, exts=["json", "JSON", "Json", "conf", "txt"], tag=["ext"])
                rt_case(tally, mgr, s.files, mask, vi, KEYVAL, exts=["yo", "YO", "conf", "txt"], tag=["ext"])
                for profile in ("default", "my profile", "4912345.67", "pröfil"):
                    for fmt in (JSON, KEYVAL):
                        rt_case(tally, mgr, s.files, mask, vi, fmt, profile=profile, tag=["profile", profile])
                # the very first save on this machine: not even <config dir>/yowsup exists
                for fmt in (JSON, KEYVAL):
                    case = {"part": "roundtrip", "mask": mask, "vector": vi, "format": fmt, "sweep": ["first-ever"]}
                    vals = values_for(mask, vi, fmt)
                    clear_dir(os.path.join(_ROOT[0], "yowsup"))
                    try:
                        mgr.save("491234567890", make_config(vals), TYPE[fmt])
                    except Exception as e:
                        tally.v("C19:raises:save-profile-fresh:%s" % exc_name(e),
                                "first ever save to a profile (no directory yet) raised %s: %s" % (exc_name(e), emsg(e, 100)),
                                case, repr(e)[:300])
                    else:
                        load_compare(tally, mgr, fmt, "profile-first-ever", "491234567890", want_obs(vals), case, True)
                    os.makedirs(os.path.join(_ROOT[0], "yowsup"), exist_ok=True)
    return tally.result()


# --------------------------------------------------------------------------- part 2: crash atomicity
MIN_MASK = sum(1 << FIELDS.index(n) for n in ("phone", "cc", "client_static_keypair", "id", "mcc", "mnc"))
REG_MASK = MIN_MASK | sum(1 << FIELDS.index(n) for n in ("login", "edge_routing_info", "chat_dns_domain", "expid", "fdid"))
LOGIN_MASK = REG_MASK | (1 << FIELDS.index("server_static_public")) | (1 << FIELDS.index("pushname"))
LONG_PUSHNAME = "".join(chr(0x4e00 + (i * 7) % 500) if i % 3 == 0 else chr(97 + i % 26) for i in range(700))


def cfg_spec(fmt, mask, vi=0, variant=0, long=False):
    return {"fmt": fmt, "mask": mask, "vi": vi, "variant": variant, "long": long}


def spec_values(spec):
    ov = {"pushname": LONG_PUSHNAME} if spec.get("long") else None
    return values_for(spec["mask"], spec["vi"], spec["fmt"], variant=spec["variant"], override=ov)


def crash_pairs(quick):
    """(old spec | None, new spec, entry, profile dir exists before the first save)"""
    J, K = JSON, KEYVAL
    pairs = []

    def add(old, new, entry="manager.save", dir_exists=True):
        pairs.append({"old": old, "new": new, "entry": entry, "dir_exists": dir_exists})

    # login: only the server key changes (the scenario of the statement: the account's key pair is at stake)
    add(cfg_spec(J, LOGIN_MASK), cfg_spec(J, LOGIN_MASK, variant=1), entry="profile.write_config")
    # first ever save
    add(None, cfg_spec(J, REG_MASK), dir_exists=False)
    add(None, cfg_spec(J, REG_MASK), dir_exists=True)
    add(None, cfg_spec(J, REG_MASK), entry="profile.write_config", dir_exists=False)
    # login: only the server key changes, written by the noise layer / by the profile
    add(cfg_spec(J, LOGIN_MASK), cfg_spec(J, LOGIN_MASK, variant=1), entry="noise.login")
    add(cfg_spec(J, REG_MASK), cfg_spec(J, REG_MASK | (1 << FIELDS.index("server_static_public")), variant=1), entry="noise.login")
    # registration: fields are added
    add(cfg_spec(J, MIN_MASK), cfg_spec(J, REG_MASK), entry="profile.write_config")
    add(cfg_spec(J, MIN_MASK), cfg_spec(J, REG_MASK))
    # shrinking, unicode, identical rewrite, new key pair
    add(cfg_spec(J, FULL, vi=1), cfg_spec(J, MIN_MASK))
    add(cfg_spec(J, FULL), cfg_spec(J, FULL))
    add(cfg_spec(J, FULL), cfg_spec(J, FULL, variant=2))
    add(cfg_spec(J, FULL, long=True), cfg_spec(J, FULL, variant=1, long=True))
    # formats
    add(cfg_spec(J, FULL), cfg_spec(K, FULL, variant=1))
    add(cfg_spec(K, FULL), cfg_spec(J, FULL, variant=1))
    add(cfg_spec(K, FULL), cfg_spec(K, FULL, variant=2))
    add(None, cfg_spec(K, REG_MASK), dir_exists=False)
    if not quick:
        specs = [cfg_spec(f, m, vi, var) for f in (J, K) for (m, vi, var) in
                 ((MIN_MASK, 0, 0), (REG_MASK, 0, 1), (LOGIN_MASK, 1, 0), (FULL, 2, 0), (FULL, 1, 2), (0, 0, 0))]
        for o, n in itertools.product(specs, repeat=2):
            add(o, n)
            if n["fmt"] == J:
                add(o, n, entry="profile.write_config")
        for n in specs:
            add(None, n, dir_exists=False)
            add(None, n, dir_exists=True)
    return pairs


def run_entry(entry, profile, new_vals, new_fmt, old_vals):
    mgr = ConfigManager()
    if entry == "manager.save":
        mgr.save(profile, make_config(new_vals), TYPE[new_fmt])
    elif entry == "profile.write_config":
        YowProfile(profile).write_config(make_config(new_vals))
    elif entry == "noise.login":
        from yowsup.layers.noise.layer import YowNoiseLayer
        from consonance.protocol import WANoiseProtocol
        layer = YowNoiseLayer()
        layer._profile = YowProfile(profile)           # loads the old config from disk, as a login does
        old_rs = old_vals.get("server_static_public")
        layer._rs = PublicKey(old_rs) if old_rs is not None else None
        # finish the handshake of the layer's own protocol object: its state machine then calls the callback
        # the layer registered (_on_protocol_state_changed), exactly as after a real handshake
        proto = layer._wa_noiseprotocol
        proto._rs = PublicKey(new_vals["server_static_public"])
        proto._machine.start()
        proto._machine.finish()
        if proto.state != WANoiseProtocol.STATE_TRANSPORT:
            raise RuntimeError("harness: noise protocol did not reach transport state")
    else:
        raise ValueError(entry)


def establish(mgr, profile, spec, tally, case):
    """Put the old configuration in place with the real (uninstrumented) save.  -> usable baseline?"""
    vals = spec_values(spec)
    pdir = profile_dir(profile)
    os.makedirs(pdir, exist_ok=True)       # a used profile has its directory (axolotl store lives there)
    try:
        mgr.save(profile, make_config(vals), TYPE[spec["fmt"]])
    except Exception as e:
        tally.v("C19:raises:save-profile:%s:%s" % (spec["fmt"], exc_name(e)), "save to an existing profile raised %s: %s" % (exc_name(e), e),
                case, repr(e)[:300])
        return False
    return load_compare(tally, mgr, spec["fmt"], "profile", profile, want_obs(vals), dict(case, stage="baseline"), True)


def classify(mgr, profile, want_old, want_new):
    try:
        cfg = mgr.load(profile)
    except Exception as e:
        return "raises:" + exc_name(e), repr(e)[:200]
    if cfg is None:
        if want_old is None:
            return "old", None
        return "no-config", None
    d_new = diff(want_new, cfg)
    if d_new is None:
        return "new", None
    if want_old is not None:
        d_old = diff(want_old, cfg)
        if d_old is None:
            return "old", None
    return "other:%s:%s" % (d_new[0], d_new[1]), {"vs_new": d_new}


def crash_pair(pair):
    tally = Tally()
    mgr = ConfigManager()
    profile = "491234567890"
    entry = pair["entry"]
    case = {"part": "crash", "pair": pair}
    stats = {"points": 0, "states": 0, "intermediate": 0, "skipped": None, "outcomes": {}, "kinds": {}}
    with Scratch() as s:
        live = _ROOT[0]
        new_vals = spec_values(pair["new"])
        new_fmt = pair["new"]["fmt"]
        want_new = want_obs(new_vals)
        old_vals, want_old = {}, None
        if pair["old"] is not None:
            old_vals = spec_values(pair["old"])
            want_old = want_obs(old_vals)
            if not establish(mgr, profile, pair["old"], tally, case):
                stats["skipped"] = "old configuration cannot be stored/loaded (%s to profile)" % pair["old"]["fmt"]
                return tally.result(), stats
            if entry == "noise.login":
                # what the layer writes: the loaded old config with the new server key
                new_vals = dict(old_vals, server_static_public=new_vals["server_static_public"])
                want_new = want_obs(new_vals)
                new_fmt = JSON
        elif pair["dir_exists"]:
            os.makedirs(profile_dir(profile))

        rec = crashfile.Recorder(live)
        raised = None
        with crashfile.Instrument(rec, [T, M, P]):
            try:
                run_entry(entry, profile, new_vals, new_fmt, old_vals)
            except Exception as e:
                raised = e
        if raised is not None:
            if pair["old"] is None and not pair["dir_exists"]:
                sig = "C19:raises:save-profile-fresh:%s" % exc_name(raised)
                what = "first ever save to a profile (no directory yet) raised %s: %s" % (exc_name(raised), emsg(raised, 100))
            else:
                sig = "C19:raises:%s:%s" % (entry, exc_name(raised))
                what = "%s raised %s: %s" % (entry, exc_name(raised), emsg(raised, 100))
            tally.v(sig, what, case, repr(raised)[:300])

        # the state the operation leaves when nothing crashes must load as the new configuration
        final = rec.points[-1].state
        stats["points"] = len(rec.points)
        for p in rec.points:
            stats["kinds"][p.kind] = stats["kinds"].get(p.kind, 0) + 1
        if raised is None:
            ok = load_compare(tally, mgr, new_fmt, "profile", profile, want_new, dict(case, stage="final"), True)
            if not ok:
                stats["skipped"] = "the completed save does not load as the new configuration (reported above)"
                return tally.result(), stats

        # every crash point
        copy = os.path.join(s.root, "crashed")
        cache = {}
        first_bad = None
        bad = 0
        for p in rec.points:
            if p.state in cache:
                out = cache[p.state]
            else:
                clear_dir(copy)
                crashfile.materialise(p.state, copy)
                set_root(copy)
                try:
                    out = classify(mgr, profile, want_old, want_new)
                    tally.loads += 1
                    resave = None
                    if raised is None and os.path.isdir(profile_dir(profile)):
                        # recovery: the next save on the crashed directory works and wins
                        try:
                            mgr.save(profile, make_config(new_vals), TYPE[new_fmt])
                            c2 = classify(mgr, profile, None, want_new)
                            if c2[0] != "new":
                                resave = "loads as %s" % c2[0]
                        except Exception as e:
                            resave = "raises %s: %s" % (exc_name(e), emsg(e, 100))
                        tally.loads += 1
                    out = out + (resave,)
                finally:
                    set_root(live)
                cache[p.state] = out
                if p.state != rec.points[0].state and p.state != final:
                    stats["intermediate"] += 1
            verdict, info, resave = out
            stats["outcomes"][verdict] = stats["outcomes"].get(verdict, 0) + 1
            if verdict not in ("old", "new"):
                bad += 1
                if first_bad is None:
                    first_bad = (p, verdict, info)
            if resave is not None:
                tally.v("C19:crash:resave-after-crash", "after a crash at '%s' the next save of the profile fails: %s" % (p.label, resave),
                        dict(case, point=p.index, label=p.label), {"on_disk": crashfile.describe(p.state)})
        stats["states"] = len(cache)
        if first_bad is not None:
            p, verdict, info = first_bad
            tally.v("C19:crash:not-old-or-new",
                    "a crash during %s at '%s' leaves a profile that loads as neither the old nor the new configuration "
                    "(%s): the key pair is lost" % (entry, p.label, verdict),
                    dict(case, point=p.index, label=p.label),
                    {"load": verdict, "info": info, "on_disk": crashfile.describe(p.state),
                     "crash_points": len(rec.points), "bad_points": bad, "by_outcome": stats["outcomes"]})
        for k in stats["outcomes"]:
            tally.outcomes.add(("crash", entry, k.split(":")[0]))
    return tally.result(), stats


# --------------------------------------------------------------------------- part 3: locale axis
# The statement has no "in the same process, under the same locale" clause: a configuration written by one
# process (e.g. an interactive UTF-8 shell running yowsup-cli registration) is loaded by another (e.g. a service
# started with LC_ALL=C).  Save and load therefore each run in {host = this process, ascii = a child interpreter
# whose locale encoding is ASCII}; every one of the four combinations must round-trip every value of the stated
# domain (JSON: arbitrary unicode incl. a lone surrogate; key=value: printable text).
ASCII_ENV = {"LC_ALL": "C", "LANG": "C", "PYTHONUTF8": "0", "PYTHONCOERCECLOCALE": "0"}
COMBOS = [("host", "host"), ("host", "ascii"), ("ascii", "host"), ("ascii", "ascii")]
TEXT_FIELDS = ["phone", "cc", "login", "password", "pushname", "mcc", "mnc", "sim_mcc", "sim_mnc", "fdid", "chat_dns_domain"]
KP_MASK = 1 << FIELDS.index("client_static_keypair")
LOCALE_TEXT = [
    ("latin1", "Zo\u00e9"), ("latin1-edge", "\u00ff\u00e0"), ("cjk", "\u540d\u524d"), ("astral", "Zo\u00eb \U0001F680"),
    ("arabic-digits", "\u0662\u0666\u0662"), ("replacement", "a\ufffdb"), ("combining", "e\u0301"),
    ("c1-control", "a\u0080\u009fb"), ("nbsp-bidi", "a\u00a0\u202eb"), ("line-sep", "a\u2028\u2029b"),
    ("lone-high-surrogate", "Zo\u00eb \ud83d"), ("lone-low-surrogate", "\udc00x"), ("reversed-pair", "a\ude00\ud83db"),
]
SURROGATE_OV = {"pushname": "Zo\u00eb \ud83d", "chat_dns_domain": "\udc00.example", "fdid": "x\udfff", "password": "\ud800\ud800"}


def in_keyval_domain(text):
    return all(keyval_ok(ch) for ch in text) and text == text.strip()


def locale_specs(quick):
    specs = []

    def add(fmt, mask, vi, ov, tag):
        specs.append({"fmt": fmt, "mask": mask, "vi": vi, "ov": ov, "tag": tag})

    for tag, text in LOCALE_TEXT:
        add(JSON, MIN_MASK | 1 << FIELDS.index("pushname"), 0, {"pushname": text}, tag)
        if in_keyval_domain(text):
            add(KEYVAL, MIN_MASK | 1 << FIELDS.index("pushname"), 0, {"pushname": text}, tag)
    for name in TEXT_FIELDS:
        for fmt in (JSON, KEYVAL):
            add(fmt, KP_MASK | 1 << FIELDS.index(name), 0, {name: "Zo\u00eb\U0001F680"}, "only-" + name)
    # whole value vectors last: the case kept per signature is then the smallest one
    for fmt in (JSON, KEYVAL):
        for vi in range(NV):
            add(fmt, FULL, vi, None, "vector%d" % vi)
    add(JSON, FULL, 0, SURROGATE_OV, "lone-surrogates")
    if not quick:
        # one code point out of every 2048 (and the last of each plane) as push name
        cps = sorted(set(range(0x80, 0x110000, 2048)) | set(range(0xFFFF, 0x110000, 0x10000)) | {0x7F, 0x80, 0xFF, 0x100, 0x7FF, 0x800})
        for cp in cps:
            text = "a" + chr(cp) + "b"
            add(JSON, KP_MASK | 1 << FIELDS.index("pushname"), 0, {"pushname": text}, "U+%04X" % cp)
            if in_keyval_domain(text):
                add(KEYVAL, KP_MASK | 1 << FIELDS.index("pushname"), 0, {"pushname": text}, "U+%04X" % cp)
    for i, sp in enumerate(specs):
        sp["id"] = i
    return specs


def loc_values(spec):
    return values_for(spec["mask"], spec["vi"], spec["fmt"], override=spec["ov"])


def loc_root(base, spec, combo):
    return os.path.join(base, "%d-%s-%s" % (spec["id"], combo[0], combo[1]))


def loc_paths(root, fmt):
    files = os.path.join(root, "files")
    return {"profile": "491234567890", "path-ext": os.path.join(files, "acct." + EXT[fmt]),
            "path-noext": os.path.join(files, "acct")}


def err_json(e):
    return [exc_name(e), emsg(e, 160)]


def loc_save(base, spec, combo):
    """Save spec's configuration below base/<id>-<save>-<load> through the real code.  -> {path: None | [exc, msg]}"""
    root = loc_root(base, spec, combo)
    os.makedirs(os.path.join(root, "files"))
    prev = _ROOT[0]
    set_root(os.path.join(root, "cfg"))
    out = {}
    try:
        mgr = ConfigManager()
        fmt = spec["fmt"]
        cfg = make_config(loc_values(spec))
        for label, target in loc_paths(root, fmt).items():
            try:
                if label == "profile":
                    try:
                        mgr.save(target, cfg, TYPE[fmt])
                    except FileNotFoundError:       # first-save defect of older trees: reported by part 1
                        os.makedirs(profile_dir(target), exist_ok=True)
                        mgr.save(target, cfg, TYPE[fmt])
                else:
                    try:
                        mgr.save("unused", cfg, TYPE[fmt], dest=target)
                    except TypeError:               # save(dest=) defect of older trees: reported by part 1
                        write_text(target, mgr.config_to_str(cfg, TYPE[fmt]))
                out[label] = None
            except Exception as e:
                out[label] = err_json(e)
    finally:
        set_root(prev)
    return out


def loc_load(base, spec, combo, saved):
    """Load what loc_save left, compare field-wise.  -> {path: None (equal) | [kind, ...]}"""
    root = loc_root(base, spec, combo)
    prev = _ROOT[0]
    set_root(os.path.join(root, "cfg"))
    out = {}
    try:
        mgr = ConfigManager()
        want = want_obs(loc_values(spec))
        for label, target in loc_paths(root, spec["fmt"]).items():
            if saved.get(label) is not None:
                continue                    # nothing was saved there; the save failure is reported
            try:
                cfg = mgr.load(target)
            except Exception as e:
                out[label] = ["load-raises"] + err_json(e)
                continue
            if cfg is None:
                out[label] = ["not-loaded"]
                continue
            d = diff(want, cfg)
            out[label] = None if d is None else ["diff", d[0], d[1], ascii(d[2])[:200], ascii(d[3])[:200]]
    finally:
        set_root(prev)
    return out


def child_main():
    """Runs in the ASCII-locale child: job on stdin (JSON), results on stdout (JSON, ASCII only)."""
    import sys
    import locale
    job = json.loads(sys.stdin.buffer.read().decode("ascii"))
    res = {"encoding": locale.getpreferredencoding(False), "utf8_mode": sys.flags.utf8_mode, "save": {}, "load": {}}
    for spec, combo in job["save"]:
        res["save"]["%d/%s-%s" % (spec["id"], combo[0], combo[1])] = loc_save(job["base"], spec, combo)
    for spec, combo, saved in job["load"]:
        key = "%d/%s-%s" % (spec["id"], combo[0], combo[1])
        res["load"][key] = loc_load(job["base"], spec, combo, res["save"][key] if saved is None else saved)
    sys.stdout.buffer.write(json.dumps(res).encode("ascii"))
    sys.stdout.buffer.flush()


def run_child(job):
    import sys
    import subprocess
    envv = {k: v for k, v in os.environ.items()
            if not (k.startswith("LC_") or k in ("LANG", "LANGUAGE", "PYTHONUTF8", "PYTHONIOENCODING", "PYTHONCOERCECLOCALE"))}
    envv.update(ASCII_ENV)
    envv["PYTHONPATH"] = env.VERIF_ROOT
    envv["VERIF_REPO"] = env.REPO
    envv["PYTHONDONTWRITEBYTECODE"] = "1"
    code = "from vf.props import c19_config as c; c.child_main()"
    p = subprocess.run([sys.executable if sys.executable.startswith("/venv/") else "/venv/bin/python", "-c", code],
                       input=json.dumps(job).encode("ascii"), stdout=subprocess.PIPE, stderr=subprocess.PIPE,
                       env=envv, cwd=env.VERIF_ROOT, timeout=600)
    if p.returncode != 0:
        raise RuntimeError("C19 harness: ASCII-locale child failed (%d): %s" % (p.returncode, p.stderr.decode("latin-1")[-800:]))
    res = json.loads(p.stdout.decode("ascii"))
    import codecs
    if codecs.lookup(res["encoding"]).name != "ascii" or res["utf8_mode"]:
        raise RuntimeError("C19 harness: child locale encoding is %r (utf8_mode=%r), expected ASCII"
                           % (res["encoding"], res["utf8_mode"]))
    return res


def has_non_ascii(spec):
    return any(isinstance(v, str) and not v.isascii() for v in loc_values(spec).values())


def locale_axis(specs):
    """All four save/load locale combinations for every spec; exactly one child process.
    -> (violations, stats)"""
    tally = Tally()
    stats = {"configurations": len(specs), "non_ascii_configurations": sum(1 for sp in specs if has_non_ascii(sp)),
             "combinations": len(COMBOS), "saves": 0, "loads": 0, "loads_non_ascii": 0, "equal_loads": 0, "by_combo": {}}
    base = tempfile.mkdtemp(prefix="c19-loc-", dir=env.scratch_root())
    try:
        saved, loaded = {}, {}
        for sp in specs:                                     # 1. host saves
            for combo in COMBOS:
                if combo[0] == "host":
                    saved[(sp["id"], combo)] = loc_save(base, sp, combo)
        job = {"base": base,                                # 2. the one child: its saves, then its loads
               "save": [(sp, combo) for sp in specs for combo in COMBOS if combo[0] == "ascii"],
               "load": [(sp, ("host", "ascii"), saved[(sp["id"], ("host", "ascii"))]) for sp in specs]
                       + [(sp, ("ascii", "ascii"), None) for sp in specs]}     # None: what the child itself saved
        res = run_child(job)
        for sp in specs:
            for combo in COMBOS:
                key = "%d/%s-%s" % (sp["id"], combo[0], combo[1])
                if combo[0] == "ascii":
                    saved[(sp["id"], combo)] = res["save"][key]
                if combo[1] == "ascii":
                    loaded[(sp["id"], combo)] = res["load"][key]
        for sp in specs:                                     # 3. host loads
            for combo in (("host", "host"), ("ascii", "host")):
                loaded[(sp["id"], combo)] = loc_load(base, sp, combo, saved[(sp["id"], combo)])
        stats["child_encoding"] = res["encoding"]
    finally:
        shutil.rmtree(base, ignore_errors=True)
    import locale
    stats["host_encoding"] = locale.getpreferredencoding(False)

    for sp in specs:
        fmt = sp["fmt"]
        na = has_non_ascii(sp)
        for combo in COMBOS:
            cname = "%s->%s" % combo
            case = {"part": "locale", "spec": sp, "combo": list(combo)}
            for label, r in sorted(saved[(sp["id"], combo)].items()):
                stats["saves"] += 1
                if r is not None:
                    tally.outcomes.add(("locale", fmt, "%s save-raises:%s" % (combo[0], r[0])))
                    tally.v("C19:locale:%s:%s->any:save-raises:%s" % (fmt, combo[0], r[0]),
                            "saving a %s config (%s) in a process with %s locale encoding raised %s: %s"
                            % (fmt, sp["tag"], combo[0], r[0], r[1]), dict(case, path=label), {"exception": r})
            for label, r in sorted(loaded[(sp["id"], combo)].items()):
                stats["loads"] += 1
                tally.loads += 1
                if na:
                    stats["loads_non_ascii"] += 1
                    tally.nontrivial += 1
                bc = stats["by_combo"].setdefault(cname, {"equal": 0, "failed": 0})
                if r is None:
                    stats["equal_loads"] += 1
                    bc["equal"] += 1
                    tally.outcomes.add(("locale", fmt, cname + " equal"))
                    continue
                bc["failed"] += 1
                if r[0] == "load-raises":
                    sig, what = "load-raises:%s" % r[1], "raised %s: %s" % (r[1], r[2])
                elif r[0] == "not-loaded":
                    sig, what = "not-loaded", "found no config"
                else:
                    sig, what = "%s:%s" % (r[1], r[2]), "yields field %s different (%s)" % (r[1], r[2])
                tally.outcomes.add(("locale", fmt, "%s %s" % (cname, sig)))
                tally.v("C19:locale:%s:%s:%s" % (fmt, cname, sig),
                        "a %s config (%s) saved under %s locale encoding and loaded via %s under %s locale encoding %s"
                        % (fmt, sp["tag"], combo[0], label, combo[1], what), dict(case, path=label), {"result": r})
    return tally.result(), stats


# --------------------------------------------------------------------------- driver
def run(ctx):
    from vf.runner import shuffled
    totals = {"loads": 0, "nontrivial": 0, "paths": {}}
    outcomes = set()

    def absorb(res):
        vs, loads, nontrivial, outs, paths = res
        ctx.add_violations(vs)
        totals["loads"] += loads
        totals["nontrivial"] += nontrivial
        outcomes.update(tuple(o) for o in outs)
        for k, n in paths.items():
            totals["paths"][k] = totals["paths"].get(k, 0) + n

    # ---- part 2 first (few, heavy items), then part 1
    pairs = crash_pairs(ctx.quick)
    pstats = {"pairs": len(pairs), "pairs_enumerated": 0, "pairs_skipped": 0, "crash_points": 0, "distinct_crash_states": 0,
              "intermediate_states": 0, "point_kinds": {}, "load_outcomes": {}, "skipped_because": {}}
    for res, st in ctx.pimap(crash_pair, pairs):
        absorb(res)
        if st["skipped"]:
            pstats["pairs_skipped"] += 1
            pstats["skipped_because"][st["skipped"]] = pstats["skipped_because"].get(st["skipped"], 0) + 1
            continue
        pstats["pairs_enumerated"] += 1
        pstats["crash_points"] += st["points"]
        pstats["distinct_crash_states"] += st["states"]
        pstats["intermediate_states"] += st["intermediate"]
        for k, n in st["kinds"].items():
            pstats["point_kinds"][k] = pstats["point_kinds"].get(k, 0) + n
        for k, n in st["outcomes"].items():
            k = k.split(":")[0]
            pstats["load_outcomes"][k] = pstats["load_outcomes"].get(k, 0) + n
    ctx.sample({"crash_pair": pairs[0], "note": "every boundary of the real write path is a crash point"})

    masks = shuffled(range(1 << NF), ctx.seed, "c19-masks")
    chunks = [(masks[i:i + 256], ctx.quick) for i in range(0, len(masks), 256)]
    for res in ctx.pimap(rt_chunk, chunks):
        absorb(res)
    ctx.sample({"roundtrip": {"mask": FULL, "vector": 1, "format": JSON, "fields": FIELDS,
                              "pushname": VECTORS[JSON][1]["pushname"]}})
    ctx.sample({"roundtrip": {"mask": 5, "vector": 2, "format": KEYVAL, "text": ref_write(values_for(FULL, 2, KEYVAL), KEYVAL)[:200]}})

    sweeps = shuffled(sweep_items(ctx.quick), ctx.seed, "c19-sweep")
    for res in ctx.pimap(sweep_chunk, sweeps):
        absorb(res)
    for res in ctx.pimap(extras_chunk, [0]):
        absorb(res)

    # ---- part 3: locale axis (one ASCII-locale child process)
    from vf.runner import shuffled as _sh
    lspecs = locale_specs(ctx.quick)
    lres, lstats = locale_axis(_sh(lspecs, ctx.seed, "c19-locale"))
    absorb(lres)
    ctx.sample({"locale": {"spec": lspecs[3], "combinations": ["%s->%s" % c for c in COMBOS]}})

    n_cfg = sum(len(vectors_of(m, ctx.quick)) for m in range(1 << NF)) * 2
    ctx.coverage.update({
        "evaluations": totals["loads"],
        "distinct_nontrivial": totals["nontrivial"] + pstats["intermediate_states"],
        "rule": "round trip: a (field subset, value vector, format, load path) case with at least one field set whose "
                "saved file was loaded by the real ConfigManager.load and compared field-wise; crash: a distinct on-disk "
                "state strictly between the state before and after the save, loaded by the real ConfigManager.load; "
                "locale: a load of a configuration with a non-ASCII text value in one of the four save/load locale combinations",
        "exhaustive": True,
        "configurations": n_cfg,
        "field_subsets": 1 << NF,
        "value_vectors_per_format": NV,
        "loads_by_path": totals["paths"],
        "sweep_items": len(sweeps),
        "text_code_points_swept": sum(b - a for a, b in text_ranges(ctx.quick)) - (0 if ctx.quick else 0x800),
        "crash": pstats,
        "locale": lstats,
        "distinct_outcomes": len(outcomes),
        "outcomes": sorted("%s/%s/%s" % o for o in outcomes)[:40],
        "bound": ("all 2^16 subsets of the 16 Config fields x %s x 2 formats x 6 load paths; every byte "
                  "of every write of the save path as crash point (cut set for writes > 1 KiB)"
                  % ("3 value vectors for subsets with <=2 fields set/unset, 1 rotating vector otherwise" if ctx.quick
                     else "3 value vectors")),
    })
    ctx.assume("process death (kill -9), not power loss: data handed to the OS survives; os.replace/os.rename within a directory is atomic")
    ctx.assume("torn prefixes of a single write() over-approximate process death for data smaller than the io buffer; the "
               "truncation point after open(...,'w'), the post-close point and all rename boundaries are exact")
    ctx.assume("supported file format = field names as keys, __version__, standard base64 for id/expid/edge_routing_info/"
               "server_static_public and for private||public of client_static_keypair; JSON one key per line as the library writes it")
    ctx.assume("locale axis: 'host' is this process (locale encoding recorded in coverage.locale.host_encoding), 'ascii' a child "
               "interpreter started with LC_ALL=C LANG=C PYTHONUTF8=0 PYTHONCOERCECLOCALE=0; other legacy encodings are not enumerated")
    ctx.assume("values use the types the library itself produces (phone/cc/mcc/mnc... as str), so key=value's string loading is not a loss")


def replay(ctx, case):
    """Re-run exactly the recorded case; only violations of the recorded load path / crash part are returned."""
    if case.get("part") == "crash":
        (vs, loads, nt, outs, paths), st = crash_pair(case["pair"])
        if "point" in case:
            vs = [v for v in vs if v[0].startswith("C19:crash:")]
        return vs
    if case.get("part") == "locale":
        spec = dict(case["spec"])
        (vs, loads, nt, outs, paths), st = locale_axis([spec])
        return [v for v in vs if v[2].get("combo") == case["combo"] and v[2].get("path") == case.get("path")]
    tally = Tally()
    mgr = ConfigManager()
    sweep = case.get("sweep")
    with Scratch() as s:
        if sweep and sweep[0] in ("ext", "profile", "first-ever"):
            vs = extras_chunk(0)[0]
        else:
            ov = sweep_override(sweep, case["format"]) if sweep else None
            rt_case(tally, mgr, s.files, case["mask"], case["vector"], case["format"], override=ov, tag=sweep)
            vs = tally.result()[0]
    if "path" in case:
        vs = [v for v in vs if (v[2] or {}).get("path") == case["path"]]
    return vs
