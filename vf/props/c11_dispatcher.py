"""C11, part 2: the bytes that reach the SOCKET.  The real AsyncoreConnectionDispatcher (yowsup's class on top of
asyncore.dispatcher_with_send) over a scripted socket that may take only part of a write (a full send buffer), with two
real threads: a sender handing frames to sendData() - as the network layer does, one at a time under the segments
layer's lock - and the dispatcher's loop thread, which calls handle_write() whenever the dispatcher reports itself
writable (what asyncore.loop does when select() says so).  All interleavings at statement granularity inside the
dispatcher and asyncore's write path up to the preemption bound x all short-write answers of the socket from a small
menu are executed; at quiescence the socket must have received exactly the concatenation of the frames, once, in order.
"""
import errno
import os

from vf import env
env.bootstrap()

from vf.explore import sched as S
from vf.explore import dfs

import asyncore
import importlib
DA = importlib.import_module("yowsup.layers.network.dispatcher.dispatcher_asyncore")

MOD = "vf.props.c11_dispatcher"
_FILES = (os.path.abspath(asyncore.__file__), os.path.abspath(DA.__file__))


def _filter(code):
    return os.path.abspath(code.co_filename) in _FILES


class FakeSock(object):
    """a non-blocking socket whose send() takes what the script says (0 = would block), then everything"""

    def __init__(self, budgets):
        self.budgets = list(budgets)
        self.accepted = bytearray()
        self.calls = 0

    def fileno(self):
        return 10 ** 6

    def send(self, data):
        self.calls += 1
        b = self.budgets.pop(0) if self.budgets else None
        if b == 0:
            raise BlockingIOError(errno.EWOULDBLOCK, "would block")
        n = len(data) if b is None else min(b, len(data))
        self.accepted.extend(bytes(data[:n]))
        return n

    def sendall(self, data):
        data = bytes(data)
        while data:
            try:
                n = self.send(data)
            except BlockingIOError:
                continue        # a blocking socket waits for room
            data = data[n:]

    def shutdown(self, how):
        pass

    def close(self):
        pass


from yowsup.layers.network.dispatcher.dispatcher import ConnectionCallbacks


class Callbacks(ConnectionCallbacks):
    def __init__(self):
        self.events = []

    def onConnecting(self):
        self.events.append("connecting")

    def onConnected(self):
        self.events.append("connected")

    def onDisconnected(self):
        self.events.append("disconnected")

    def onRecvData(self, data):
        self.events.append("data")

    def onConnectionError(self, e):
        self.events.append("error")


def run_socket_dispatcher(case, prefix):
    """the other dispatcher (PROP_DISPATCHER = DISPATCHER_SOCKET): a blocking socket, written by the sending thread only"""
    DS = importlib.import_module("yowsup.layers.network.dispatcher.dispatcher_socket")
    frames = [bytes([0x41 + i]) * n for i, n in enumerate(case["frames"])]
    d = DS.SocketConnectionDispatcher(Callbacks())
    sock = FakeSock([b for b in case["budgets"] if b])      # a blocking socket never answers "would block"
    d.socket = sock
    v = []
    try:
        for f in frames:
            d.sendData(f)
    except Exception as e:
        v.append(("C11:socket:raises:%s" % type(e).__name__, "sendData raised %r" % (e,), dict(case), None))
    want, got = b"".join(frames), bytes(sock.accepted)
    if got != want and not v:
        v.append(("C11:socket:bytes-lost" if len(got) < len(want) else "C11:socket:bytes-wrong",
                  "socket dispatcher: the socket received %r, the frames handed to the dispatcher were %r" % (got, want), dict(case), None))
    return [(1, 0, False)], v, (got,)


def run_disp(case, prefix):
    if case.get("dispatcher") == "socket":
        return run_socket_dispatcher(case, prefix)
    frames = [bytes([0x41 + i]) * n for i, n in enumerate(case["frames"])]
    cb = Callbacks()
    # locks the dispatcher creates must be locks the scheduler controls
    saved = {}
    from vf.harness.noise import CRLock
    for name, repl in (("threading", S.ModuleProxy(__import__("threading"), Lock=S.CLock, RLock=CRLock)), ("Lock", S.CLock), ("RLock", CRLock)):
        if hasattr(DA, name):
            saved[name] = getattr(DA, name)
            setattr(DA, name, repl)
    d = DA.AsyncoreConnectionDispatcher(cb)
    sock = FakeSock(case["budgets"])
    d.socket = sock
    d._fileno = sock.fileno()
    d.connected = True
    d._connected = True
    sc = S.Scheduler(prefix, trace_filter=_filter, line_filter=_filter)
    done = {"sender": False}
    total = sum(len(f) for f in frames)

    def sender():
        for f in frames:
            d.sendData(f)
        done["sender"] = True

    def loop():
        # asyncore.loop: whenever the dispatcher says it has something to write and the socket can take it
        while True:
            sc.wait_until(lambda: bool(d.writable()) or (done["sender"] and not d.out_buffer), "select(): writable")
            if done["sender"] and not d.out_buffer:
                return
            sc.env_point("select() returned")
            d.handle_write()

    error = None
    try:
        sc.run_phase([("sender", sender), ("loop", loop)], timeout=600.0)
    except (S.HarnessStuck, S.ReplayDivergence) as e:
        error = e
    blocked = [(t.name, t.wait_desc) for t in sc.blocked()]
    pts = S.summarize_points(sc)
    log = list(sc.log)
    sc.shutdown()
    for name, val in saved.items():
        setattr(DA, name, val)
    if error is not None:
        raise error
    v = []

    def bad(sig, what, detail=None):
        v.append(("C11:socket:" + sig, what, dict(case), detail))
    for ent in log:
        if ent[0] == "thread-exception":
            bad("thread-exception:%s:%s" % (ent[1], ent[2]), "exception escaped in thread %s: %s %s" % (ent[1], ent[2], ent[3]))
    if blocked:
        bad("blocked", "threads left blocked: %s" % blocked)
    want = b"".join(frames)
    got = bytes(sock.accepted)
    if got != want and not v:
        kind = "bytes-lost" if len(got) < len(want) else ("bytes-duplicated" if len(got) > len(want) else "bytes-reordered")
        bad(kind, "the socket received %r, the frames handed to the dispatcher were %r" % (got, want),
            {"socket_calls": sock.calls, "left_in_buffer": bytes(d.out_buffer)})
    obs = (got, tuple(sorted(b[0] for b in blocked)))
    return pts, v, obs


def cases_for(tier):
    cases = []
    budget_menu = [[], [2], [0], [2, 1], [0, 2], [3, 0]]
    if tier != "quick":
        budget_menu += [[1, 1, 1], [0, 0, 2], [5], [2, 0, 1]]
    for frames in ([6, 4], [3, 3, 3]):
        for b in budget_menu:
            cases.append({"frames": frames, "budgets": b})
    for frames in ([6, 4], [3, 3, 3]):
        for b in budget_menu:
            cases.append({"frames": frames, "budgets": b, "dispatcher": "socket"})
    return cases
