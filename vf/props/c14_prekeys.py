"""C14 One-time prekeys: none lost or re-offered between generation, upload and use.

Explicit-state BFS over histories of {login with upload confirmed / rejected / connection lost before the result /
confirmation lost in transit, server asks for keys (same reply modes), peer close, restart, a peer consuming an
offered key, replay of that first message}.  Every transition runs the REAL client stack (network(stanza
dispatcher) / AxolotlControlLayer / send+receive / protocol layers / app) on a real sqlite store against the
server double's key directory, with small batch sizes (COUNT_GEN_PREKEYS=3, THRESHOLD_REGEN=2).  A state is the
history reaching it; build(hist) replays it on fresh real objects; canon(state) abstracts key ids to their status.
Invariants are evaluated in every state and on every upload stanza observed on the wire.
"""
from vf import env
env.bootstrap()

from vf.harness import world as W
from vf.doubles.server import jid_of, clone
from vf.explore.bfs import bfs
from vf.runner import shuffled

from yowsup.structs.protocoltreenode import ProtocolTreeNode
from yowsup.layers.protocol_messages.protocolentities.message_text import TextMessageProtocolEntity
from axolotl.ecc.curve import Curve
from axolotl.ecc.djbec import DjbECPublicKey

PROPERTY = "C14"
LEVEL = "model_checking"

A, B = "491510001", "491510002"
GEN, THRESH = 3, 2

EVENTS = [("login", "result"), ("login", "error"), ("login", "lost"), ("login", "late"), ("login", "held"),
          ("ask", "result"), ("ask", "error"), ("ask", "lost"), ("ask", "held"), ("release",),
          ("close",), ("restart",), ("consume",), ("replay",)]


class St(object):
    pass


def store_rows(acc):
    c = acc.store().preKeyStore.dbConn.cursor()
    c.execute("SELECT prekey_id, sent_to_server, record FROM prekeys ORDER BY prekey_id")
    return [(r[0], 1 if r[1] else 0, bytes(r[2])) for r in c.fetchall()]


def build(hist):
    w = W.provisioned([B], groups={}, prekeys=12, pad="cycle")
    W.M.AxolotlManager.COUNT_GEN_PREKEYS = GEN
    W.M.AxolotlManager.THRESHOLD_REGEN = THRESH
    a = w.add(A)
    s = St()
    s.w, s.a, s.b = w, a, w.acc(B)
    s.v = []                      # violations detected while replaying (transition-level checks)
    s.uploads = []                # [(ids, confirmed_to_client)]
    s.offered = {}                # id(int) -> public key bytes as offered
    s.confirmed_client = set()    # ids whose upload result reached the client
    s.consumed = set()
    s.first_msgs = []             # pkmsg stanzas B sent to A (for replay)
    s.pending_consumes = []       # (prekey ids handed to the peer, message body, A was up)
    s.held = []                   # upload results the server has not delivered yet: [(result stanza, prekey ids)]
    s.reissued = set()            # ids that were given to a new key (known id-reuse finding): old consumption no longer applies
    s.consume_problems = []
    s.delivered_bodies = []
    s.nsent = 0
    s.applied = []
    s.upload_kind = "login"
    s.upload_ids = {}            # iq id -> prekey ids, checked at the moment the client sends the upload
    orig_from_client = w.server.from_client

    def from_client(jid, node):
        if jid == a.jid and node.tag == "iq" and node["xmlns"] == "encrypt" and node["type"] == "set":
            s.upload_ids[node["id"]] = _check_upload(s, node, s.upload_kind)
            s.upload_kind = "login"
        return orig_from_client(jid, node)
    w.server.from_client = from_client
    for ev in hist:
        apply_event(s, ev)
        s.applied.append(ev)
        update_consumed(s)
    return s


def _check_upload(s, node, kind):
    """Check one upload stanza (iq set encrypt) as it appears on the wire."""
    a = s.a
    case = {"history": [list(e) for e in s.applied] + ["<upload>"]}

    def bad(sig, what, detail=None):
        s.v.append(("C14:" + sig, what, case, detail))
    try:
        ident = node.getChild("identity").data
        reg = node.getChild("registration").data
        typ = node.getChild("type").data
        sk = node.getChild("skey")
        sid, sval, ssig = sk.getChild("id").data, sk.getChild("value").data, sk.getChild("signature").data
        keys = [(k.getChild("id").data, k.getChild("value").data) for k in node.getChild("list").getAllChildren("key")]
    except Exception as e:
        bad("upload-malformed", "upload stanza lacks a required part: %r" % (e,))
        return []
    mgr = a.manager()
    own = bytes(mgr.identity.getPublicKey().serialize())[1:]
    if ident != own or len(ident) != 32:
        bad("upload-identity", "upload does not carry the account's identity key")
    if not reg or int.from_bytes(reg, "big") != mgr.registration_id:
        bad("upload-registration", "upload carries registration id %r, store has %r" % (reg, mgr.registration_id))
    if typ != b"\x05":
        bad("upload-type", "key type byte is %r" % (typ,))
    if len(sid) != 3 or len(sval) != 32 or len(ssig) != 64:
        bad("upload-skey-form", "signed prekey wire form wrong: id %d value %d signature %d bytes" % (len(sid), len(sval), len(ssig)))
    else:
        try:
            ok = Curve.verifySignature(mgr.identity.getPublicKey().getPublicKey(), b"\x05" + sval, ssig)
        except Exception as e:
            ok = False
        if not ok:
            bad("upload-skey-signature", "signed prekey signature does not verify under the account's identity")
        try:
            rec = a.store().loadSignedPreKey(int.from_bytes(sid, "big"))
            if bytes(rec.getKeyPair().getPublicKey().serialize())[1:] != sval:
                bad("upload-skey-unknown", "uploaded signed prekey differs from the stored one with that id")
        except Exception as e:
            bad("upload-skey-unknown", "uploaded signed prekey id is not in the store: %r" % (e,))
    ids = []
    rows = dict((r[0], r) for r in store_rows(a))
    update_consumed(s)
    all_gone = bool(s.offered) and all(j in s.consumed for j in s.offered)
    for kid, kval in keys:
        if len(kid) != 3 or len(kval) != 32:
            bad("upload-key-form", "one-time prekey wire form wrong: id %d bytes, key %d bytes" % (len(kid), len(kval)))
            continue
        i = int.from_bytes(kid, "big")
        ids.append(i)
        if i in s.offered and s.offered[i] != kval:
            # a NEW key under an id that was used before: one root cause, reported once; the bookkeeping below then
            # treats it as the new key it is, so that no follow-up alarms are raised for the same thing
            gone = all_gone
            bad("prekey-id-reused" + (":after-all-consumed" if gone else ""),
                "prekey id %d was offered again with a different key%s" % (i, " (all earlier keys had been consumed, so the id counter restarted)" if gone else ""))
            s.confirmed_client.discard(i)
            s.consumed.discard(i)
            s.reissued.add(i)
            s.pending_consumes = [(ids, body, up) for (ids, body, up) in s.pending_consumes if i not in ids]
            del s.offered[i]
        if i in s.confirmed_client:
            bad("reoffered-confirmed", "prekey %d was offered again after its upload had been confirmed" % i)
        if i not in rows:
            bad("offered-unknown", "offered prekey id %d does not resolve to a stored key" % i)
        else:
            from axolotl.state.prekeyrecord import PreKeyRecord
            pub = bytes(PreKeyRecord(serialized=rows[i][2]).getKeyPair().getPublicKey().serialize())[1:]
            if pub != kval:
                bad("offered-mismatch", "offered public key for id %d differs from the stored key" % i)
            s.offered[i] = kval
    if len(set(ids)) != len(ids):
        bad("offered-duplicate-id", "an upload lists a prekey id twice")
    if kind == "login":
        unsent = [r[0] for r in rows.values() if not r[1]]
        missing = [i for i in unsent if i not in ids]
        if missing:
            bad("unsent-not-offered", "keys %s are still pending upload but were not offered at this authenticated passive login" % missing)
    return ids


def apply_event(s, ev):
    w, a = s.w, s.a
    srv = w.server
    kind = ev[0]
    wire_before = len(srv.wire[a.jid])

    def new_uploads():
        return [n for n in srv.wire[a.jid][wire_before:] if n.tag == "iq" and n["xmlns"] == "encrypt" and n["type"] == "set"]

    def run(mode, which):
        """settle; the first key upload of this event is answered per `mode`"""
        first = [True]
        steps = 0
        while True:
            w.pump()
            st = srv.steps()
            if not st:
                break
            step = st[0]
            if step[0] == "in" and step[1] == a.jid:
                node = srv.inbox[a.jid][0][1]
                if node.tag == "iq" and node["xmlns"] == "encrypt" and node["type"] == "set":
                    ids = s.upload_ids.get(node["id"], [])
                    m = mode if first[0] else "result"
                    first[0] = False
                    if m == "result":
                        srv.do(step)
                        # the result stanza is now queued for A; its delivery confirms these ids to the client
                        s.uploads.append((ids, True))
                        s.pending_confirm = ids
                        continue
                    if m == "held":
                        # the server accepts the upload; its answer is still on the way (a second upload can overtake it)
                        srv.do(step)
                        s.uploads.append((ids, False))
                        for item in list(srv.outbox[a.jid]):
                            if item[1].tag == "iq" and item[1]["type"] == "result" and item[1]["id"] == node["id"]:
                                srv.outbox[a.jid].remove(item)
                                s.held.append((item[1], ids))
                        continue
                    if m == "error":
                        srv.upload_reply = "error"
                        srv.do(step)
                        s.uploads.append((ids, False))
                        continue
                    if m == "lost":
                        srv.upload_reply = "drop"
                        srv.do(step)
                        s.uploads.append((ids, False))
                        if a.up():
                            a.dispatcher.close_from_peer()
                        s.held = []
                        continue
                    if m == "late":
                        srv.do(step)          # server stores the keys ...
                        s.uploads.append((ids, False))
                        s.held = []
                        if a.up():
                            a.dispatcher.close_from_peer()      # ... but the result never reaches the client
                        # the queued result dies with the connection
                        srv.outbox[a.jid] = type(srv.outbox[a.jid])(x for x in srv.outbox[a.jid] if x[1].tag != "iq")
                        continue
            if step[0] == "out" and step[1] == a.jid:
                node = srv.outbox[a.jid][0][1]
                if node.tag == "iq" and node["type"] == "result" and getattr(s, "pending_confirm", None) is not None:
                    s.confirmed_client.update(s.pending_confirm)
                    s.pending_confirm = None
            srv.do(step)
            steps += 1
            if steps > 500:
                s.v.append(("C14:livelock", "no quiescence", {"history": [list(e) for e in s.applied] + [list(ev)]}, None))
                break
        w.pump()

    if kind == "login":
        if not a.up():
            a.connect()
        run(ev[1], "login")
    elif kind == "ask":
        if a.up():
            srv.nid += 1
            srv.to_client(a.jid, ProtocolTreeNode("notification", {"type": "encrypt", "id": "ask%d" % srv.nid, "from": "s.whatsapp.net", "t": srv.tick()},
                                                  [ProtocolTreeNode("count", {"value": "0"})]))
            s.upload_kind = "ask"
            run(ev[1], "ask")
    elif kind == "release":
        # the oldest outstanding upload answer finally arrives
        if s.held and a.up():
            node, ids = s.held.pop(0)
            s.pending_confirm = ids
            srv.to_client(a.jid, node)
            run("result", "login")
    elif kind == "close":
        if a.up():
            a.dispatcher.close_from_peer()
        s.held = []
        run("result", "login")
    elif kind == "restart":
        s.held = []
        w.restart(A)          # new process on the same profile directory; it connects
        run("result", "login")
    elif kind == "consume":
        # B fetches A's bundle (server hands out one of A's one-time keys) and sends a first message
        if a.jid in srv.dir.accounts and srv.dir.accounts[a.jid]["prekeys"]:
            s.nsent += 1
            body = "consume-%d" % s.nsent
            nb = len(srv.wire[s.b.jid])
            # a new peer identity each time would be needed to consume more than one key with sessions;
            # drop B's session with A so that it fetches a fresh bundle
            try:
                s.b.store().deleteAllSessions(A)
            except Exception:
                pass
            s.b.send_layer.skipEncJids[:] = []
            handed_before = list(srv.dir.handed_out.get(a.jid, []))
            s.b.app.send(TextMessageProtocolEntity(body, to=a.jid))
            run("result", "login")
            handed = srv.dir.handed_out.get(a.jid, [])[len(handed_before):]
            for nd in srv.wire[s.b.jid][nb:]:
                if nd.tag == "message" and nd["to"] == a.jid:
                    s.first_msgs.append(clone(nd))
            s.pending_consumes.append(([int.from_bytes(k, "big") for k in handed], body, a.up()))
    elif kind == "replay":
        if s.first_msgs and a.up():
            nd = s.first_msgs[-1]
            before = len([m for m in a.all_received() if hasattr(m, "getTag") and m.getTag() == "message"])
            env_attrs = {"from": s.b.jid, "id": nd["id"], "t": srv.tick(), "type": nd["type"], "notify": "n"}
            srv.to_client(a.jid, ProtocolTreeNode("message", env_attrs, [clone(c) for c in nd.children]))
            run("result", "login")
            after = len([m for m in a.all_received() if hasattr(m, "getTag") and m.getTag() == "message"])
            if after != before:
                s.v.append(("C14:consumed-key-reused", "a replayed first message was delivered again: its one-time prekey was usable twice",
                            {"history": [list(e) for e in s.applied] + [list(ev)]}, None))
    s.new_uploads = new_uploads()


def update_consumed(s):
    a = s.a
    srv = s.w.server
    s.consume_problems = []
    bodies = [getattr(m, "getBody", lambda: None)() for m in a.all_received() if hasattr(m, "getTag") and m.getTag() == "message"]
    for ids, body, was_up in s.pending_consumes:
        n = bodies.count(body)
        if n == 1:
            s.consumed.update(ids)
        elif n > 1:
            s.consume_problems.append(("first-message-delivered-twice", "a first message was delivered %d times" % n))
        elif was_up or (a.up() and not srv.outbox[a.jid]):
            s.consume_problems.append(("offered-key-unusable", "a first message using offered prekey %s was not delivered although the client is online" % ids,
                                       {"errors": [h[:3] for h in a.handler_errors[-2:]]}))


def enabled(s, hist):
    up = s.a.up()
    out = []
    for ev in EVENTS:
        k = ev[0]
        if k == "login" and up:
            continue
        if k in ("ask", "close", "replay") and not up:
            continue
        if k == "replay" and not s.first_msgs:
            continue
        if k == "release" and not (up and s.held):
            continue
        if k == "consume" and not (s.a.jid in s.w.server.dir.accounts and s.w.server.dir.accounts[s.a.jid]["prekeys"]):
            continue
        out.append(ev)
    return out


def canon(s):
    rows = store_rows(s.a) if s.a.profile._axolotl_manager is not None or True else []
    try:
        rows = store_rows(s.a)
    except Exception:
        rows = []
    srv = s.w.server
    acc = srv.dir.accounts.get(s.a.jid)
    server_ids = set(int.from_bytes(k, "big") for k in acc["prekeys"]) if acc else set()
    status = []
    for (i, sent, rec) in rows:
        status.append((sent, i in server_ids, i in s.confirmed_client))
    status.sort()
    return (tuple(status), len(s.a.control._unsent_prekeys), bool(s.a.stack.getProp(W.YowAuthenticationProtocolLayer.PROP_PASSIVE, False)),
            s.a.control._reboot_connection, s.a.up(), len(s.a.control.iqRegistry), len(s.consumed) > 0, bool(s.first_msgs), len(server_ids),
            tuple(len(ids) for _, ids in s.held), _control_state(s.a.control))


def _control_state(control):
    """every plain-data attribute of the real control layer, whatever its name (request ids excluded: they count up
    with the history and carry no behaviour) - histories are merged only if the layer holds nothing that tells them apart"""
    from vf.explore.bfs import simple_state
    out = []
    for k, v in simple_state(control, skip=("iqRegistry",)):
        out.append((k, v))
    return tuple(out)


def check(s, hist):
    v = list(s.v)
    case = {"history": [list(e) for e in hist]}

    def bad(sig, what, detail=None):
        v.append(("C14:" + sig, what, case, detail))
    a = s.a
    srv = s.w.server
    try:
        rows = store_rows(a)
    except Exception as e:
        rows = []
    update_consumed(s)
    for item in s.consume_problems:
        bad(*item)
    confirmed_server = set(int.from_bytes(k, "big") for k in srv.dir.confirmed.get(a.jid, []))
    for (i, sent, rec) in rows:
        if sent and i not in confirmed_server:
            bad("sent-flag-without-confirmation", "prekey %d is flagged as uploaded but the server never confirmed an upload containing it" % i)
        if sent and i not in s.confirmed_client:
            bad("sent-flag-before-result", "prekey %d is flagged as uploaded although no upload result for it reached the client" % i)
        if not sent and i in s.confirmed_client:
            bad("confirmed-still-pending", "prekey %d is still pending although its upload was confirmed" % i)
    have = dict((r[0], r) for r in rows)
    for i, pub in s.offered.items():
        if i in s.consumed:
            if i in have:
                bad("consumed-key-still-stored", "prekey %d was consumed by a first message but is still available locally" % i)
            continue
        if i not in have:
            bad("offered-key-lost", "prekey %d was offered to the server, never consumed, and is no longer available locally" % i)
    for he in a.handler_errors:
        if he[0] == "Exception" and "Sent keys were not accepted" in he[1]:
            continue          # the library reports a rejected upload by raising; not this property's subject
        bad("handler-exception:%s" % he[0], "exception escaped a handler: %s %s" % (he[0], he[1]), he[3])
    # after a login whose upload was confirmed nothing may remain pending
    if hist and hist[-1] == ("login", "result") and a.up():
        pend = [r[0] for r in rows if not r[1]]
        if pend:
            bad("pending-after-confirmed-login", "keys %s are still pending upload after a login whose upload was confirmed" % pend)
        # (whether the client comes back with a non-passive login afterwards is not part of this property's statement;
        # an earlier version demanded it and reported a sticky passive flag at depth 7 - DESIGN 9.4, observations)
    return v


def on_close(s):
    try:
        s.w.close()
    except Exception:
        pass


def explore(args):
    first, depth = args
    seen_states = [0]

    def build_(hist):
        st = build([tuple(e) for e in hist])
        return st

    def canon_(s):
        k = canon(s)
        on_close(s)
        return k

    def enabled_(s, hist):
        return enabled(s, hist)
    # bfs() builds a fresh state per use; make sure every built world is closed
    built = []
    orig_build = build_

    def tracked_build(hist):
        s = orig_build(hist)
        built.append(s)
        if len(built) > 3:
            on_close(built.pop(0))
        return s
    res = bfs(tracked_build, enabled_, lambda s: canon(s), check, max_depth=depth, initial=[first])
    for s in built:
        on_close(s)
    return (res.states, res.transitions, res.max_depth, res.violations, res.sample_hists[:2])


def run(ctx):
    depth = 4 if ctx.quick else 6
    # shard the search by first event (each shard dedups on its own: states are counted per shard)
    firsts = [("login", m) for m in ("result", "error", "lost", "late", "held")]
    jobs = shuffled([(f, depth) for f in firsts], ctx.seed, "c14")
    states = transitions = 0
    maxd = 0
    for st, tr, md, viol, samples in ctx.pimap(explore, jobs):
        states += st
        transitions += tr
        maxd = max(maxd, md)
        ctx.add_violations(viol)
        for h in samples:
            ctx.sample({"history": h})
    ctx.sample({"history": [list(e) for e in [("login", "lost"), ("login", "result"), ("consume",), ("replay",)]]})
    ctx.coverage.update({
        "states": states,
        "transitions": transitions,
        "traces_validated_against_impl": transitions + len(jobs),
        "max_depth": maxd + 1,
        "exhaustive": True,
        "bound": "all histories of <= %d events after the first login over %d event kinds; batch size %d, refill threshold %d"
                 % (depth, len(EVENTS), GEN, THRESH),
        "explanation": "every transition rebuilds fresh real objects and replays the history; canonical state abstracts key ids to "
                       "(sent flag, held by server, confirmed to client) multisets plus the control layer's flags",
    })
    ctx.assume("server double's key directory trusted; 'confirmed' means the upload's result stanza reached the client")
    ctx.assume("a rejected upload makes the library raise 'Sent keys were not accepted' out of the handler: tolerated here")


def replay(ctx, case):
    hist = [tuple(e) for e in case["history"] if not isinstance(e, str)]
    s = build(hist)
    try:
        return check(s, hist)
    finally:
        on_close(s)
