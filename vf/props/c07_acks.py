"""C07 Mandatory acknowledgements are sent exactly once and match the stanza.

Exploration (E1): stimulus table x 32 configurations (16 selections of the optional groups / media / privacy /
profiles modules x {without, with} the encryption layers; harness vf/harness/protostack.py) x field vectors.
Every case injects ONE stanza at the bottom of a fresh real layer set and looks at what the layer set writes
downward in response.

Stimuli (the quantifier of the property)
  notifications   picture set / delete, status, contacts add / remove / update / sync, w:gp2 create / add / remove /
                  subject, encrypt count / identity, three unknown types (and an unknown child of a known type);
                  each without and with a `participant` attribute (never for encrypt), optional notify / offline
  calls           offer, transport, relaylatency, reject, terminate, bare <call/>
  server pings    <iq type="get" xmlns="urn:xmpp:ping"> with several ids, with / without a <ping/> child
  messages        whose payload is none of text / extended text / supported media / pure key distribution:
                  protocol (revoke) only, call / chat / hsm / contacts-array only, empty <proto/>, type=media with
                  an unknown mediatype; from a contact and from a group participant; with the encryption layers
                  each (but the empty one) also as a real pkmsg from a peer.  In configurations WITHOUT the media module every type=media
                  message (also image / contact / url) is a content type that stack cannot present.

Oracle, from the statement (independent of the code): among the stanzas written downward exactly ONE is an
answer (an <ack>, a <receipt> or an <iq type=result|error>), and it is
  notification -> <ack class="notification"> with the notification's id, type, to = its sender, and its
                  participant when it had one
  call offer   -> <receipt> with the call stanza's id, to = caller, naming the call id (<offer call-id>)
  other call   -> <ack class="call"> with the stanza's id, to = caller
  ping         -> <iq type="result"> with the same id
  message      -> <receipt> with the message's id, to = sender, participant when the message had one
never two, never none.  Stanzas that are not answers (key upload / key fetch iqs of the control layer after an
encrypt notification) are not counted.  What reaches the application is C06's subject.

Signature "C07:<kind>:<what>[:<config-class>]", config class only when the failure depends on it.
"""
import hashlib

from vf import env
env.bootstrap()

from vf.ref import shapes as S
from vf.harness import protostack as P
from vf.runner import shuffled
from yowsup.structs import ProtocolTreeNode

PROPERTY = "C07"
LEVEL = "exploration"

N = ProtocolTreeNode
IDS = S.ALPHABETS["id"]
TS = S.ALPHABETS["ts"]
TEXT = S.ALPHABETS["text"]
SERVER = "s.whatsapp.net"


def _opt(attrs, opts, v):
    """optional attributes shared by notifications / calls / messages: bit0 notify, bit1 offline"""
    if opts & 1:
        attrs["notify"] = TEXT[v % 6]
    if opts & 2:
        attrs["offline"] = S.ALPHABETS["flag"][v % 2]
    return attrs


# ==================================================================================================
# stimuli
# ==================================================================================================
def _participants(n, v):
    return [N("participant", {"jid": S.U[(v + i + 1) % 6]}) for i in range(n)]


def _notification_child(sub, v):
    if sub == "picture-set":
        return "picture", [N("set", {"jid": S.ALPHABETS["cjid"][v % 6], "id": IDS[(v + 1) % 6]})]
    if sub == "picture-delete":
        return "picture", [N("delete", {"jid": S.ALPHABETS["cjid"][v % 6]})]
    if sub == "status":
        return "status", [N("set", {}, None, S.ALPHABETS["dtext"][v % 3])]
    if sub in ("contacts-add", "contacts-remove", "contacts-update"):
        return "contacts", [N(sub.split("-")[1], {"jid": S.U[(v + 2) % 6]})]
    if sub == "contacts-sync":
        return "contacts", [N("sync", {"after": TS[v % 3]})]
    if sub == "contacts-other":
        return "contacts", [N("modify", {"old": S.U[(v + 2) % 6], "new": S.U[(v + 3) % 6]})]
    if sub == "gp2-create":
        group = N("group", {"id": S.ALPHABETS["gid"][v % 6], "creator": S.U[(v + 1) % 6], "creation": TS[v % 3],
                            "subject": TEXT[(v + 1) % 6], "s_t": TS[(v + 1) % 3], "s_o": S.U[(v + 2) % 6]},
                  _participants(1 + v % 2, v))
        return "w:gp2", [N("create", {"type": "new", "key": "4915225256022-abcdef@temp"}, [group])]
    if sub == "gp2-add":
        return "w:gp2", [N("add", {}, _participants(1 + v % 2, v))]
    if sub == "gp2-remove":
        return "w:gp2", [N("remove", {"subject": TEXT[v % 6]}, _participants(1 + v % 2, v))]
    if sub == "gp2-subject":
        return "w:gp2", [N("subject", {"s_t": TS[v % 3], "s_o": S.U[(v + 1) % 6], "subject": TEXT[(v + 2) % 6]})]
    if sub == "encrypt-count":
        return "encrypt", [N("count", {"value": S.ALPHABETS["count"][v % 3]})]
    if sub == "encrypt-identity":
        return "encrypt", [N("identity")]
    if sub == "encrypt-other":
        return "encrypt", [N("digest")]
    if sub == "unknown":
        typ = ("features", "web", "server_sync")[v % 3]
        return typ, [N(("feature", "action", "sync")[v % 3], {"v": "1"})] if v < 3 else None
    raise KeyError(sub)


def g_notification(sub):
    def gen(v, participant, opts):
        typ, kids = _notification_child(sub, v)
        if sub.startswith("gp2"):
            frm = S.G[v % 6]
        elif sub == "encrypt-count" or sub == "encrypt-other":
            frm = SERVER
        elif sub.startswith("picture"):
            frm = S.ALPHABETS["cjid"][v % 6]
        else:
            frm = S.U[v % 6]
        attrs = _opt({"id": IDS[v % 6], "from": frm, "t": TS[v % 3], "type": typ}, opts, v)
        if participant:
            attrs["participant"] = S.U[(v + 3) % 6]
        return N("notification", attrs, kids)
    return gen


def g_call(sub):
    def gen(v, participant, opts):
        attrs = _opt({"id": IDS[v % 6], "from": S.U[v % 6], "t": TS[v % 3]}, opts, v)
        if v % 3 == 1:
            attrs["retry"] = S.ALPHABETS["retry"][v % 3]
        if v % 3 == 2:
            attrs["e"] = "0"
        kids = None if sub == "bare" else [N(sub, {"call-id": IDS[(v + 2) % 6]})]
        return N("call", attrs, kids)
    return gen


PING_IDS = IDS + ["1", "ping-0", "0", "9" * 24]


def g_ping(v, participant, opts):
    attrs = {"type": "get", "xmlns": "urn:xmpp:ping", "id": PING_IDS[v % len(PING_IDS)], "from": SERVER}
    if opts & 1:
        attrs["t"] = TS[v % 3]
    return N("iq", attrs, [N("ping")] if opts & 2 else None)


_UNPRESENTABLE = None


def payloads():
    global _UNPRESENTABLE
    if _UNPRESENTABLE is None:
        _UNPRESENTABLE = P.unpresentable_payloads()
    return _UNPRESENTABLE


def _message_attrs(v, participant, opts, mtype):
    if participant:
        attrs = {"id": IDS[v % 6], "from": S.G[v % 6], "participant": S.U[(v + 1) % 6]}
    else:
        attrs = {"id": IDS[v % 6], "from": S.U[v % 6]}
    attrs.update({"t": TS[v % 3], "type": mtype})
    return _opt(attrs, opts, v)


def _message(v, participant, opts, mtype, mediatype, data, encrypted):
    """plaintext form <message><proto mediatype?>data</proto></message>, or - with the encryption layers - the
    same payload as a real pkmsg from the peer (a contact)"""
    attrs = _message_attrs(v, participant and not encrypted, opts, mtype)
    extra = {"mediatype": mediatype} if mediatype else {}
    if not encrypted:
        return N("message", attrs, [N("proto", extra, None, data)])
    attrs["from"] = P.PEER_JID
    return N("message", attrs, [N("enc", dict({"type": "pkmsg", "v": "2"}, **extra), None, P.encrypted_for_us(data))])


def g_message_plain(names):
    """type=text, no mediatype, payload one of the named unpresentable payloads"""
    def gen(v, participant, opts, encrypted=False):
        vs = [x for x in payloads()[names[v % len(names)]] if x or not encrypted]
        return _message(v, participant, opts, "text", None, vs[(v // len(names)) % len(vs)], encrypted)
    return gen


UNKNOWN_MEDIATYPES = ("livelocation", "product", "vcard_array")
KNOWN_MEDIATYPES = (("image", "pb:image"), ("contact", "pb:contact"), ("url", "pb:extended_text"))


def g_message_media(v, participant, opts, encrypted=False):
    """type=media; variants 0-2 unknown mediatypes, 3-5 mediatypes the media module would present"""
    if v % 6 < 3:
        mt, data = UNKNOWN_MEDIATYPES[v % 3], payloads()["contacts-array"][v % 3]
    else:
        mt, alpha = KNOWN_MEDIATYPES[v % 3]
        data = S.ALPHABETS[alpha][v % 3]
    return _message(v, participant, opts, "media", mt, data, encrypted)


_SKDM = []


def skdm_field(v):
    """serialized Message holding only a sender key distribution (concatenated to another serialized Message it adds
    that field: protobuf merges concatenated encodings)"""
    if not _SKDM:
        from yowsup.layers.protocol_messages.proto.e2e_pb2 import Message
        for i in range(3):
            m = Message()
            m.sender_key_distribution_message.group_id = S.G[i]
            m.sender_key_distribution_message.axolotl_sender_key_distribution_message = bytes(range(10 + i))
            _SKDM.append(m.SerializeToString())
    return _SKDM[v % 3]


SKDM_MEDIATYPES = ("contact_array", "hsm", "livelocation")


def g_message_media_skdm(v, participant, opts, encrypted=False):
    """a participant's first group message: an unpresentable payload (several contacts, a templated business message)
    that carries the sender key along"""
    name = ("contacts-array", "hsm", "contacts-array")[v % 3]
    data = payloads()[name][(v // 3) % 3] + skdm_field(v)
    return _message(v, participant, opts, "media", SKDM_MEDIATYPES[v % 3], data, encrypted)



class Kind(object):
    def __init__(self, name, gen, answer, participant=(False, True), encryptable=False, in_scope=None, vectors=None):
        self.name = name
        self.gen = gen
        self.answer = answer              # notification | call-offer | call | ping | message
        self.participant = participant
        self.encryptable = encryptable    # with the encryption layers the stimulus is also sent as real ciphertext
        self.in_scope = in_scope          # f(cfg, v) -> False: this variant is outside the quantifier in this config
        self.vectors = vectors


KINDS = []
for _sub in ("picture-set", "picture-delete", "status", "contacts-add", "contacts-remove", "contacts-update",
             "contacts-sync", "contacts-other", "gp2-create", "gp2-add", "gp2-remove", "gp2-subject"):
    KINDS.append(Kind("notification-" + _sub, g_notification(_sub), "notification"))
for _sub in ("encrypt-count", "encrypt-identity", "encrypt-other"):
    KINDS.append(Kind("notification-" + _sub, g_notification(_sub), "notification", participant=(False,)))
KINDS.append(Kind("notification-unknown", g_notification("unknown"), "notification", vectors=6))
KINDS.append(Kind("call-offer", g_call("offer"), "call-offer", participant=(False,)))
for _sub in ("transport", "relaylatency", "reject", "terminate", "bare"):
    KINDS.append(Kind("call-" + _sub, g_call(_sub), "call", participant=(False,)))
KINDS.append(Kind("ping", g_ping, "ping", participant=(False,), vectors=len(PING_IDS)))
KINDS.append(Kind("message-protocol", g_message_plain(["revoke"]), "message", encryptable=True))
KINDS.append(Kind("message-other-payload", g_message_plain(["call", "chat", "hsm", "contacts-array"]), "message",
                  encryptable=True, vectors=12))
KINDS.append(Kind("message-empty-proto", g_message_plain(["empty"]), "message"))
# with the media module an image / contact / url message is presented (C06), i.e. outside this quantifier
KINDS.append(Kind("message-media", g_message_media, "message", vectors=6, encryptable=True,
                  in_scope=lambda cfg, v: (not cfg.media) or v % 6 < 3))
# the same with a sender key distribution riding along (media module on: without it no media message is answered at
# all, which is the recorded finding C07:message-media:no-receipt:media-off)
KINDS.append(Kind("message-media-with-sender-key", g_message_media_skdm, "message", vectors=6, participant=(True,),
                  in_scope=lambda cfg, v: cfg.media))
KIND = dict((k.name, k) for k in KINDS)
assert len(KIND) == len(KINDS)


def variants(kind, thorough):
    """[(vector, participant, opts, encrypted)], simplest first; encrypted variants are skipped in
    configurations without the encryption layers"""
    nvec = max(kind.vectors or 0, 6 if thorough else 3)
    out = []
    for enc in ((False, True) if kind.encryptable else (False,)):
        for part in ((False,) if enc else kind.participant):
            for v in range(nvec):
                for opts in (range(4) if thorough else [(0, 3, 1, 2)[v % 4]]):
                    out.append((v, part, opts, enc))
    return out


# ==================================================================================================
# oracle
# ==================================================================================================
def is_answer(node):
    if not isinstance(node, ProtocolTreeNode):
        return True                       # something that is not even a stanza was written: counted, never matches
    return node.tag in ("ack", "receipt") or (node.tag == "iq" and node["type"] in ("result", "error"))


def mismatches(kind, stanza, ans):
    """fields of the single answer that contradict the statement -> list of strings"""
    if not isinstance(ans, ProtocolTreeNode):
        return ["not a stanza: %r" % type(ans).__name__]
    bad = []

    def need(attr, want, label=None):
        if ans[attr] != want:
            bad.append("%s=%r, expected %r" % (label or attr, ans[attr], want))

    if kind.answer == "notification":
        if ans.tag != "ack":
            return ["answered with <%s>, expected <ack>" % ans.tag]
        need("class", "notification")
        need("id", stanza["id"])
        need("type", stanza["type"])
        need("to", stanza["from"])
        if stanza["participant"] is not None:
            need("participant", stanza["participant"])
    elif kind.answer == "call-offer":
        if ans.tag != "receipt":
            return ["answered with <%s>, expected <receipt>" % ans.tag]
        need("id", stanza["id"])
        need("to", stanza["from"])
        offers = [c for c in ans.getAllChildren() if c["call-id"] is not None]
        want = stanza.getChild("offer")["call-id"]
        if [c["call-id"] for c in offers] != [want]:
            bad.append("call id named by the receipt: %r, expected [%r]" % ([c["call-id"] for c in offers], want))
    elif kind.answer == "call":
        if ans.tag != "ack":
            return ["answered with <%s>, expected <ack>" % ans.tag]
        need("class", "call")
        need("id", stanza["id"])
        need("to", stanza["from"])
    elif kind.answer == "ping":
        if ans.tag != "iq" or ans["type"] != "result":
            return ["answered with <%s type=%r>, expected <iq type=result>" % (ans.tag, ans["type"])]
        need("id", stanza["id"])
    elif kind.answer == "message":
        if ans.tag != "receipt":
            return ["answered with <%s>, expected <receipt>" % ans.tag]
        need("id", stanza["id"])
        need("to", stanza["from"])
        if stanza["participant"] is not None:
            need("participant", stanza["participant"])
        if ans["type"] == "retry":
            bad.append("type='retry' (a request to re-send, not an acknowledgement)")
    return bad


ANSWER_NAME = {"notification": "ack", "call-offer": "receipt", "call": "ack", "ping": "pong", "message": "receipt"}


def run_case(kind, cfg, v, participant, opts, encrypted=False):
    """-> (findings [(what, detail)], nontrivial?, observation)"""
    if encrypted and not cfg.enc:
        return None
    if kind.in_scope is not None and not kind.in_scope(cfg, v):
        return None
    with P.ProtoStack(cfg) as st:
        stanza = kind.gen(v, participant, opts, encrypted) if kind.encryptable else kind.gen(v, participant, opts)
        exc = st.inject(stanza)
        sent, got = st.take()
    return _judge(kind, cfg, stanza, exc, sent, got)


def _judge(kind, cfg, stanza, exc, sent, got):
    answers = [n for n in sent if is_answer(n)]
    shown = {"config": cfg.key, "stanza": S.render(stanza)[:700],
             "written_downward": [S.render(n)[:400] if isinstance(n, ProtocolTreeNode) else repr(n)[:100] for n in sent],
             "entities_upward": [type(g).__name__ for g in got]}
    name = ANSWER_NAME[kind.answer]
    obs = (kind.answer, len(answers), len(sent) - len(answers), len(got), type(exc).__name__ if exc else None)
    findings = []
    if exc is not None:
        findings.append(("raises:%s" % type(exc).__name__, dict(shown, raised=P.brief(exc), at=P.where(exc))))
    if not answers:
        findings.append(("no-%s" % name, shown))
    elif len(answers) > 1:
        findings.append(("double-%s" % name, dict(shown, answers=len(answers))))
    else:
        bad = mismatches(kind, stanza, answers[0])
        if bad:
            findings.append(("wrong-%s" % name, dict(shown, mismatches=bad)))
    return findings, (not findings), obs



def run_pairs(item):
    """stimulus B injected after stimulus A on the SAME stack (no encryption layers, every module selected): B must
    still get exactly its one answer - what A left behind in the layers must not matter"""
    cfgkey, name_a = item
    cfg = P.Config.from_key(cfgkey)
    P.patch_clocks()
    ka = KIND[name_a]
    out = []
    n = 0
    for kb in KINDS:
        for (va, vb, corr) in ((0, 0, False), (1, 2, False), (2, 1, False), (0, 1, True)):
            pa = ka.participant[-1]
            pb = kb.participant[-1]
            if (ka.in_scope is not None and not ka.in_scope(cfg, va)) or (kb.in_scope is not None and not kb.in_scope(cfg, vb)):
                continue
            with P.ProtoStack(cfg) as st:
                a = ka.gen(va, pa, 0)
                b = kb.gen(vb, pb, 3 if corr else 0)
                if corr:
                    # B is about the same message and parties as A and carries notify / offline (a stanza the
                    # server delivers again, a second notification under one id): it still needs its own answer
                    shared = 0
                    for attr in ("id", "from", "participant"):
                        if isinstance(a, ProtocolTreeNode) and a[attr] is not None and b[attr] is not None:
                            b.attributes[attr] = a[attr]
                            shared += 1
                    if not shared:
                        continue
                st.inject(a)
                st.take()
                exc = st.inject(b)
                sent, got = st.take()
            n += 1
            findings, ok, obs = _judge(kb, cfg, b, exc, sent, got)
            for what, detail in findings:
                out.append(("C07:%s:%s:after-another-stanza" % (kb.name, what),
                            "%s injected after %s on the same stack: %s (configuration %s)" % (kb.name, name_a, what, cfgkey),
                            {"pair": [name_a, kb.name], "vectors": [va, vb], "config": cfgkey}, detail))
            if findings:
                break
    return out, n


def run_item(item):
    cfgkey, names, thorough = item
    cfg = P.Config.from_key(cfgkey)
    P.prepare() if cfg.enc else P.patch_clocks()
    raw, evals, nontrivial, outcomes = [], 0, set(), set()
    tried = set()
    for name in names:
        kind = KIND[name]
        for idx, (v, part, opts, enc) in enumerate(variants(kind, thorough)):
            r = run_case(kind, cfg, v, part, opts, enc)
            if r is None:
                continue
            tried.add(name)
            findings, ok, obs = r
            evals += 1
            outcomes.add(obs)
            if ok:
                nontrivial.add("%s/%s/%d/%d/%d/%d" % (cfgkey, name, v, part, opts, enc))
            for what, detail in findings:
                raw.append((name, what, cfgkey, idx, v, part, opts, enc, detail))
    return raw, evals, nontrivial, outcomes, [(n, cfgkey) for n in tried]


def aggregate(raw, tried):
    """tried: {kind name: set of config keys in which at least one variant was in the quantifier}"""
    groups = {}
    for name, what, cfgkey, idx, v, part, opts, enc, detail in raw:
        groups.setdefault((name, what), []).append((P.CONFIG_KEYS.index(cfgkey), idx, cfgkey, v, part, opts, enc, detail))
    order = [k.name for k in KINDS]
    out = []
    for (name, what) in sorted(groups, key=lambda g: (order.index(g[0]), g[1])):
        items = sorted(groups[(name, what)], key=lambda x: x[:2])
        failing = set(i[2] for i in items)
        applicable = set(tried.get(name, ())) | failing
        cls = P.config_class(failing, applicable)
        sig = "C07:%s:%s" % (name, what) + (":" + cls if cls else "")
        _, idx, cfgkey, v, part, opts, enc, detail = items[0]
        line = "%s: %s in %d of %d configurations (first: %s%s)" % (
            name, what, len(failing), len(applicable), cfgkey, ", with participant" if part else "")
        case = {"kind": name, "config": cfgkey, "vector": v, "participant": part, "opts": opts, "encrypted": enc}
        out.append((sig, line, case, dict(detail, failing_configs=sorted(failing), failing_cases=len(items))))
    return out


def runner_known(sig):
    from vf import runner
    return runner.match_known(PROPERTY, sig, runner.load_known()) is not None


def run(ctx):
    thorough = not ctx.quick
    P.prepare()
    bad, _ = P.assembly_preflight(passes=2)
    if bad:
        # not this property's subject (C06 / C18 report it), and a faulty assembly may grow without bound
        raise RuntimeError("protocol layer sets differ from the model, no verdict possible: %r" % (bad[0][:3],))
    names = [k.name for k in KINDS]
    nchunks = 2
    items = []
    for cfg in P.CONFIGS:
        for i in range(nchunks):
            items.append((cfg.key, names[i::nchunks], thorough))
    items = shuffled(items, ctx.seed, "c07")
    raw, evals, nontrivial, outcomes, tried = [], 0, set(), set(), {}
    for r, e, nt, oc, tr in ctx.pmap(run_item, items):
        raw.extend(r)
        evals += e
        nontrivial |= nt
        outcomes |= oc
        for n, k in tr:
            tried.setdefault(n, set()).add(k)
    ctx.add_violations(aggregate(raw, tried))
    if not ctx.violations or all(runner_known(sig) for sig in ctx.violations):
        pair_cfgs = [c.key for c in P.CONFIGS if not c.enc and all(getattr(c, m) for m in P.MODULES)]
        npairs = 0
        for vs, n in ctx.pmap(run_pairs, [(ck, k.name) for ck in pair_cfgs for k in KINDS]):
            npairs += n
            ctx.add_violations(sorted(vs, key=lambda v: v[0]))
        evals += npairs
        ctx.coverage["ordered_pairs_on_one_stack"] = npairs

    ctx.sample({"kind": "notification-gp2-add", "stanza": S.render(KIND["notification-gp2-add"].gen(0, True, 3))})
    ctx.sample({"kind": "call-offer", "stanza": S.render(KIND["call-offer"].gen(1, False, 1))})
    ctx.sample({"kind": "ping", "ids": PING_IDS})
    ctx.sample({"kind": "message-protocol", "stanza": S.render(KIND["message-protocol"].gen(0, True, 0))})
    ctx.sample({"kind": "message-media", "stanza": S.render(KIND["message-media"].gen(0, False, 0)),
                "note": "mediatypes 3-5 (image/contact/url) only in configurations without the media module"})
    ctx.coverage.update({
        "evaluations": evals,
        "distinct_nontrivial": len(nontrivial),
        "rule": "distinct (configuration, stimulus kind, vector, participant, optional attributes) executions in "
                "which exactly one answer stanza was written downward and all its fields matched the injected stanza",
        "exhaustive": True,
        "bound": "%d stimulus kinds x 32 configurations x %s" % (
            len(KINDS), "6+ vectors x {without, with participant} x all subsets of {notify, offline}" if thorough
            else "3+ vectors x {without, with participant}, optional attributes rotating with the vector"),
        "kinds": len(KINDS),
        "kinds_by_answer": dict((a, sum(1 for k in KINDS if k.answer == a)) for a in ANSWER_NAME),
        "configurations": len(P.CONFIGS),
        "distinct_outcomes": len(outcomes),
    })
    ctx.assume("an answer is an <ack>, a <receipt> or an <iq type=result|error>; other stanzas written downward "
               "(key upload / key fetch after an encrypt notification) are not counted")
    ctx.assume("participant must be echoed only when the injected stanza carried one (DESIGN Appendix B); encrypt "
               "notifications and calls are generated without participant")
    ctx.assume("in a configuration without the media module every type=media message is a content type the stack "
               "cannot present; with the module only unknown mediatypes are")
    ctx.assume("a picture notification that is neither set nor delete is outside the guarantee and not generated")


def replay(ctx, case):
    """re-run the recorded variant in all 32 configurations (the signature's config class is recomputed)"""
    if case.get("pair"):
        return [v for v in run_pairs((case["config"], case["pair"][0]))[0] if v[2]["pair"] == case["pair"]]
    kind = KIND[case["kind"]]
    raw, tried = [], {}
    for cfg in P.CONFIGS:
        enc = bool(case.get("encrypted"))
        r = run_case(kind, cfg, case["vector"], case["participant"], case["opts"], enc)
        if r is None:
            continue
        tried.setdefault(kind.name, set()).add(cfg.key)
        for what, detail in r[0]:
            raw.append((kind.name, what, cfg.key, 0, case["vector"], case["participant"], case["opts"], enc, detail))
    return aggregate(raw, tried)
