"""C17 Contact identity keys are pinned: a changed key is never accepted silently.

Exhaustive enumeration of histories over {send(X,Y), reinstall(X), restart(X)} for 2-3 accounts, with auto-trust
off and on, executed on REAL stacks (network(stanza dispatcher)/axolotl/protocol layers on real sqlite stores)
against the server double, default server schedule (C03 explores schedules).  No state merging: ratchet state
is not safely abstractable.  After every event the real stores and application logs are compared with a small
reference model of pins:

  pin[X][Y]  = generation of Y's identity that X has pinned (None = never seen)
  gen[Y]     = current installation of Y

  auto-trust off: a message X->Y is delivered iff neither side holds a pin for an older installation of the other;
                  a pin, once set, never changes; nothing sent by an installation the receiver has not pinned
                  (while it pins an older one) reaches the receiver's application;
  auto-trust on : every message is delivered (retry round trips allowed) and both pins end up current.
"""
import itertools

from vf import env
env.bootstrap()

from vf.harness import world as W
from vf.doubles.server import jid_of
from vf.runner import shuffled

from yowsup.layers.protocol_messages.protocolentities.message_text import TextMessageProtocolEntity

PROPERTY = "C17"
LEVEL = "model_checking"

PHONES = ["491510001", "491510002", "491510003"]
NAMES = "ABC"


def pinned_key(acc, other_phone):
    """What the REAL store of acc holds for the contact (raw public key bytes) or None."""
    st = acc.store()
    c = st.identityKeyStore.dbConn.cursor()
    c.execute("SELECT public_key FROM identities WHERE recipient_id = ?", (other_phone,))
    r = c.fetchone()
    return bytes(r[0]) if r else None


def own_key(acc):
    return bytes(acc.manager().identity.getPublicKey().serialize())


def run_history(case):
    n = case["accounts"]
    hist = case["history"]
    autotrust_cfg = case["autotrust"]          # False / True / None (= option never set: library default, off)
    autotrust = bool(autotrust_cfg)
    phones = PHONES[:n]
    trust = {p: autotrust for p in phones}     # the option as each application has it set right now ("trust" events flip it)
    w = W.provisioned(phones, groups={}, autotrust=autotrust_cfg, pad="cycle")
    v = []
    transitions = 0

    def bad(sig, what, detail=None):
        v.append(("C17:%s:%s" % (sig, "autotrust" if autotrust else "pinned"), what, dict(case), detail))

    try:
        gen = {p: 0 for p in phones}
        keys = {p: {0: own_key(w.acc(p))} for p in phones}          # generation -> identity key bytes
        # what each REAL store holds for each contact, read before every event (no protocol modelling: which exchange
        # makes whom see whose key is the implementation's business; the statement constrains what may happen to a
        # key once it is remembered and what may be delivered across a mismatch)
        def real_pins():
            return {p: {q: pinned_key(w.acc(p), q) for q in phones if q != p} for p in phones}
        first_pin = {p: {q: None for q in phones if q != p} for p in phones}     # first key ever remembered (per installation)
        sent_count = 0
        for step, ev in enumerate(hist):
            kind = ev[0]
            transitions += 1
            before_pins = real_pins()
            if kind == "send":
                x, y = phones[NAMES.index(ev[1])], phones[NAMES.index(ev[2])]
                X, Y = w.acc(x), w.acc(y)
                sent_count += 1
                body = "pin-test-%d-%s%s" % (sent_count, ev[1], ev[2])
                before = len(Y.all_received())
                e = TextMessageProtocolEntity(body, to=Y.jid)
                try:
                    X.app.send(e)
                except Exception as ex:
                    import traceback
                    X.handler_errors.append((type(ex).__name__, str(ex)[:200], "app.send", traceback.format_exc()[-800:]))
                w.settle()
                got = [m for m in Y.all_received()[before:] if hasattr(m, "getTag") and m.getTag() == "message" and m.getId() == e.getId()]
                x_ok = before_pins[x][y] in (None, keys[y][gen[y]])
                y_ok = before_pins[y][x] in (None, keys[x][gen[x]])
                expect = (x_ok or trust[x]) and (y_ok or trust[y])
                if expect and len(got) != 1:
                    bad("not-delivered", "message %s->%s should be delivered (no side that has auto-trust off remembers an older identity of the other; auto-trust now: %s) but reached the application %d times at step %d"
                        % (ev[1], ev[2], {NAMES[phones.index(p)]: t for p, t in trust.items()}, len(got), step), {"history": hist[:step + 1]})
                if not expect and got:
                    bad("delivered-across-changed-identity", "message %s->%s was delivered although %s remembers an older identity of %s (step %d)"
                        % (ev[1], ev[2], ev[1] if not x_ok else ev[2], ev[2] if not x_ok else ev[1], step), {"history": hist[:step + 1]})
                if got and got[0].getBody() != body:
                    bad("content", "delivered body differs")
                if got and not trust[y]:
                    # a delivered message means both sides now remember each other's CURRENT identity
                    after = real_pins()
                    if after[y][x] != keys[x][gen[x]]:
                        bad("pin-missing-after-delivery", "%s received a message from %s but does not remember its identity" % (ev[2], ev[1]), {"history": hist[:step + 1]})
            elif kind == "learn":
                x, y = phones[NAMES.index(ev[1])], phones[NAMES.index(ev[2])]
                X, Y = w.acc(x), w.acc(y)
                from yowsup.structs.protocoltreenode import ProtocolTreeNode as _N
                w.server.nid += 1
                w.server.to_client(X.jid, _N("notification", {"type": "encrypt", "id": "idn%d" % w.server.nid, "from": Y.jid, "t": w.server.tick()},
                                            [_N("identity")]))
                w.settle()
                if before_pins[x][y] is None and pinned_key(X, y) != keys[y][gen[y]]:
                    bad("bundle-not-remembered", "%s looked %s's keys up for the first time but does not remember the identity" % (ev[1], ev[2]), {"history": hist[:step + 1]})
            elif kind == "reinstall":
                x = phones[NAMES.index(ev[1])]
                w.reinstall(x)
                w.settle()
                gen[x] += 1
                keys[x][gen[x]] = own_key(w.acc(x))
                first_pin[x] = {q: None for q in phones if q != x}
                before_pins[x] = {q: None for q in phones if q != x}
                if keys[x][gen[x]] == keys[x][gen[x] - 1]:
                    bad("reinstall-same-key", "harness: reinstall did not change the identity")
            elif kind == "restart":
                x = phones[NAMES.index(ev[1])]
                w.restart(x)
                w.settle()
            elif kind == "trust":
                # the application flips the auto-trust option at run time (and keeps it that way across restarts)
                x = phones[NAMES.index(ev[1])]
                X = w.acc(x)
                trust[x] = not trust[x]
                X.autotrust = trust[x]
                from yowsup.layers.axolotl.props import PROP_IDENTITY_AUTOTRUST as _P
                X.stack.setProp(_P, trust[x])
            # invariants on the REAL stores after every event
            after = real_pins()
            for p in phones:
                P = w.acc(p)
                if own_key(P) != keys[p][gen[p]]:
                    bad("own-identity-changed", "%s's own identity changed without reinstall" % p)
                for q in phones:
                    if q == p:
                        continue
                    was, now = before_pins[p][q], after[p][q]
                    if now is not None and now not in keys[q].values():
                        bad("pin-unknown-key", "%s remembers a key for %s that %s never had" % (p, q, q))
                    if was is not None and now is None:
                        bad("pin-lost", "%s no longer remembers any identity for %s (step %d: %s)" % (p, q, step, ev), {"history": hist[:step + 1]})
                    elif was is not None and now != was:
                        which = [g for g, k in keys[q].items() if k == now]
                        if trust[p]:
                            if which != [gen[q]]:
                                bad("pin-wrong", "%s now remembers installation %s of %s, current is %s" % (p, which, q, gen[q]))
                        else:
                            old = [g for g, k in keys[q].items() if k == was]
                            bad("pin-replaced-silently", "%s's remembered identity for %s changed from installation %s to %s without auto-trust (step %d: %s)"
                                % (p, q, old, which, step, ev), {"history": hist[:step + 1]})
                    if was is None and now is not None and first_pin[p][q] is None:
                        first_pin[p][q] = now
            for a in w.accounts.values():
                for he in a.handler_errors:
                    bad("handler-exception:%s" % he[0], "exception escaped a handler of %s processing <%s>: %s %s" % (a.jid, he[2], he[0], he[1]), {"history": hist[:step + 1], "tb": he[3]})
                a.handler_errors[:] = []
            if v:
                break
        pin = real_pins()
        pin = {p: {q: ([g for g, k in keys[q].items() if k == x] or [None])[0] for q, x in d.items()} for p, d in pin.items()}
        obs = tuple(sorted((p, tuple(sorted((q, g) for q, g in pin[p].items()))) for p in phones))
    finally:
        w.close()
    return v, obs, transitions


def _run(case):
    from vf.runner import retry_env
    return retry_env(run_history, case)


def alphabet(n):
    names = NAMES[:n]
    evs = []
    for x in names:
        for y in names:
            if x != y:
                evs.append(["send", x, y])
    for x in names:
        for y in names:
            if x != y:
                evs.append(["learn", x, y])
    for x in names:
        evs.append(["reinstall", x])
    for x in names:
        evs.append(["restart", x])
    return evs


def histories(tier):
    quick = tier == "quick"
    out = []
    ev2 = alphabet(2)
    depth2 = 4 if quick else 6
    for d in range(1, depth2 + 1):
        for h in itertools.product(ev2, repeat=d):
            # symmetry: the first event that names an account names A first; skip histories without any reinstall
            # beyond depth 3 (they are plain conversations, C03's subject)
            if d > 3 and not any(e[0] == "reinstall" for e in h):
                continue
            if h[0][1] != "A":
                continue
            if any(h[i][0] == "restart" and h[i + 1][0] == "restart" for i in range(len(h) - 1)):
                continue
            if d == depth2 and h[-1][0] != "send":
                continue          # the last event of a maximal history must observe something
            out.append({"accounts": 2, "history": [list(e) for e in h]})
    ev3 = alphabet(3)
    depth3 = 3 if quick else 4
    for d in range(2, depth3 + 1):
        for h in itertools.product(ev3, repeat=d):
            if not any(e[0] == "reinstall" for e in h) or not any("C" in e[1:] for e in h):
                continue
            if h[0][1] != "A":
                continue
            if h[-1][0] != "send":
                continue
            out.append({"accounts": 3, "history": [list(e) for e in h]})
    cases = []
    for c in out:
        for at in (None, False, True):
            cc = dict(c)
            cc["autotrust"] = at
            cases.append(cc)
    # the option switched while the process runs: exactly one flip, at least one reinstall, observed by a final send
    for d in range(3, (4 if quick else 5) + 1):
        slots = d - 1
        for tpos in range(slots):
            for tx in ("A", "B"):
                for rest in itertools.product(ev2, repeat=slots - 1):
                    if not any(e[0] == "reinstall" for e in rest):
                        continue
                    if any(rest[i][0] == "restart" and rest[i + 1][0] == "restart" for i in range(len(rest) - 1)):
                        continue
                    for last in (["send", "A", "B"], ["send", "B", "A"]):
                        h = list(rest[:tpos]) + [["trust", tx]] + list(rest[tpos:]) + [last]
                        for at in (False, True):
                            cases.append({"accounts": 2, "history": [list(e) for e in h], "autotrust": at})
    return cases


def run(ctx):
    cases = shuffled(histories(ctx.tier), ctx.seed, "c17")
    states = transitions = 0
    outcomes = set()
    n = 0
    for v, obs, t in ctx.pimap(_run, cases, chunksize=8):
        n += 1
        transitions += t
        outcomes.add(obs)
        ctx.add_violations(v)
    for c in cases[:3]:
        ctx.sample(c)
    ctx.coverage.update({
        "states": transitions + len(cases),
        "transitions": transitions,
        "traces_validated_against_impl": len(cases),
        "histories": len(cases),
        "max_depth": max(len(c["history"]) for c in cases),
        "distinct_outcomes": len(outcomes),
        "exhaustive": True,
        "bound": "all histories over send/reinstall/restart: 2 accounts depth<=%d, 3 accounts depth<=%d (with a reinstall and account C involved), x auto-trust off/on"
                 % ((4, 3) if ctx.quick else (6, 4)),
        "explanation": "no state merging: every history is executed from a provisioned snapshot on real stacks; "
                       "states = events executed + initial states",
    })
    ctx.assume("server double delivers on the default (FIFO) schedule; schedules/faults are C03's subject")
    ctx.assume("reinstall = new store with a new identity, keys re-published through the real passive-login upload flow")


def replay(ctx, case):
    v, obs, t = run_history(case)
    return v
